#!/bin/bash
# usage: confirm_mutant.sh <seed-dir containing patch.diff demo.py meta.json> <tag>
# Confirms in a scratch worktree of /repo HEAD: patch applies, demo fails with it and passes without, full suite unchanged.
set -u
SRC="$1"; TAG="$2"
WT=/tmp/confirm_$TAG
git -C /repo worktree remove --force $WT >/dev/null 2>&1
git -C /repo worktree add --detach $WT HEAD -q || exit 2
cd $WT
OUT=/tmp/confirm_$TAG.log; : > $OUT
run_demo() { PYTHONPATH=$WT/src timeout 600 /venv/bin/python "$SRC/demo.py" >>$OUT 2>&1; echo $?; }
echo "== demo on HEAD" >>$OUT; D0=$(run_demo)
if ! git apply "$SRC/patch.diff" 2>>$OUT; then
  if ! git apply --3way "$SRC/patch.diff" 2>>$OUT; then echo "$TAG APPLY-FAILED"; cd /; git -C /repo worktree remove --force $WT; exit 1; fi
fi
echo "== demo with patch" >>$OUT; D1=$(run_demo)
echo "== suite with patch" >>$OUT
PYTHONPATH=$WT/src timeout 1800 /venv/bin/python -m pytest -q -p no:cacheprovider --timeout=900 2>&1 | tail -3 >>$OUT
SUITE=$(tail -1 $OUT)
git diff > /tmp/confirm_$TAG.diff
cd /; git -C /repo worktree remove --force $WT
echo "$TAG demo_head=$D0 demo_patched=$D1 suite: $SUITE"
