#!/bin/bash
# usage: try_mutant.sh <patch.diff> <prop> [more check args]  - applies the patch to /repo, runs the check, reverts
P="$1"; shift
cd /repo || exit 2
git diff --quiet || { echo "/repo not clean"; exit 2; }
git apply "$P" 2>/dev/null || git apply --3way "$P" || { echo APPLY-FAILED; git checkout -f -q HEAD -- . ; exit 2; }
cd /verif
./check "$@" 2>&1 | grep -E "^(VIOLATION|INCONCLUSIVE|ENGINE-ERROR|KNOWN|C[0-9]+ \[)" | cut -c1-330
RC=${PIPESTATUS[0]}
git -C /repo checkout -f -q HEAD -- .
echo "exit=$RC"
