#!/bin/bash
# usage: try_mutant.sh <ABSOLUTE patch.diff> <prop> [more check args]  - applies the patch to /repo, runs the check, restores /repo HEAD
# and the evidence / replay files of the unchanged tree (a run on a patched tree must not leave its evidence behind)
P="$1"; shift
cd /repo || exit 2
git diff --quiet || { echo "/repo not clean"; exit 2; }
git apply "$P" 2>/dev/null || git apply --3way "$P" || { echo APPLY-FAILED; git checkout -f -q HEAD -- . ; exit 2; }
cd /verif
BK=$(mktemp -d /tmp/verif_ev.XXXXXX)
cp -a evidence "$BK/evidence" 2>/dev/null
./check "$@" 2>&1 | grep -E "^(VIOLATION|INCONCLUSIVE|ENGINE-ERROR|KNOWN|C[0-9]+ \[)" | cut -c1-330
RC=${PIPESTATUS[0]}
git -C /repo checkout -f -q HEAD -- .
if [ -d "$BK/evidence" ]; then rm -rf evidence; mv "$BK/evidence" evidence; fi
rm -rf "$BK"
echo "exit=$RC"
