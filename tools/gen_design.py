#!/usr/bin/env python3
"""Regenerates the machine-derived parts of DESIGN.md (between the GENERATED markers): per-property VC lists with the numbers of
the last evidence files, and the seeded-change detection table from seeded/*/meta.json + tools/seed_results.json."""
import json, os, re, sys, importlib
ROOT = os.path.dirname(os.path.dirname(os.path.abspath(__file__)))
sys.path.insert(0, ROOT)
sys.path.insert(0, os.path.join(ROOT, "tools"))
import gen_manifest as GM


def vcs_of(prop):
    from vf.runner import REGISTRY
    importlib.import_module(f"vf.props.{prop.lower()}")
    return REGISTRY.get(prop, [])


def per_property():
    out = []
    props = [json.loads(l) for l in open(os.path.join(ROOT, "properties.jsonl"))]
    for p in props:
        pid = p["id"]
        out.append(f"### {pid} — {p['title']}\n")
        if pid not in GM.CLAIMED:
            out.append("not claimed: " + GM.NA.get(pid, "") + "\n")
            continue
        ref, text, note = GM.CLAIMED[pid]
        out.append("**Decided:** " + text + "\n")
        out.append("**Bounds / outside the claim:** " + note + "\n")
        try:
            vcs = vcs_of(pid)
        except Exception as e:          # noqa
            vcs = []
        q = [n for n, f, t, d in vcs if "quick" in t]
        th = [n for n, f, t, d in vcs if "quick" not in t]
        out.append(f"**VC groups** ({len(vcs)}; module `vf/props/{pid.lower()}.py`): " + ", ".join(f"`{n}`" for n in q) +
                   ((" — thorough tier only: " + ", ".join(f"`{n}`" for n in th)) if th else "") + "\n")
        ev = os.path.join(ROOT, "evidence", pid + ".json")
        if os.path.exists(ev):
            c = json.load(open(ev))["coverage"]
            out.append(f"**Last evidence** ({json.load(open(ev))['tier']} tier): {c['obligations']} obligations, {c['discharged']} discharged, "
                       f"{c['inconclusive']} inconclusive, {c['vacuity_witnesses_sat']} vacuity witnesses sat, {len(c['functions_encoded'])} repository functions encoded, "
                       f"{c['traces_validated_against_impl']} translator-validation points, z3 {c['solver_seconds_z3']:.1f} s, "
                       f"known findings hit: {len(c.get('known_findings_hit', []))}.\n")
    return "\n".join(out)


def seeds():
    res = {}
    p = os.path.join(ROOT, "tools", "seed_results.json")
    if os.path.exists(p):
        res = json.load(open(p))
    rows = ["| seeded change | what it breaks (author's summary, shortened) | suite with the change | quick check of its property | first VC that reports it |", "|---|---|---|---|---|"]
    for d in sorted(os.listdir(os.path.join(ROOT, "seeded"))):
        m = json.load(open(os.path.join(ROOT, "seeded", d, "meta.json")))
        r = res.get(d, {})
        summ = re.sub(r"\s+", " ", m.get("summary", ""))[:170].replace("|", "/")
        suite = (m.get("confirmed_by_me", {}).get("result", "") or "")
        suite = re.sub(r".*suite: ", "", suite)[:40]
        rows.append(f"| {d} | {summ} | {suite} | {r.get('verdict', 'not run')} | {r.get('first', '')} |")
    return "\n".join(rows)


def main():
    path = os.path.join(ROOT, "DESIGN.md")
    s = open(path).read()
    for tag, body in (("PER-PROPERTY", per_property()), ("SEEDS", seeds())):
        a, b = f"<!-- GENERATED:{tag} -->", f"<!-- /GENERATED:{tag} -->"
        i, j = s.index(a) + len(a), s.index(b)
        s = s[:i] + "\n" + body + "\n" + s[j:]
    open(path, "w").write(s)


if __name__ == "__main__":
    main()
