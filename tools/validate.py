#!/usr/bin/env python3
"""validate MANIFEST.json and evidence/*.json against the schemas (run with python3-vt)"""
import json, glob, jsonschema, sys
jsonschema.validate(json.load(open('/verif/MANIFEST.json')), json.load(open('/root/.vp/MANIFEST.schema.json')))
es = json.load(open('/root/.vp/EVIDENCE.schema.json'))
for f in sorted(glob.glob('/verif/evidence/*.json')):
    jsonschema.validate(json.load(open(f)), es)
m = json.load(open('/verif/MANIFEST.json'))
ids = {c['property_id'] for c in m['checks']} | {c['property_id'] for c in m['not_applicable']}
assert ids == {f"C{i:02d}" for i in range(1, 21)}, ids
print("manifest + evidence valid;", len(m['checks']), "claimed")
