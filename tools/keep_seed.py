#!/usr/bin/env python3
"""keep_seed.py <prop> <m> <confirm-line> : copy a confirmed seeded change into /verif/seeded/<prop>-<m>/"""
import json, os, shutil, sys
prop, m, line = sys.argv[1], sys.argv[2], sys.argv[3]
src = f"/tmp/mut/{prop}/_seeded/{m}"
dst = f"/verif/seeded/{prop}-{m}"
os.makedirs(dst, exist_ok=True)
# use the diff regenerated against the current /repo HEAD when it exists
regen = f"/tmp/confirm_{prop}_{m}.diff"
shutil.copy(regen if os.path.exists(regen) and os.path.getsize(regen) else f"{src}/patch.diff", f"{dst}/patch.diff")
shutil.copy(f"{src}/demo.py", f"{dst}/demo.py")
meta = json.load(open(f"{src}/meta.json"))
out = {"breaks_property": prop, "summary": meta.get("summary"), "needs_to_manifest": meta.get("needs"), "files": meta.get("files"),
       "author": "independent sub-agent given only the property text and a scratch worktree",
       "confirmed_by_me": {"how": "tools/confirm_mutant.sh in a scratch worktree of /repo HEAD: demo.py exit status on HEAD, demo.py exit status with patch.diff applied, full pytest suite with the patch",
                           "result": line},
       "subagent_commands_run": meta.get("commands_run")}
json.dump(out, open(f"{dst}/meta.json", "w"), indent=1)
print("kept", dst)
