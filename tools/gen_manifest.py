#!/usr/bin/env python3
"""Regenerates MANIFEST.json from the table below (kept in one place so it stays valid)."""
import json, os, subprocess
ROOT = os.path.dirname(os.path.dirname(os.path.abspath(__file__)))
TECH = "symbolic evaluation of the real Python source (own AST->z3 evaluator py2smt) + SMT (z3 5.1; cvc5/z3-4.8 cross-check in thorough tier), counterexamples replayed on the real code"
CLAIMED = {
    "C11": ("2. C11", "Report-to-message mappings of CAM and VAM (fullfill_with_tpv_data, every subset of optional report keys, all binary64 values in the property's ranges) decided in QF_BVFP against (1) the constraints of the repository's own compiled ASN.1 type tree, leaf by leaf, and (2) an independently typed mapping table (scaled truncation inside the representable range, the data element's outOfRange / unavailable code outside, 'unavailable' defaults for absent keys, generationDeltaTime); the complete CAM handed to the coder by _generate_and_send_cam (LF container with path history, special vehicle and extension containers, all roles / station types / container schedules); cluster information and operation containers in every clustering state; DENM built from a DEN request (unknown / missing members) and the emergency-vehicle event position; receiver-side reconstruction of the absolute generation time for every generation time and every age 0..65 s.",
            "UPER bit packing itself is outside (every counterexample and every witness is pushed through the real coder encode->decode in the replay); dateutil parsing is a stub returning an arbitrary binary64; path history limited to two earlier points; VAM motion-prediction and path-history containers of the device data provider are not covered."),
    "C17": ("2. C17", "Repetition loop of the DEN service: bounded unrolling (interval 100..10000 ms, duration <= K intervals, unwinding assertion) with a virtual clock advanced by time.sleep: DENM k handed over iff k*i < T (ceil(T/i) messages) exactly k*i ms after the first, each to port 2002 / BTP-B / geo-broadcast circle centred on the (signed) event position with the coder output as payload, same actionId and station id in every repetition, non-decreasing reference times; one loop iteration from an arbitrary accumulated time under the invariant time = sent*interval plus the arithmetic exit lemma (any number of repetitions); three consecutive events (two repeated, one collision-risk warning) from an arbitrary service counter: different sequence numbers across events, equal within; received DENM stored in the LDM at its event position with its content; two overlapping emergency-vehicle events keep their own event position.",
            "Coder is a stub returning fresh symbolic octets / an arbitrary decoded structure (UPER itself is outside; replays use the real DENM coder); the repetition thread start is checked only as 'one request per trigger'; cadence is in virtual time (sleep durations), not wall-clock jitter."),
    "C10": ("2. C10", "One T_CheckCamGen evaluation of the CA service from an arbitrary state under the invariant (T_GenCam 100..1000, counter 0..2, times <= now): never below T_GenCamMin, CAM when T_GenCam elapsed, CAM at the first check >= 100 ms after a heading (wrap-aware) / position / speed change, LF container iff first or >= 500 ms, state/invariant preserved, failed send leaves the state, CAM built from the cached report; timer loop always re-arms 100 ms while active (also after an exception), start/stop; generationDeltaTime = ITS time mod 65536 for every millisecond-aligned report time 2004-2040 in an error-bounded model of binary64; VAM: one report against an arbitrary state (first VAM, T_GenVamMin, T_GenVam, suppression when passive/idle, LF container iff first / 2 s).",
            "Bounds over whole trajectories follow by induction over checks/reports from the one-step VCs (hand-written composition); haversine / Euclidean distance are free non-negative reals; message filling and encoding are stubbed here (C11); real-valued clock."),
    "C01": ("2. C01", "BTP request (header prepend, SDU length, parameter pass-through incl. destination address) and BTP indication (port demultiplexing over two symbolic registered ports, payload and parameters intact) for BTP-A/B; end-to-end composition for SHB, GBC, GAC and GUC: the packet emitted by the symbolically evaluated source operation of station A is fed, as a term, into the symbolically evaluated receive path of station B (and of A itself): delivered exactly once when in range / inside the area, never outside, payload byte-identical, source PV equal to A's ego PV field by field over the signed WGS-84 range, A ignores its own packet.",
            "Payload lengths from a stated menu; 'inside the area' is the sign of a free geometric value (decided in C07); location tables follow the table contract; the location-service buffering part (LS1-LS4 of DESIGN) and request ordering are not built yet; security-on variant not covered."),
    "C07": ("2. C07", "Geometric function F for all six area sub-types and a menu of azimuth angles against EN 302 931's F on the rotated coordinates (projected offsets and semi-axes symbolic, nonlinear real arithmetic); the equirectangular projection and the coordinates handed to it; area-size kernel against pi*a^2 / pi*a*b / 4*a*b and its use in the source operation (refused and nothing sent iff above itsGnMaxGeoAreaSize); Annex D forwarding-algorithm selection over arbitrary F(ego), F(sender), PAI and entry presence; GBC/GAC receivers deliver iff F(ego) >= 0, never forward oversized areas, and the GBC forwarder discards per Annex D.",
            "Real arithmetic (border band |F| <= 1e-6 excluded, as the property allows); azimuth taken from a finite menu of integer degrees; the projection itself (EN 302 931 leaves it open) is checked only against the equirectangular formula with cos uninterpreted; store-carry-forward buffering is unimplemented in the code and outside the claim."),
    "C19": ("2. C19", "Reactive DCC: four consecutive update() calls from an arbitrary state with an arbitrary real CBR, for both Annex A tables (typed in independently): one step towards the band state per evaluation, outputs = Annex A row, band state reached within four, CBR outside [0,1] rejected. Adaptive DCC: update() from arbitrary stored CBR_ITS-S/delta against clause 5.4 steps 1-5, stored = returned, within [delta_min, delta_max] (default parameters; all parameters symbolic in the thorough tier). Gate keeper: admit_packet / update_delta / is_open one step from an arbitrary state under the invariant 25 ms <= t_go - t_pg <= 1 s: B.1, B.2, admit iff open, 25 ms spacing, reopening within 1 s, invariant preserved.",
            "Real arithmetic with the code's float literals as exact rationals: double rounding in the LIMERIC filter and at band boundaries is outside the claim; histories are covered by induction over the stated invariants."),
    "C06": ("2. C06", "Duplicate-packet list as one inductive step from an arbitrary valid ring (length/fill/SN symbolic); every receive handler that forwards (TSB, GBC simple+CBF, GAC, GUC, LS request, LS reply) on a symbolic frame against a symbolic table: own-address and duplicate packets produce no effect, at most one indication and one (immediate or buffered) copy, copy = received packet except RHL-1 (DE PV only refreshed by a strictly newer neighbour PV), nothing at RHL 0/1; CBF buffer insert/cancel/expiry from an arbitrary buffer state; duplicate overheard during contention drops the buffered copy.",
            "Received packets are assumed well-formed in their reserved bits (forwarders normalise them); table answers follow a contract (arbitrary entries, may report duplicate) and counterexamples are replayed on the real Router with a scripted table giving the model's answers; flood termination is the hand-written composition of RHL decrease + duplicate list."),
    "C08": ("2. C08", "Wrap-around timestamp order over all pairs of 32-bit values (irreflexive, antisymmetric, total, agreement with real time, derived operators, transitivity in a window); update_position_vector, refresh_table (arbitrary clock, incl. timestamps ahead of the truncated clock), every new_*_packet handler from an arbitrary table pre-state (source known/unknown, arbitrary entry, one other entry) and get_neighbours are evaluated symbolically against a serial-arithmetic oracle: newest PV stored, neighbour-flag rules per packet type, other entries untouched.",
            "One-step VCs from an arbitrary pre-state (induction over packets is the hand-written composition); GN addresses are identified by their MID as GNAddress.__eq__ does; duplicate-packet list starts empty; own-address exclusion is checked in C06."),
    "C02": ("2. C02", "Every header codec (basic, common, traffic class, GN address, long/short PV, GBC/TSB/GUC/LS extended, BTP-A/B) is compared with an independently typed clause-9 layout table: encoders over all representable field values, decoders over all byte strings of the header length with defined enum values; every source operation (beacon, SHB, GBC/GAC x3 shapes, GUC, LS request) is evaluated with symbolic request/ego PV/MIB hop limit/sequence number and each emitted packet must equal basic|common|extended|payload octet for octet.",
            "Payload lengths and lifetimes come from a stated finite menu (all octets symbolic); location table, geometry and greedy-forwarding decisions are free-valued stubs; forwarded packets are covered by C06 once built."),
    "C04": ("2. C04", "For symbolic frames of every listed length the exact set of exception classes that can leave Router.gn_data_indicate (real decoders, real geometry function, failing upper layer) must be contained in the classes caught at the receive_callback call sites of RawLinkLayer.receive and the C-V2X callback loop (handler classes re-read from their ASTs); the two loops are evaluated with a scripted socket/queue: no Exception leaves them, the following frame is delivered, own/foreign-unicast frames are filtered.",
            "Frame lengths are a finite menu (quick 8 lengths, thorough 0..100,160,400); security disabled; BaseException subclasses (KeyboardInterrupt) out of scope; the vendor C-V2X shared library is not executed (its loop function is read from source)."),
    "C20": ("2. C20", "Lifetime quantiser over every requested value 0..7 000 000 ms, all 256 lifetime codes, hop-limit selection for every transport type and RHL<=MHL reception check, each as SMT queries over the real functions; unsat = holds for all values in range.",
            "Float division in the quantiser is taken over the reals plus a binary64 lemma (thorough tier); link layer and location table stubbed as recorded in the evidence."),
}
NA = {}
for i in range(1, 21):
    pid = f"C{i:02d}"
    if pid not in CLAIMED:
        NA[pid] = "check not built yet in this round (planned in DESIGN.md section 2); not claimed until its VCs are conclusive on the unchanged tree"

def main():
    checks = []
    for pid, (ref, text, note) in sorted(CLAIMED.items()):
        checks.append({
            "property_id": pid,
            "quick_cmd": f"./check {pid} --tier quick",
            "thorough_cmd": f"./check {pid} --tier thorough",
            "evidence_file": f"/verif/evidence/{pid}.json",
            "replay_cmd_template": f"./check {pid} --replay {{path}}",
            "engine": "py2smt",
            "level_claimed": {"category": "model_checking", "text": text, "design_ref": "DESIGN.md section " + ref},
            "level_note": note,
            "technique": TECH,
        })
    m = {
        "version": 1,
        "setup_cmd": "./setup.sh",
        "hooks": {"guard": "FLEXSTACK_VERIF", "enable": "no hooks are needed: stubs are bound inside the symbolic evaluator; FLEXSTACK_VERIF is nominal",
                  "baseline_off_cmd": "cd /repo && /venv/bin/python -m pytest -ra -q -p no:cacheprovider --timeout=900 --continue-on-collection-errors",
                  "source_commits": [], "add_only": True},
        "engines": [{"name": "py2smt", "path": "vf/", "serves_properties": sorted(CLAIMED),
                     "kind_free_text": "path-merging symbolic evaluator of the repository's Python ASTs into z3 terms (bit-vector / integer / real / binary64 modes), SMT-decided"}],
        "checks": checks,
        "notes": "Exit codes of ./check: 0 = no violation among decided VCs (INCONCLUSIVE lines name undecided ones), 1 = violation replayed on the real code, 3 = the engine failed its own sanity checks. known_findings.json lists genuine defects that are recorded, not repaired.",
        "not_applicable": [{"property_id": p, "reason": r} for p, r in sorted(NA.items())],
    }
    with open(os.path.join(ROOT, "MANIFEST.json"), "w") as f:
        json.dump(m, f, indent=1)
if __name__ == "__main__":
    main()
