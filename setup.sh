#!/bin/bash
# Build /verif/.venv offline: a venv layered over /venv (repo deps) with z3-solver from the wheelhouse.
set -e
cd "$(dirname "$0")"
V=.venv
if [ -x "$V/bin/python" ] && "$V/bin/python" -c "import z3, flexstack, asn1tools" 2>/dev/null; then
  exit 0
fi
rm -rf "$V"
/venv/bin/python -m venv "$V"
SP=$("$V/bin/python" -c "import sysconfig; print(sysconfig.get_paths()['purelib'])")
cat > "$SP/verif_overlay.pth" <<P
import site; site.addsitedir('/venv/lib/python3.12/site-packages')
/repo/src
P
PIP_NO_INDEX=1 "$V/bin/python" -m pip install -q --no-index --find-links /opt/veriftools/wheels z3-solver >/dev/null
"$V/bin/python" -c "import z3, flexstack, asn1tools; print('verif venv ok, z3', z3.get_version_string())"
