"""Symbolic value domain of the py2smt evaluator (engine E1)."""
import z3


UNSIGNED_VARS = set()      # names of narrow bit-vector variables that hold unsigned values (model extraction)


class Unsupported(Exception):
    """The evaluator met a construct it does not model: the VC is inconclusive."""


class Obj:
    """heap instance: concrete class, path-sensitive fields (mutable in place)"""
    _n = 0

    def __init__(self, cls, fields=None, origin=None):
        self.cls = cls
        self.fields = {} if fields is None else fields
        self.origin = origin      # concrete python object this was lifted from (kept alive)
        Obj._n += 1
        self.oid = Obj._n

    def __repr__(self):
        return f"Obj<{self.cls.__name__}#{self.oid}>"


class EnumSym:
    def __init__(self, cls, val):
        self.cls, self.val = cls, val   # val: z3 int-ish term (interp int sort)

    def __repr__(self):
        return f"EnumSym<{self.cls.__name__}:{self.val}>"


class SBytes:
    """bytes of concrete length; each octet a z3 BitVec(8) term"""
    def __init__(self, bs):
        self.bs = list(bs)

    def __len__(self):
        return len(self.bs)

    def __repr__(self):
        return f"SBytes[{len(self.bs)}]"


class Guarded:
    """heterogeneous merge: value is alts[i][1] when alts[i][0] holds (conditions mutually exclusive)"""
    def __init__(self, alts):
        flat = []
        for c, v in alts:
            if isinstance(v, Guarded):
                flat.extend((z3.And(c, c2), v2) for c2, v2 in v.alts)
            else:
                flat.append((c, v))
        self.alts = flat

    def __repr__(self):
        return "Guarded(" + ", ".join(repr(v) for _, v in self.alts) + ")"


class Opaque:
    """value whose content is irrelevant (formatted strings, exception instances, locks ...)"""
    def __init__(self, tag="opaque"):
        self.tag = tag

    def __repr__(self):
        return f"<{self.tag}>"


class Undefined:
    def __repr__(self):
        return "<undef>"


UNDEF = Undefined()


class SList:
    """list/deque whose membership is path dependent: effective content = items whose condition holds,
    in order.  maxlen (deque) is modelled by the owner of the value (see stubs)."""
    def __init__(self, items=None, maxlen=None):
        self.items = list(items) if items else []   # [(cond, value)]
        self.maxlen = maxlen

    def __repr__(self):
        return f"SList[{len(self.items)}]"


class SDict:
    """write-log map: newest matching entry wins.  entry = (cond, key, value, is_delete)."""
    def __init__(self, log=None, is_set=False):
        self.log = list(log) if log else []
        self.is_set = is_set

    def __repr__(self):
        return f"SDict[{len(self.log)}]"


class BoundSym:
    def __init__(self, fn, obj):
        self.fn, self.obj = fn, obj

    def __repr__(self):
        return f"BoundSym({getattr(self.fn, '__name__', self.fn)}, {self.obj!r})"


class TimerRec:
    """model of threading.Timer"""
    def __init__(self, delay, fn, args, pc):
        self.delay, self.fn, self.args, self.pc = delay, fn, args, pc
        self.started = z3.BoolVal(False)
        self.cancelled = z3.BoolVal(False)
        self.daemon = None

    def __repr__(self):
        return "TimerRec"


class SuperProxy:
    """zero-argument super(): attribute lookup continues after `cls` in the MRO of the instance"""
    def __init__(self, cls, obj):
        self.cls, self.obj = cls, obj
