"""Symbolic evaluation of the Router's source operations and the standard's expected packet for each
(shared by C02 emit VCs, C20 hop/lifetime VCs and C01)."""
import z3
from .values import Obj, EnumSym, SBytes, Guarded
from .interp import TRUE, FALSE
from . import wire as W
from . import symgn as G
from .gnharness import Harness, sym_request, real_router, LOCAL_MID

from flexstack.geonet.router import Router
from flexstack.geonet.mib import MIB, GnIsMobile
from flexstack.geonet.gn_address import GNAddress, M, ST, MID
from flexstack.geonet.service_access_point import (GNDataRequest, CommonNH, HeaderType, TopoBroadcastHST, GeoBroadcastHST,
                                                    GeoAnycastHST, LocationServiceHST, PacketTransportType, Area, TrafficClass)
from flexstack.geonet.basic_header import BasicHeader, LT
from flexstack.geonet.common_header import CommonHeader

BASE_MS = {0: 50, 1: 1000, 2: 10000, 3: 100000}


def best_representable(v):
    return max(min(v // b, 63) * b for b in BASE_MS.values())


def vals_from_obj(obj, layout, prefix=""):
    out = {}
    for path, off, bits, kind in W.flat(layout):
        if kind != "z":
            out[prefix + path] = W.get_path(obj, path)
    return out


def pack_vals(I, vals, layout, prefix=""):
    parts, oks = [], []
    for path, off, bits, kind in W.flat(layout):
        if kind == "z":
            parts.append(z3.BitVecVal(0, bits))
            continue
        b, ok = W.field_bits(I, vals[prefix + path], bits, kind)
        parts.append(b)
        oks.append(ok)
    return z3.Concat(*parts), z3.And(*oks)


class Expect:
    """expected packet per EN 302 636-4-1: list of (label, BitVec) segments in wire order"""

    def __init__(self, I):
        self.I = I
        self.segs = []
        self.ok = []

    def add(self, label, bv):
        self.segs.append((label, bv))

    def add_layout(self, label, vals, layout):
        b, ok = pack_vals(self.I, vals, layout)
        self.segs.append((label, b))
        self.ok.append(ok)

    def nbytes(self):
        return sum(b.size() for _, b in self.segs) // 8

    def mismatch(self, pkt, lt_ms=None):
        """condition: the emitted packet differs from the expectation in some segment.  The LT octet (basic
        header octet 2) is compared through its decoded value when lt_ms is given."""
        if len(pkt.bs) != self.nbytes():
            return TRUE
        bits = W.bits_of_bytes(pkt)
        n = bits.size()
        off = 0
        diffs = []
        for label, bv in self.segs:
            got = z3.Extract(n - off - 1, n - off - bv.size(), bits)
            if label == "basic" and lt_ms is not None:
                # octets 0,1,3 exact; LT through the table
                diffs.append(z3.Extract(31, 16, got) != z3.Extract(31, 16, bv))
                diffs.append(z3.Extract(7, 0, got) != z3.Extract(7, 0, bv))
                mult = z3.ZeroExt(26, z3.Extract(15, 10, got))
                base = z3.Extract(9, 8, got)
                ms = z3.If(base == 0, mult * 50, z3.If(base == 1, mult * 1000, z3.If(base == 2, mult * 10000, mult * 100000)))
                diffs.append(ms != z3.BitVecVal(lt_ms, 32))
            else:
                diffs.append(got != bv)
            off += bv.size()
        return z3.Or(*diffs)

    def describe(self, pkt_bytes):
        out, off = [], 0
        for label, bv in self.segs:
            nb = bv.size() // 8
            out.append(f"{label}={pkt_bytes[off:off + nb].hex()}")
            off += nb
        return " ".join(out)


def basic_vals(rhl, nh=1):
    return {"version": 1, "nh": nh, "reserved": 0, "lt.multiplier": 0, "lt.base": 0, "rhl": rhl}


def common_vals(nh, ht, hst, tc_obj, mobile, pl, mhl):
    v = {"nh": nh, "ht": ht, "hst": hst, "flags": (mobile << 7), "pl": pl, "mhl": mhl}
    if tc_obj is None:
        v.update({"tc.scf": False, "tc.channel_offload": False, "tc.tc_id": 0})
    else:
        v.update({"tc." + k: x for k, x in vals_from_obj(tc_obj, W.TC).items()})
    return v


def enum_val(e):
    return e.val if isinstance(e, EnumSym) else e.value


LIFETIMES = [None, 0.0, 0.05, 0.4, 0.75, 1.0, 3.2, 63.0, 110.0, 600.0]


def lifetime_ms(h, lifetime):
    if lifetime is None:
        return best_representable(h.R.mib.itsGnDefaultPacketLifetime * 1000)
    return best_representable(int(lifetime * 1000))


def mib_hop_default(h):
    return W.get_path(h.mib, "itsGnDefaultHopLimit") if isinstance(h.mib, Obj) else h.mib.itsGnDefaultHopLimit


def sym_hop_default(I):
    return I.int_var("mib_default_hl", 1, 255)


def hop_rule(I, req_hl, default_hl):
    """10.3.x: RHL = MHL = requested maximum hop limit when above 1, else itsGnDefaultHopLimit"""
    return z3.If(I.num(req_hl) > I.const(1), I.num(req_hl), I.num(default_hl))


def case_shb(L, lifetime, mobile=GnIsMobile.MOBILE, width=None):
    h = Harness(width or (8 * 24 + 64 + 64), itsGnIsMobile=mobile)
    I = h.I
    h.add_entry("nb")
    req = sym_request(I, "rq", HeaderType.TSB, TopoBroadcastHST.SINGLE_HOP, L, lifetime)
    conf = h.call(Router.gn_data_request_shb, req)
    ex = Expect(I)
    ex.add_layout("basic", basic_vals(1), W.BASIC)
    ex.add_layout("common", common_vals(enum_val(req.fields["upper_protocol_entity"]), 5, 0, req.fields["traffic_class"],
                                        mobile.value, L, 1), W.COMMON)
    ex.add_layout("so_pv", vals_from_obj(h.ego, W.LPV), W.LPV)
    ex.add("media-dependent", z3.BitVecVal(0, 32))
    if L:
        ex.add("payload", W.bits_of_bytes(req.fields["data"]))
    return h, req, conf, ex, lifetime_ms(h, lifetime)


def case_gbc(ht, hst, L, lifetime, mobile=GnIsMobile.MOBILE, method=None, width=None):
    h = Harness(width or (8 * 24 + 128), itsGnIsMobile=mobile, mib_sym=None)
    I = h.I
    dflt = sym_hop_default(I)
    mo = I.lift_value(h.R.mib)
    mo.fields["itsGnDefaultHopLimit"] = dflt
    h.Ro.fields["mib"] = mo
    h.mib = mo
    h.add_entry("nb")
    sn0 = I.int_var("sn0", 0, 65534)
    h.set_sn(sn0)
    req = sym_request(I, "rq", ht, hst, L, lifetime)
    conf = h.call(method or (Router.gn_data_request_gbc if ht == HeaderType.GEOBROADCAST else Router.gn_data_request_gac), req)
    hop = hop_rule(I, req.fields["max_hop_limit"], dflt)
    I.mag[hop.get_id()] = 8
    sn = z3.If(sn0 + 1 == I.const(65535), I.const(0), sn0 + 1)
    I.mag[sn.get_id()] = 16
    ex = Expect(I)
    ex.add_layout("basic", basic_vals(hop), W.BASIC)
    ex.add_layout("common", common_vals(enum_val(req.fields["upper_protocol_entity"]), ht.value, hst.value,
                                        req.fields["traffic_class"], mobile.value, L, hop), W.COMMON)
    ev = {"sn": sn, "reserved": 0, "reserved2": 0}
    ev.update({"so_pv." + k: v for k, v in vals_from_obj(h.ego, W.LPV).items()})
    a = req.fields["area"]
    ev.update({"latitude": a.fields["latitude"], "longitude": a.fields["longitude"], "a": a.fields["a"], "b": a.fields["b"],
               "angle": a.fields["angle"]})
    ex.add_layout("gbc", ev, W.GBC)
    if L:
        ex.add("payload", W.bits_of_bytes(req.fields["data"]))
    return h, req, conf, ex, lifetime_ms(h, lifetime), dict(sn0=sn0, dflt=dflt, hop=hop)


def case_guc(L, lifetime, mobile=GnIsMobile.MOBILE, width=None):
    h = Harness(width or (8 * 24 + 128), itsGnIsMobile=mobile)
    I = h.I
    dflt = sym_hop_default(I)
    mo = I.lift_value(h.R.mib)
    mo.fields["itsGnDefaultHopLimit"] = dflt
    h.Ro.fields["mib"] = mo
    h.mib = mo
    dest = G.sym_gn_addr(I, "dest")
    de = h.add_entry("de", addr=dest, present=TRUE)
    h.add_entry("nb")
    sn0 = I.int_var("sn0", 0, 65534)
    h.set_sn(sn0)
    req = sym_request(I, "rq", HeaderType.GEOUNICAST, TopoBroadcastHST.SINGLE_HOP, L, lifetime, destination=dest)
    # the sub-type of a GUC request is unspecified (0)
    from flexstack.geonet.service_access_point import HeaderSubType
    req.fields["packet_transport_type"] = PacketTransportType(header_type=HeaderType.GEOUNICAST, header_subtype=HeaderSubType.UNSPECIFIED)
    conf = h.call(Router.gn_data_request_guc, req)
    hop = hop_rule(I, req.fields["max_hop_limit"], dflt)
    I.mag[hop.get_id()] = 8
    sn = z3.If(sn0 + 1 == I.const(65535), I.const(0), sn0 + 1)
    I.mag[sn.get_id()] = 16
    ex = Expect(I)
    ex.add_layout("basic", basic_vals(hop), W.BASIC)
    ex.add_layout("common", common_vals(enum_val(req.fields["upper_protocol_entity"]), 2, 0, req.fields["traffic_class"],
                                        mobile.value, L, hop), W.COMMON)
    ev = {"sn": sn, "reserved": 0}
    ev.update({"so_pv." + k: v for k, v in vals_from_obj(h.ego, W.LPV).items()})
    dpv = de.fields["position_vector"]
    ev.update({"de_pv." + k: v for k, v in vals_from_obj(dpv, W.SPV).items()})
    ex.add_layout("guc", ev, W.GUC)
    if L:
        ex.add("payload", W.bits_of_bytes(req.fields["data"]))
    return h, req, conf, ex, lifetime_ms(h, lifetime), dict(sn0=sn0, dflt=dflt, hop=hop, de=de)


def case_beacon(mobile=GnIsMobile.MOBILE):
    h = Harness(8 * 24 + 128, itsGnIsMobile=mobile)
    I = h.I
    h.call(Router.gn_data_request_beacon)
    ex = Expect(I)
    ex.add_layout("basic", basic_vals(1), W.BASIC)
    ex.add_layout("common", common_vals(0, 1, 0, None, mobile.value, 0, 1), W.COMMON)
    ex.add_layout("so_pv", vals_from_obj(h.ego, W.LPV), W.LPV)
    return h, ex, lifetime_ms(h, None)


def case_ls_request(mobile=GnIsMobile.MOBILE):
    h = Harness(8 * 24 + 128, itsGnIsMobile=mobile)
    I = h.I
    dflt = sym_hop_default(I)
    mo = I.lift_value(h.R.mib)
    mo.fields["itsGnDefaultHopLimit"] = dflt
    h.Ro.fields["mib"] = mo
    h.mib = mo
    sn0 = I.int_var("sn0", 0, 65534)
    h.set_sn(sn0)
    sought = G.sym_gn_addr(I, "sought")
    h.call(Router._send_ls_request_packet, sought)
    sn = z3.If(sn0 + 1 == I.const(65535), I.const(0), sn0 + 1)
    I.mag[sn.get_id()] = 16
    ex = Expect(I)
    ex.add_layout("basic", basic_vals(dflt), W.BASIC)
    ex.add_layout("common", common_vals(0, 6, 0, None, mobile.value, 0, dflt), W.COMMON)
    ev = {"sn": sn, "reserved": 0}
    ev.update({"so_pv." + k: v for k, v in vals_from_obj(h.ego, W.LPV).items()})
    ev.update({"request_gn_addr." + k: v for k, v in vals_from_obj(sought, W.GN_ADDR).items()})
    ex.add_layout("lsreq", ev, W.LSREQ)
    return h, ex, lifetime_ms(h, None), dict(sn0=sn0, dflt=dflt, sought=sought)
