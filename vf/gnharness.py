"""Harness pieces for VCs that drive the real GeoNetworking Router symbolically."""
import z3
from .calls import make
from .values import Obj, EnumSym, SBytes, Guarded, SList, SDict, Opaque, UNDEF
from .interp import TRUE, FALSE
from . import symgn as G

from flexstack.geonet.router import Router
from flexstack.geonet.mib import MIB, GnSecurity, AreaForwardingAlgorithm, NonAreaForwardingAlgorithm, GnIsMobile
from flexstack.geonet.gn_address import GNAddress, M, ST, MID
from flexstack.geonet.location_table import LocationTable, LocationTableEntry
from flexstack.geonet.exceptions import DuplicatedPacketException
from flexstack.geonet.service_access_point import (GNDataRequest, CommonNH, HeaderType, TopoBroadcastHST, GeoBroadcastHST,
                                                    GeoAnycastHST, PacketTransportType, Area, TrafficClass)
from flexstack.linklayer.exceptions import SendingException, PacketTooLongException

LOCAL_MID = b"\x0a\x0b\x0c\x0d\x0e\x0f"


class FakeLinkLayer:
    def __init__(self):
        self.sent = []

    def send(self, packet):
        self.sent.append(bytes(packet))


def real_router(mib=None, **mib_kw):
    mib = mib or MIB(itsGnLocalGnAddr=GNAddress(m=M.GN_UNICAST, st=ST.PASSENGER_CAR, mid=MID(LOCAL_MID)), **mib_kw)
    r = Router(mib)
    ll = FakeLinkLayer()
    r.link_layer = ll
    got = []
    r.register_indication_callback(got.append)
    return r, ll, got


class Harness:
    """one symbolic Router instance with stubbed environment"""

    def __init__(self, width=512, mib=None, mib_sym=(), table="stub", geom="free", greedy="free", area_size="free",
                 ego="sym", fmode="real", unroll=4, geom_zero=False, **mib_kw):
        self.geom_zero = geom_zero          # free geometry also raises ZeroDivisionError for an area with a zero distance (opt-in: receive-path VCs)
        self.I = I = make("bv", width, fmode, unroll)
        self.R, self.ll, self.got = real_router(mib, **mib_kw)
        self.cb = self.R.indication_callback
        self.sent = []          # (pc, SBytes)
        self.indications = []   # (pc, Obj)
        self.table_calls = []   # (pc, name, args)
        self.dup = {}           # method name -> condition "reported a duplicate" (all calls)
        self.dup_vars = []      # (method name, fresh Bool) per call
        I.stubs[id(self.ll)] = self._send
        I.stubs[id(self.cb)] = self._indicate
        self.Ro = I.lift(self.R)
        self.Ro.fields["indication_callback"] = self.cb
        # symbolic MIB attributes
        self.mib = self.R.mib
        if mib_sym:
            mo = I.lift_value(self.R.mib)
            for name, val in mib_sym.items():
                mo.fields[name] = val
            self.Ro.fields["mib"] = mo
            self.mib = mo
        if ego == "sym":
            self.ego = G.sym_lpv(I, "ego")
            self.ego.fields["gn_addr"] = self.R.mib.itsGnLocalGnAddr
            self.Ro.fields["ego_position_vector"] = self.ego
        else:
            self.ego = self.R.ego_position_vector
        if geom == "free":
            self.F = []
            I.stubs[Router.gn_geometric_function_f] = self._geom
        if greedy == "free":
            self.greedy = []
            I.stubs[Router.gn_greedy_forwarding] = self._greedy
        if area_size == "free":
            self.area_sizes = []
            I.stubs[Router._compute_area_size_m2] = self._area_size
        self.table_mode = table
        if table == "stub":
            self.neighbours = SList()
            self.entries = []       # (addr value, present cond, entry Obj)
            I.stubs[id(self.R.location_table)] = self._table

    # ------------------------------------------------------------ stubs
    def _send(self, it, name, a, k, pc):
        if name != "send":
            return None
        self.sent.append((pc, a[0]))
        it.events.append((pc, "send", a[0]))
        return None

    def _indicate(self, it, name, a, k, pc):
        v = a[0]
        alts = v.alts if isinstance(v, Guarded) else [(TRUE, v)]
        for c, x in alts:
            if x is None or not isinstance(x, Obj):
                continue
            cc = z3.simplify(z3.And(pc, c))
            self.indications.append((cc, x))
            it.events.append((cc, "indication", x))
        return None

    def _geom(self, it, a, k, pc):
        """free-valued geometric function: one arbitrary real per distinct argument tuple"""
        def key(v):
            if isinstance(v, z3.ExprRef):
                return ("t", v.get_id())
            if isinstance(v, Obj):
                return tuple((kk, key(x)) for kk, x in sorted(v.fields.items()))
            if isinstance(v, EnumSym):
                return ("e", v.cls.__name__, v.val.get_id())
            return ("c", repr(v))
        # contract of the real function: it divides by both distances of the area - a zero distance raises ZeroDivisionError (the value itself is free: C07)
        area = a[2] if len(a) > 2 and isinstance(a[2], Obj) else None
        if getattr(self, "geom_zero", False) and area is not None and "a" in area.fields and "b" in area.fields:
            zero = z3.Or(it._lb(it.equal(area.fields["a"], 0)), it._lb(it.equal(area.fields["b"], 0)))
            if it.pybool(zero) is not False:
                it.raises.append((z3.And(pc, zero), ZeroDivisionError))
                pc = z3.And(pc, z3.Not(zero))
        kk = tuple(key(x) for x in a[1:])
        cache = self.__dict__.setdefault("_fcache", {})
        if kk in cache:
            i = cache[kk]
            pc0, a0, f = self.F[i]
            self.F[i] = (z3.Or(pc0, pc), a0, f)
            return f
        f = z3.Real(it.fresh("F"))
        cache[kk] = len(self.F)
        self.F.append((pc, a[1:], f))
        return f

    def _greedy(self, it, a, k, pc):
        g = z3.Bool(it.fresh("greedy"))
        self.greedy.append((pc, a[1:], g))
        return g

    def _area_size(self, it, a, k, pc):
        s = z3.Real(it.fresh("areasize"))
        it.assumptions.append(s >= 0)
        self.area_sizes.append((pc, a, s))
        return s

    def add_entry(self, name, addr=None, present=None, neighbour=None):
        """symbolic location-table entry (stub-table mode)"""
        I = self.I
        e = Obj(LocationTableEntry, dict(
            mib=self.R.mib, position_vector=G.sym_lpv(I, name + "_pv"),
            is_neighbour=z3.Bool(name + "_nb") if neighbour is None else neighbour,
            ls_pending=z3.Bool(name + "_lsp"), pdr=z3.Real(name + "_pdr")))
        I.assumptions.append(e.fields["pdr"] >= 0)
        if addr is not None:
            e.fields["position_vector"].fields["gn_addr"] = addr
        present = z3.Bool(name + "_present") if present is None else present
        for a2, p2, e2 in self.entries:      # a real table never holds two entries that compare equal
            same = I._lb(I.equal(e.fields["position_vector"].fields["gn_addr"], a2))
            I.assumptions.append(z3.Not(z3.And(present, p2, same)))
        self.entries.append((e.fields["position_vector"].fields["gn_addr"], present, e))
        self.neighbours.items.append((z3.And(present, I.to_bool(e.fields["is_neighbour"])), e))
        return e

    def _table(self, it, name, a, k, pc):
        self.table_calls.append((pc, name, a))
        it.events.append((pc, "tbl." + name, a))
        if name == "get_neighbours":
            return SList(self.neighbours.items)
        if name == "get_entry":
            res = None
            for addr, present, e in self.entries:
                m = it._lb(it.equal(addr, a[0], pc))
                res = it.ite(z3.And(present, m), e, res)
            return res
        if name == "ensure_entry":
            raise NotImplementedError("ensure_entry on stub table: use table='real'")
        if name.startswith("new_"):
            d = z3.Bool(it.fresh("dup_" + name))
            self.dup_vars.append((name, d))
            self.dup[name] = d if name not in self.dup else z3.Or(self.dup[name], d)
            it.raises.append((z3.And(pc, d), DuplicatedPacketException))
            return None
        if name == "refresh_table":
            return None
        raise NotImplementedError(name)

    # ------------------------------------------------------------ helpers
    def call(self, method, *args, pc=TRUE):
        return self.I.call_function(method, [self.Ro] + list(args), {}, pc)

    def exc(self, n0=0, classes=None):
        rs = [c for c, k in self.I.raises[n0:] if classes is None or issubclass(k, classes)]
        return z3.Or(*rs) if rs else FALSE

    def set_sn(self, sn0):
        self.sn0 = sn0
        self.Ro.fields["sequence_number"] = sn0

    def any_send(self):
        return z3.Or(*[c for c, _ in self.sent]) if self.sent else FALSE

    def any_indication(self):
        return z3.Or(*[c for c, _ in self.indications]) if self.indications else FALSE


def sym_request(I, name, ht, hst, L, lifetime=None, destination=None, hop_limit=None, signed=True):
    """symbolic GN-DATA.request with a payload of L symbolic octets"""
    data = G.sym_bytes(name + "_p", L)
    area = Obj(Area, dict(latitude=I.int_var(name + "_alat", -900000000 if signed else 0, 900000000),
                          longitude=I.int_var(name + "_alon", -1800000000 if signed else 0, 1800000000),
                          a=I.int_var(name + "_aa", 0, 65535), b=I.int_var(name + "_ab", 0, 65535),
                          angle=I.int_var(name + "_aang", 0, 65535)))
    from flexstack.security.security_profiles import SecurityProfile
    from flexstack.geonet.service_access_point import CommunicationProfile
    req = Obj(GNDataRequest, dict(
        upper_protocol_entity=G.sym_enum(I, name + "_nh", CommonNH),
        packet_transport_type=PacketTransportType(header_type=ht, header_subtype=hst),
        communication_profile=CommunicationProfile.UNSPECIFIED,
        security_profile=SecurityProfile.NO_SECURITY, its_aid=0, security_permissions=b"\x00",
        traffic_class=G.sym_tc(I, name + "_tc"), length=L, data=data, area=area,
        max_hop_limit=I.int_var(name + "_mhl", 0, 255) if hop_limit is None else hop_limit,
        max_packet_lifetime=lifetime, destination=destination))
    return req


# ---------------------------------------------------------------------------------------------- replay side
def eval_term(t, values):
    """closed z3 term over named variables + model values -> python int (unsigned for BV) / bool / float"""
    if not isinstance(t, z3.ExprRef):
        return t
    vs = G.vars_of(None, t)
    sub = []
    for n, v in vs.items():
        val = values.get(n)
        if val is None:
            val = 0
        if z3.is_bool(v):
            sub.append((v, z3.BoolVal(bool(val))))
        elif isinstance(v, z3.BitVecRef):
            sub.append((v, z3.BitVecVal(val, v.size())))
        elif z3.is_int(v):
            sub.append((v, z3.IntVal(val)))
        else:
            import fractions
            fr = fractions.Fraction(val)
            sub.append((v, z3.RealVal(f"{fr.numerator}/{fr.denominator}")))
    r = z3.simplify(z3.substitute(t, *sub)) if sub else z3.simplify(t)
    if z3.is_bool(r):
        if z3.is_true(r):
            return True
        if z3.is_false(r):
            return False
        raise ValueError(f"not closed: {r}")
    if isinstance(r, z3.BitVecNumRef):
        return r.as_long()
    if isinstance(r, z3.IntNumRef):
        return r.as_long()
    if isinstance(r, z3.RatNumRef):
        return r.numerator_as_long() / r.denominator_as_long()
    raise ValueError(f"cannot evaluate {r}")


def all_vars(h, *extra):
    """every named variable of the harness state (for model extraction)"""
    objs = list(extra) + [h.ego] + [e for _, _, e in getattr(h, "entries", [])] + [p for _, p, _ in getattr(h, "entries", [])]
    objs += [a for a, _, _ in getattr(h, "entries", [])]
    if isinstance(h.mib, Obj):
        objs.append(h.mib)
    objs.append(getattr(h, "sn0", None))
    vs = G.vars_of(None, *[o for o in objs if o is not None])
    for lst in (getattr(h, "F", []), getattr(h, "greedy", []), getattr(h, "area_sizes", [])):
        for i, (pc, a, var) in enumerate(lst):
            vs[var.decl().name()] = var
            vs["__pc__" + var.decl().name()] = pc
    for name, d in h.dup_vars:
        vs[d.decl().name()] = d
    for a in h.I.assumptions:
        pass
    return vs


class ScriptedTable:
    """location table double for replays: same contract as Harness._table, concrete answers from the model"""

    def __init__(self, entries, dup_methods):
        self.entries, self.dup_methods, self.calls = entries, dup_methods, []

    def get_entry(self, addr):
        res = None
        for e in self.entries:
            if e.position_vector.gn_addr == addr:
                res = e
        return res

    def get_neighbours(self):
        return [e for e in self.entries if e.is_neighbour]

    def refresh_table(self):
        pass

    def __getattr__(self, name):
        if name.startswith("new_"):
            def f(*a, **k):
                self.calls.append(name)
                if name in self.dup_methods:
                    raise DuplicatedPacketException("Packet is duplicated")
            return f
        raise AttributeError(name)


def build_real(h, values, mobile=None, scripted_table=True):
    """real Router in the concrete state described by the model"""
    from flexstack.geonet.mib import MIB
    import dataclasses
    kw = {}
    if isinstance(h.mib, Obj):
        for f in dataclasses.fields(MIB):
            v = h.mib.fields.get(f.name)
            if isinstance(v, (z3.ExprRef, EnumSym)):
                kw[f.name] = G.concretize(v, values)
    mib = dataclasses.replace(h.R.mib, **kw)
    R, ll, got = real_router(mib)
    if isinstance(h.ego, Obj):
        R.ego_position_vector = G.concretize(h.ego, values)
    sn = getattr(h, "sn0", None)
    if isinstance(sn, z3.ExprRef):
        R.sequence_number = eval_term(sn, values)
    real_entries = []
    for addr, present, e in getattr(h, "entries", []):
        if eval_term(present, values) if isinstance(present, z3.ExprRef) else present:
            ent = LocationTableEntry(mib)
            ent.position_vector = G.concretize(e.fields["position_vector"], values)
            ent.is_neighbour = bool(G.concretize(e.fields["is_neighbour"], values))
            ent.ls_pending = bool(G.concretize(e.fields["ls_pending"], values))
            ent.pdr = float(G.concretize(e.fields["pdr"], values))
            R.location_table.loc_t[ent.position_vector.gn_addr] = ent
            real_entries.append(ent)
    if getattr(h, "table_mode", None) == "stub" and scripted_table:
        # the symbolic run used the table CONTRACT (arbitrary answers); the replay gives the real Router a table
        # that answers exactly as in the model
        R.location_table = ScriptedTable(real_entries, {n for n, d in h.dup_vars if values.get(d.decl().name())})
    # free-valued stubs: the calls on the model's path, in order
    from unittest import mock
    class_patches = []
    for attr, lst, conv in (("gn_geometric_function_f", getattr(h, "F", None), float),
                            ("gn_greedy_forwarding", getattr(h, "greedy", None), bool),
                            ("_compute_area_size_m2", getattr(h, "area_sizes", None), float)):
        if lst is None:
            continue
        seq = [conv(values[var.decl().name()]) for pc, a, var in lst if values.get("__pc__" + var.decl().name(), True)]

        orig = getattr(R, attr, None)

        def patched(*a, _seq=seq, _attr=attr, _lst=lst, _orig=orig, **k):
            if _attr == "gn_geometric_function_f":
                # one model value per distinct argument tuple: find the tuple that matches the actual arguments
                for pc_, sa, var in _lst:
                    try:
                        ca = [G.concretize(x, values) for x in sa]
                        if ca[0] == a[0] and ca[1] == a[1] and ca[2] == a[2] and ca[3] == a[3]:
                            return float(values[var.decl().name()])
                    except Exception:
                        continue
                # arguments the model never evaluated (a changed call site): the real geometric function answers
                import os
                if os.environ.get("VERIF_DEBUG_GEOM"):
                    print("GEOM actual", a, "known", [[G.concretize(x, values) for x in sa] for pc_, sa, var in _lst], flush=True)
                if _orig is not None:
                    return _orig(*a)
                raise AssertionError("replay: geometric function called with arguments the model does not know")
            if not _seq:
                raise AssertionError(f"replay: unexpected extra call of {_attr}")
            return _seq.pop(0)
        if attr == "_compute_area_size_m2":
            # static method looked up on the class: patched on the class for the duration of the replay
            class_patches.append(mock.patch.object(Router, attr, staticmethod(patched)))
        else:
            setattr(R, attr, patched)
    return R, ll, got, _Patches(class_patches)


class _Patches:
    def __init__(self, ps):
        self.ps = ps

    def __enter__(self):
        for p in self.ps:
            p.start()
        return self

    def __exit__(self, *a):
        for p in self.ps:
            p.stop()
        return False
