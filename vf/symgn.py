"""Builders of symbolic GeoNetworking objects (inputs of the VCs)."""
import z3
from .values import Obj, EnumSym, SBytes
from flexstack.geonet.gn_address import GNAddress, M, ST, MID
from flexstack.geonet.position_vector import LongPositionVector, ShortPositionVector, TST
from flexstack.geonet.basic_header import BasicHeader, LT, LTbase, BasicNH
from flexstack.geonet.common_header import CommonHeader
from flexstack.geonet.service_access_point import (CommonNH, HeaderType, HeaderSubType, TrafficClass, GeoBroadcastHST,
                                                    GeoAnycastHST, TopoBroadcastHST, LocationServiceHST)
from flexstack.geonet.gbc_extended_header import GBCExtendedHeader
from flexstack.geonet.tsb_extended_header import TSBExtendedHeader
from flexstack.geonet.guc_extended_header import GUCExtendedHeader
from flexstack.geonet.ls_extended_header import LSRequestExtendedHeader, LSReplyExtendedHeader


def sym_enum(I, name, cls, members=None):
    members = list(members or cls)
    vals = [m.value for m in members]
    v = I.int_var(name, min(vals), max(vals))
    if len(vals) != max(vals) - min(vals) + 1:
        I.assumptions.append(z3.Or(*[v == I.const(x) for x in vals]))
    return EnumSym(cls, v)


def sym_bytes(name, n):
    return SBytes([z3.BitVec(f"{name}{i}", 8) for i in range(n)])


def sym_gn_addr(I, name):
    return Obj(GNAddress, dict(m=sym_enum(I, name + "_m", M), st=sym_enum(I, name + "_st", ST),
                               mid=Obj(MID, dict(mid=sym_bytes(name + "_mid", 6)))))


def sym_lpv(I, name, signed=True):
    lat_lo = -900000000 if signed else 0
    lon_lo = -1800000000 if signed else 0
    return Obj(LongPositionVector, dict(
        gn_addr=sym_gn_addr(I, name + "_a"),
        tst=Obj(TST, dict(msec=I.int_var(name + "_tst", 0, 2 ** 32 - 1))),
        latitude=I.int_var(name + "_lat", lat_lo, 900000000),
        longitude=I.int_var(name + "_lon", lon_lo, 1800000000),
        pai=z3.Bool(name + "_pai"),
        s=I.int_var(name + "_s", -16384 if signed else 0, 16383),
        h=I.int_var(name + "_h", 0, 65535)))


def sym_spv(I, name, signed=True):
    return Obj(ShortPositionVector, dict(
        gn_addr=sym_gn_addr(I, name + "_a"),
        tst=Obj(TST, dict(msec=I.int_var(name + "_tst", 0, 2 ** 32 - 1))),
        latitude=I.int_var(name + "_lat", -900000000 if signed else 0, 900000000),
        longitude=I.int_var(name + "_lon", -1800000000 if signed else 0, 1800000000)))


def sym_tc(I, name):
    return Obj(TrafficClass, dict(scf=z3.Bool(name + "_scf"), channel_offload=z3.Bool(name + "_co"),
                                  tc_id=I.int_var(name + "_id", 0, 63)))


def sym_basic(I, name):
    return Obj(BasicHeader, dict(
        version=I.int_var(name + "_ver", 0, 15), nh=sym_enum(I, name + "_nh", BasicNH),
        reserved=I.int_var(name + "_res", 0, 255),
        lt=Obj(LT, dict(multiplier=I.int_var(name + "_ltm", 0, 63), base=sym_enum(I, name + "_ltb", LTbase))),
        rhl=I.int_var(name + "_rhl", 0, 255)))


HST_OF = {HeaderType.GEOBROADCAST: GeoBroadcastHST, HeaderType.GEOANYCAST: GeoAnycastHST,
          HeaderType.TSB: TopoBroadcastHST, HeaderType.LS: LocationServiceHST}


def sym_common(I, name, ht):
    """common header with a fixed header type (the sub-type enum depends on it)"""
    hst_cls = HST_OF.get(ht, HeaderSubType)
    return Obj(CommonHeader, dict(
        nh=sym_enum(I, name + "_nh", CommonNH), reserved=0, ht=ht, hst=sym_enum(I, name + "_hst", hst_cls),
        tc=sym_tc(I, name + "_tc"), flags=I.int_var(name + "_fl", 0, 255), pl=I.int_var(name + "_pl", 0, 65535),
        mhl=I.int_var(name + "_mhl", 0, 255)))


def sym_gbc(I, name, signed=True):
    return Obj(GBCExtendedHeader, dict(
        sn=I.int_var(name + "_sn", 0, 65535), reserved=I.int_var(name + "_r", 0, 65535), so_pv=sym_lpv(I, name + "_so", signed),
        latitude=I.int_var(name + "_lat", -900000000 if signed else 0, 900000000),
        longitude=I.int_var(name + "_lon", -1800000000 if signed else 0, 1800000000),
        a=I.int_var(name + "_a", 0, 65535), b=I.int_var(name + "_b", 0, 65535), angle=I.int_var(name + "_ang", 0, 65535),
        reserved2=I.int_var(name + "_r2", 0, 65535)))


def sym_tsb(I, name, signed=True):
    return Obj(TSBExtendedHeader, dict(sn=I.int_var(name + "_sn", 0, 65535), reserved=I.int_var(name + "_r", 0, 65535),
                                       so_pv=sym_lpv(I, name + "_so", signed)))


def sym_guc(I, name, signed=True, cls=GUCExtendedHeader):
    return Obj(cls, dict(sn=I.int_var(name + "_sn", 0, 65535), reserved=I.int_var(name + "_r", 0, 65535),
                         so_pv=sym_lpv(I, name + "_so", signed), de_pv=sym_spv(I, name + "_de", signed)))


def sym_lsreq(I, name, signed=True):
    return Obj(LSRequestExtendedHeader, dict(sn=I.int_var(name + "_sn", 0, 65535), reserved=I.int_var(name + "_r", 0, 65535),
                                             so_pv=sym_lpv(I, name + "_so", signed), request_gn_addr=sym_gn_addr(I, name + "_rq")))


# ---------------------------------------------------------------- concrete reconstruction for replays
def conc_gn_addr(v, name):
    return GNAddress(m=M(v[name + "_m"]), st=ST(v[name + "_st"]), mid=MID(bytes(v[f"{name}_mid{i}"] for i in range(6))))


def conc_lpv(v, name):
    return LongPositionVector(gn_addr=conc_gn_addr(v, name + "_a"), tst=TST(msec=v[name + "_tst"]), latitude=v[name + "_lat"],
                              longitude=v[name + "_lon"], pai=v[name + "_pai"], s=v[name + "_s"], h=v[name + "_h"])


def conc_spv(v, name):
    return ShortPositionVector(gn_addr=conc_gn_addr(v, name + "_a"), tst=TST(msec=v[name + "_tst"]), latitude=v[name + "_lat"],
                               longitude=v[name + "_lon"])


def vars_of(I, *objs):
    """all z3 variables reachable from symbolic objects: name -> term"""
    out = {}

    def walk(o):
        if isinstance(o, Obj):
            for x in o.fields.values():
                walk(x)
        elif isinstance(o, EnumSym):
            walk(o.val)
        elif isinstance(o, SBytes):
            for b in o.bs:
                walk(b)
        elif isinstance(o, (list, tuple)):
            for x in o:
                walk(x)
        elif isinstance(o, z3.ExprRef):
            if z3.is_const(o) and o.decl().kind() == z3.Z3_OP_UNINTERPRETED:
                out[o.decl().name()] = o
            else:
                for ch in o.children():
                    walk(ch)
    for o in objs:
        walk(o)
    return out


def _value_of(values, name):
    """model value of a named variable; octets of the symbolic frame `f<i>` are read from values["frame"]; a variable the query
    does not constrain is 0, as in the frame builder of the replays"""
    if name in values:
        return values[name]
    import re
    m = re.match(r"^f(\d+)$", name)
    fr = values.get("frame")
    if m and fr is not None:
        if isinstance(fr, str):
            try:
                fr = bytes.fromhex(fr)
            except ValueError:
                fr = None
        if fr is not None and int(m.group(1)) < len(fr):
            return fr[int(m.group(1))]
    return 0


def concretize(o, values):
    """symbolic object tree + model values -> real instance of the repository class"""
    import dataclasses
    if isinstance(o, Obj):
        kw = {k: concretize(v, values) for k, v in o.fields.items()}
        if dataclasses.is_dataclass(o.cls):
            names = {f.name for f in dataclasses.fields(o.cls) if f.init}
            return o.cls(**{k: v for k, v in kw.items() if k in names})
        inst = o.cls.__new__(o.cls)
        inst.__dict__.update(kw)
        return inst
    if isinstance(o, EnumSym):
        return o.cls(concretize(o.val, values))
    if isinstance(o, SBytes):
        return bytes(concretize(b, values) for b in o.bs)
    if isinstance(o, z3.ExprRef):
        if z3.is_const(o) and o.decl().kind() == z3.Z3_OP_UNINTERPRETED:
            return _value_of(values, o.decl().name())
        # closed term over the variables: evaluate by substitution
        vs = vars_of(None, o)
        sub = []
        for n, t in vs.items():
            val = _value_of(values, n)
            if z3.is_bool(t):
                sub.append((t, z3.BoolVal(val)))
            elif isinstance(t, z3.BitVecRef):
                sub.append((t, z3.BitVecVal(val, t.size())))
            elif t.is_int():
                sub.append((t, z3.IntVal(val)))
            else:
                sub.append((t, z3.RealVal(repr(val))))
        r = z3.simplify(z3.substitute(o, *sub))
        if z3.is_bool(r):
            return z3.is_true(r)
        if isinstance(r, z3.BitVecNumRef):
            return r.as_signed_long() if r.size() > 8 else r.as_long()
        if isinstance(r, z3.IntNumRef):
            return r.as_long()
        raise ValueError(f"cannot concretize {o}")
    if isinstance(o, (list, tuple)):
        return type(o)(concretize(x, values) for x in o)
    return o
