"""E2 `ilv` - symbolic-schedule interleaving checker built on the E1 evaluator (DESIGN 1.2).

Each thread's operation is evaluated ONCE by E1 over the real source.  At every *yield point* - acquisition of an
outermost lock, and every access to a shared field that is not (consistently) protected by a lock the thread holds -
the shared state is replaced by fresh symbolic variables ("what the other threads left behind").  That cuts the operation
into atomic blocks B = (path condition, pre-state variables S, post-state terms Out).  A z3 query then places all blocks of
all threads on a time line: tau_b in 0..K-1 pairwise distinct, program order inside a thread, lock-acquiring blocks enabled
only when the lock is free; block b at slot t binds S_b = G_t and G_{t+1} = ite(p_b, Out_b, G_t).  The schedule (tau) is
symbolic: one solver call covers every interleaving at the granularity of shared accesses.  Lock discipline is checked on the
fly: a field declared protected that is touched without its lock loses its protection for every thread (and the engine
re-runs), so a dropped or misplaced `with lock:` turns into additional yield points instead of being trusted."""
import itertools
import os
import threading
import time
import z3
from .calls import Full
from .values import Obj, Opaque, SBytes, SDict, SList, Guarded, Undefined, TimerRec, Unsupported
from .interp import TRUE, FALSE

_LOCK_TYPES = (type(threading.Lock()), type(threading.RLock()))


class Restart(Exception):
    pass


# ---------------------------------------------------------------------------------------------- state shapes
class IntS:
    def __init__(self, lo=None, hi=None):
        self.lo, self.hi = lo, hi

    def fresh(self, E, name, init=False):
        # range assumptions only for an initial state built by a VC; a block's pre-state is whatever the other threads left
        v = z3.Int(E.fresh(name))
        if init and self.lo is not None:
            E.assumptions.append(v >= self.lo)
        if init and self.hi is not None:
            E.assumptions.append(v <= self.hi)
        return v

    def flat(self, E, v):
        return [E.tok(v)]

    def width(self):
        return 1


class BoolS:
    def fresh(self, E, name, init=False):
        return z3.Bool(E.fresh(name))

    def flat(self, E, v):
        if isinstance(v, Guarded):
            return [z3.Or(*[z3.And(c, self.flat(E, x)[0]) for c, x in v.alts if not isinstance(x, Undefined)])]
        return [E.to_bool(v)]

    def width(self):
        return 1


class TokS:
    """opaque identity (timer, request, record, position vector ...): an integer token, 0 = None"""

    def __init__(self, on_method=None, isa=None):
        self.on_method, self.isa = on_method, isa

    def fresh(self, E, name, init=False):
        t = z3.Int(E.fresh(name))
        if init:
            E.assumptions.append(t >= 0)
        return E.tokref(t, self.on_method, isa=self.isa)

    def flat(self, E, v):
        return [E.tok(v)]

    def width(self):
        return 1


class MapS:
    """dict over a fixed universe of tracked keys (python objects / terms compared with the evaluator's ==)"""

    def __init__(self, keys, vshape):
        self.keys, self.v = list(keys), vshape

    def fresh(self, E, name, init=False):
        log = []
        for i, k in enumerate(self.keys):
            log.append((z3.Bool(E.fresh(f"{name}_has{i}")), k, self.v.fresh(E, f"{name}_v{i}", init), False))
        return SDict(log)

    def flat(self, E, v):
        out = []
        if isinstance(v, Guarded):
            parts = [(c, self.flat(E, x)) for c, x in v.alts if not isinstance(x, Undefined)]
            return [_ite_chain([(c, p[i]) for c, p in parts]) for i in range(len(parts[0][1]))]
        d = E._as_sdict(E.lift_container(v) if isinstance(v, dict) else v)
        for k in self.keys:
            found, val = E.sdict_lookup(d, k)
            fb = E._lb(found)
            out.append(fb)
            if E.pybool(fb) is False:
                out += [_default(t) for t in self._zero(E)]
            else:
                fl = self.v.flat(E, val)
                out += [z3.If(fb, t, _default(t)) for t in fl]
        return out

    def _zero(self, E):
        return self.v.flat(E, self.v.fresh(E, "zero")) if not isinstance(self.v, (IntS, TokS, RefS)) else [z3.IntVal(0)] * self.v.width()

    def width(self):
        return len(self.keys) * (1 + self.v.width())


class SetS(MapS):
    def __init__(self, members):
        self.keys = list(members)

    def fresh(self, E, name, init=False):
        return SDict([(z3.Bool(E.fresh(f"{name}_has{i}")), k, True, False) for i, k in enumerate(self.keys)], is_set=True)

    def flat(self, E, v):
        if isinstance(v, Guarded):
            parts = [(c, self.flat(E, x)) for c, x in v.alts if not isinstance(x, Undefined)]
            return [_ite_chain([(c, p[i]) for c, p in parts]) for i in range(len(parts[0][1]))]
        d = E._as_sdict(v)
        return [E._lb(E.sdict_lookup(d, k)[0]) for k in self.keys]

    def width(self):
        return len(self.keys)


class ListS:
    """list of at most n tokens: length + elements (elements beyond the length are 0)"""

    def __init__(self, n, eshape=None):
        self.n, self.e = n, eshape or TokS()

    def fresh(self, E, name, init=False):
        # the list has n slots: `ln <= n` is structural; that no thread ever writes a longer list is the unwinding
        # assertion collected in E.overflow and discharged by the VC (bounds_ok)
        ln = z3.Int(E.fresh(name + "_len"))
        E.assumptions.append(z3.And(ln >= 0, ln <= self.n))
        return SList([(ln > i, self.e.fresh(E, f"{name}_e{i}", init)) for i in range(self.n)])

    def flat(self, E, v):
        w = self.e.width()
        if isinstance(v, Guarded):
            parts = [(c, self.flat(E, x)) for c, x in v.alts if not isinstance(x, Undefined) and x is not None]
            if not parts:
                return [z3.IntVal(0)] * self.width()
            return [_ite_chain([(c, p[i]) for c, p in parts]) for i in range(self.width())]
        if v is None:
            return [z3.IntVal(0)] * self.width()
        if isinstance(v, (list, tuple)):
            v = SList([(TRUE, x) for x in v])
        ln = E.count([c for c, _ in v.items])
        ln = ln if isinstance(ln, z3.ExprRef) else z3.IntVal(ln)
        out = [ln]
        for i in range(self.n):
            if len(v.items) == 0:
                out += [z3.IntVal(0)] * w
                continue
            n0 = len(E.raises)
            x = E.slist_index(v, i, TRUE) if any(E.pybool(c) is not True for c, _ in v.items) else (v.items[i][1] if i < len(v.items) else None)
            del E.raises[n0:]
            ts = self.e.flat(E, x) if x is not None and not isinstance(x, Undefined) else [z3.IntVal(0)] * w
            out += [z3.If(ln > i, t, z3.IntVal(0)) for t in ts]
        if len(v.items) > self.n:
            E.overflow.append(ln > self.n)
        return out

    def width(self):
        return 1 + self.n * self.e.width()


class RefS:
    """reference to one of a fixed universe of heap objects (subscriptions ...): flattened to its 1-based index, 0 = None"""

    def __init__(self, objs):
        self.objs = list(objs)

    def fresh(self, E, name, init=False):
        i = z3.Int(E.fresh(name))
        E.assumptions.append(z3.And(i >= 1, i <= len(self.objs)))          # structural: a slot in use refers to a known object
        return Guarded([(i == k + 1, o) for k, o in enumerate(self.objs)]) if len(self.objs) > 1 else self.objs[0]

    def index(self, E, v):
        if isinstance(v, Guarded):
            alts = [(c, self.index(E, x)) for c, x in v.alts if not isinstance(x, Undefined)]
            return _ite_chain(alts) if alts else z3.IntVal(0)
        if v is None or isinstance(v, Undefined):
            return z3.IntVal(0)
        for k, o in enumerate(self.objs):
            if o is v or (isinstance(v, Obj) and v.origin is not None and v.origin is o):
                return z3.IntVal(k + 1)
        E.overflow.append(TRUE)
        return z3.IntVal(-1)

    def flat(self, E, v):
        return [self.index(E, v)]

    def width(self):
        return 1


class RecS:
    """immutable record object that is replaced as a whole (a position vector): integer fields, identity not tracked"""

    def __init__(self, cls, fields, const=None):
        self.cls, self.fields, self.const = cls, list(fields), dict(const or {})

    def fresh(self, E, name, init=False):
        d = {f: z3.Int(E.fresh(f"{name}_{f}")) for f in self.fields}
        d.update(self.const)
        return Obj(self.cls, d)

    def flat(self, E, v):
        if isinstance(v, Guarded):
            parts = [(c, self.flat(E, x)) for c, x in v.alts if not isinstance(x, Undefined) and x is not None]
            return [_ite_chain([(c, p[i]) for c, p in parts]) for i in range(len(self.fields))]
        if isinstance(v, Obj):
            return [E.tok(v.fields[f]) for f in self.fields]
        return [E.tok(getattr(v, f)) for f in self.fields]

    def width(self):
        return len(self.fields)


def _default(t):
    return z3.BoolVal(False) if z3.is_bool(t) else z3.IntVal(0)


def _ite_chain(alts):
    r = alts[-1][1]
    for c, x in reversed(alts[:-1]):
        r = z3.If(c, x, r)
    return r


# ---------------------------------------------------------------------------------------------- the tracing evaluator
class Block:
    def __init__(self, thread, index, pc, pre, kind, lock):
        self.thread, self.index, self.pc, self.pre, self.kind, self.lock = thread, index, pc, pre, kind, lock
        self.out = None
        self.held_after = None
        self.fn = None            # function whose `with` acquired the lock that starts this block
        self.extra_locks = []     # (lock, pc): further locks acquired at the beginning of this block
        self.acc_at_start = 0


class Tracer(Full):
    """E1 with yield points.  `shared`: {(id(obj), field): (obj, field, shape, lock_field or None)}"""

    def __init__(self, *a, **k):
        super().__init__(*a, **k)
        self.shared = {}
        self.order = []
        self.undisciplined = set()
        self.held = []            # lock ids held by the running thread (stack)
        self.lock_names = {}
        self.blocks = []
        self.cur_thread = None
        self.tokens = {}
        self.tok_objs = {}
        self.overflow = []
        self.lock_edges = set()
        self.self_deadlocks = []
        self.accesses = []

    # -- tokens
    def tok(self, v):
        if isinstance(v, Guarded):
            alts = [(c, self.tok(x)) for c, x in v.alts if not isinstance(x, Undefined)]
            return _ite_chain(alts) if alts else z3.IntVal(0)
        if v is None or isinstance(v, Undefined):
            return z3.IntVal(0)
        if isinstance(v, z3.BoolRef):
            return z3.If(v, 1, 0)
        if isinstance(v, z3.ExprRef):
            return v
        if isinstance(v, bool):
            return z3.IntVal(int(v))
        if isinstance(v, int):
            return z3.IntVal(v)
        if isinstance(v, Opaque) and getattr(v, "term", None) is not None:
            return v.term
        key = id(v)
        if key not in self.tokens:
            self.tokens[key] = 1000 + len(self.tokens)
            self.tok_objs[self.tokens[key]] = v
        return z3.IntVal(self.tokens[key])

    def tokref(self, term, on_method=None, isa=None):
        o = Opaque("token")
        o.isa = isa
        o.term, o.length, o.slicer, o.src = term, None, None, None
        o.truth = term != 0
        o.on_method = on_method
        return o

    # -- declaration
    def share(self, obj, field, shape, lock=None):
        self.shared[(id(obj), field)] = (obj, field, shape, lock)
        self.order.append((id(obj), field))

    def lock_id(self, v):
        return id(v)

    # -- hooks
    def on_with_enter(self, v, fr, pc):
        if isinstance(v, _LOCK_TYPES) or (isinstance(v, Opaque) and v.tag == "lock"):
            lid = self.lock_id(v)
            for h in self.held:
                if h != lid:
                    self.lock_edges.add((h, lid))
            cur = self.blocks[-1] if self.blocks and self.blocks[-1].thread == self.cur_thread and self.blocks[-1].out is None else None
            if lid not in self.held and self.held and cur is not None and cur.kind == "acquire" and len(self.accesses) == cur.acc_at_start:
                # a further lock taken while holding one, nothing shared touched since the block began: acquisitions are right
                # movers, both belong to the same atomic block (which is enabled only when both locks are free)
                cur.extra_locks.append((lid, pc))
                tid = z3.IntVal(self.thread_ids[self.cur_thread])
                self.owner[lid] = tid if self.pybool(pc) is True else z3.If(pc, tid, self.tok(self.owner.get(lid, z3.IntVal(0))))
                # the pre-state value of that lock's owner is the block's own pre variable
            elif lid not in self.held:
                self.yield_point(pc, "acquire", lid)
                self.blocks[-1].fn = getattr(getattr(fr, "fn", None), "__name__", None)
            elif isinstance(v, _LOCK_TYPES[0]):
                # a plain (non re-entrant) Lock taken again by its holder blocks for ever
                self.self_deadlocks.append((pc, self.lock_names.get(lid, "lock"), self.cur_thread))
            self.held.append(lid)
            self._with_stack.append(True)
        else:
            self._with_stack.append(False)

    def on_with_exit(self, fr, pc):
        if self._with_stack.pop():
            self.held.pop()

    def _touch(self, obj, attr, pc, kind):
        key = (id(obj), attr)
        if key not in self.shared or self.cur_thread is None:
            return
        o, f, shape, lock = self.shared[key]
        lock_obj = o.fields.get(lock) if lock else None
        lid = self.lock_id(lock_obj) if lock_obj is not None else None
        self.accesses.append((self.cur_thread, attr, kind, tuple(self.held)))
        protected = lid is not None and lid in self.held and key not in self.undisciplined
        if lid is not None and lid not in self.held and key not in self.undisciplined:
            self.undisciplined.add(key)
            raise Restart(attr)
        if not protected:
            self.yield_point(pc, "access:" + attr, None)

    def getattr(self, obj, attr, pc):
        if isinstance(obj, Obj):
            self._touch(obj, attr, pc, "read")
        return super().getattr(obj, attr, pc)

    def setattr(self, obj, attr, v, pc):
        if isinstance(obj, Obj):
            self._touch(obj, attr, pc, "write")
            if self.cur_thread is not None and (id(obj), attr) not in self.shared and id(obj) in {k[0] for k in self.shared} \
                    and not getattr(self, "_in_init", False):
                raise Unsupported(f"write to field {attr} of a shared object that is not declared shared")
        return super().setattr(obj, attr, v, pc)

    def method(self, o, name, args, kwargs, pc):
        if isinstance(o, Opaque) and getattr(o, "on_method", None) is not None:
            return o.on_method(self, o, name, args, kwargs, pc)
        return super().method(o, name, args, kwargs, pc)

    def identical(self, a, b):
        ta, tb = getattr(a, "term", None) if isinstance(a, Opaque) else None, getattr(b, "term", None) if isinstance(b, Opaque) else None
        if ta is not None or tb is not None:
            if isinstance(a, Guarded) or isinstance(b, Guarded):
                return super().identical(a, b)
            if a is None or b is None:
                return False
            return self.tok(a) == self.tok(b)          # tokens stand for object identities
        return super().identical(a, b)

    def isinstance_(self, o, c):
        if isinstance(o, Opaque) and getattr(o, "isa", None) is not None:
            cs = c if isinstance(c, tuple) else (c,)
            return any(isinstance(k, type) and issubclass(o.isa, k) for k in cs)
        return super().isinstance_(o, c)

    def to_bool(self, v):
        if isinstance(v, Opaque) and getattr(v, "truth", None) is not None:
            return v.truth
        return super().to_bool(v)

    # -- blocks
    def snapshot(self):
        out = []
        for key in self.order:
            o, f, shape, lock = self.shared[key]
            out += shape.flat(self, o.fields[f])
        out += [self.tok(self.owner.get(l, z3.IntVal(0))) for l in self.all_locks]
        return out

    def yield_point(self, pc, kind, lock):
        if self.cur_thread is None:
            return
        if getattr(self, "deadline", None) is not None and time.time() > self.deadline:
            # a change that removes a lock can multiply the yield points (and the size of the block summaries) beyond what is
            # decidable in reasonable time: the VC is then INCONCLUSIVE, not silently slow
            raise Unsupported(f"evaluation budget exceeded after {len(self.blocks)} atomic blocks (VERIF_EVAL_BUDGET_S)")
        carried = 0
        if self.blocks and self.blocks[-1].thread == self.cur_thread and self.blocks[-1].out is None:
            last = self.blocks[-1]
            if last.kind == "start" and self.pybool(pc) is True:
                # nothing shared was touched since the thread started: the start segment belongs to this first block
                carried = last.nevents_start
                self.blocks.pop()
                last = None
            else:
                last.out = self.snapshot()
                last.nevents_end = len(self.events)
        idx = sum(1 for b in self.blocks if b.thread == self.cur_thread)
        pre = []
        for key in self.order:
            o, f, shape, lk = self.shared[key]
            fresh = shape.fresh(self, f"S_{self.cur_thread}_{idx}_{f}")
            pre += shape.flat(self, fresh)
            o.fields[f] = fresh if self.pybool(pc) is True else self.ite(pc, fresh, o.fields[f])
        own = []
        for l in self.all_locks:
            t = z3.Int(self.fresh(f"S_{self.cur_thread}_{idx}_owner"))
            own.append(t)
            self.owner[l] = t if self.pybool(pc) is True else z3.If(pc, t, self.tok(self.owner.get(l, z3.IntVal(0))))
        b = Block(self.cur_thread, idx, pc, pre + own, kind, lock)
        b.nevents_start = carried if (carried and idx == 0) else len(self.events)
        b.first = idx == 0
        b.acc_at_start = len(self.accesses)
        b.held_before = tuple(self.held)
        self.blocks.append(b)
        if kind == "acquire":
            # taking the lock is part of this block
            tid = z3.IntVal(self.thread_ids[self.cur_thread])
            self.owner[lock] = tid if self.pybool(pc) is True else z3.If(pc, tid, self.owner[lock])

    def release_owner(self, lock, pc):
        self.owner[lock] = z3.IntVal(0) if self.pybool(pc) is True else z3.If(pc, z3.IntVal(0), self.owner[lock])

    def on_with_exit(self, fr, pc):          # noqa: F811  (final definition: releases ownership of an outermost lock)
        if self._with_stack.pop():
            lid = self.held.pop()
            if lid not in self.held:
                self.release_owner(lid, pc if pc is not None else TRUE)

    def st_With(self, st, fr, pc):
        # the evaluator calls on_with_exit with the entry path condition; paths that left the body by return still release
        return super().st_With(st, fr, pc)

    def run_thread(self, name, fn, args, kwargs=None):
        self.cur_thread = name
        self.held = []
        self._with_stack = []
        self.yield_point(TRUE, "start", None)
        n0 = len(self.raises)
        ret = self.call_function(fn, args, kwargs or {})
        if self.blocks[-1].out is None:
            self.blocks[-1].out = self.snapshot()
            self.blocks[-1].nevents_end = len(self.events)
        self.cur_thread = None
        return ret, self.raises[n0:]


class Ilv:
    """builds the threads, the block summaries and the schedule query"""

    def __init__(self, build, unroll=4):
        """build(E) -> list of (thread name, fn, args) after declaring the shared state on E (E.share(...)) and returning also the
        initial-state object fields; it is re-run from scratch when lock discipline forces a restart"""
        self.build, self.unroll = build, unroll
        self.undisciplined = set()
        self.und_names = set()

    def run(self):
        deadline = time.time() + float(os.environ.get("VERIF_EVAL_BUDGET_S", "150"))
        for _ in range(12):
            E = Tracer("int", 256, "real", self.unroll)
            E.deadline = deadline
            E.undisciplined = set()
            E.und_names = self.und_names
            E.owner, E.all_locks, E.thread_ids = {}, [], {}
            spec = self.build(E)
            # undisciplined fields are carried by NAME across restarts (objects are rebuilt)
            for key in list(E.shared):
                if E.shared[key][1] in self.und_names:
                    E.undisciplined.add(key)
            E.all_locks = [E.lock_id(l) for l in spec.get("locks", [])]
            E.lock_names = {E.lock_id(l): n for l, n in zip(spec.get("locks", []), spec.get("lock_names", []))}
            E.thread_ids = {t[0]: i + 1 for i, t in enumerate(spec["threads"])}
            # initial global state
            E.cur_thread = None
            init = []
            for key in E.order:
                o, f, shape, lk = E.shared[key]
                init += shape.flat(E, o.fields[f])
            init += [z3.IntVal(0) for _ in E.all_locks]
            self.rets = {}
            try:
                for name, fn, args in spec["threads"]:
                    # every thread starts from the same heap objects; its view of the shared fields is havocked at its first yield
                    self.rets[name] = E.run_thread(name, fn, args)
            except Restart as r:
                self.und_names.add(r.args[0])
                continue
            self.E, self.spec, self.init = E, spec, init
            return self
        raise Unsupported("lock discipline did not stabilise")

    # ------------------------------------------------------------ schedule encoding
    def encode(self, extra_order=(), style="uf"):
        """schedule constraints.  style "uf": the global state is a family of functions of time G_x(t); block b reads
        G_x(tau_b) and defines G_x(tau_b + 1) - K*n constraints.  style "slots": explicit state per slot, K*K*n constraints
        (kept as the cross-check encoding of the thorough tier)."""
        E = self.E
        B = E.blocks
        K = len(B)
        n = len(self.init)
        s = []
        tau = [z3.Int(f"tau_{b.thread}_{b.index}") for b in B]
        s += [z3.And(t >= 0, t < K) for t in tau]
        s.append(z3.Distinct(*tau) if K > 1 else TRUE)
        for i, b in enumerate(B):
            for j, c in enumerate(B):
                if b.thread == c.thread and c.index == b.index + 1:
                    s.append(tau[i] < tau[j])
        nl = len(E.all_locks)
        if style == "slots":
            G = [[None] * n for _ in range(K + 1)]
            for t in range(K + 1):
                for x in range(n):
                    proto = self.init[x]
                    G[t][x] = z3.Bool(f"G_{t}_{x}") if z3.is_bool(proto) else z3.Int(f"G_{t}_{x}")
            s += [G[0][x] == self.init[x] for x in range(n)]
            for i, b in enumerate(B):
                for t in range(K):
                    bind = [b.pre[x] == G[t][x] for x in range(n)]
                    step = [G[t + 1][x] == z3.If(b.pc, b.out[x], G[t][x]) for x in range(n)]
                    guard = []
                    if b.kind == "acquire":
                        tid = E.thread_ids[b.thread]
                        for lk, lpc in [(b.lock, TRUE)] + list(b.extra_locks):
                            if lk in E.all_locks:
                                own = G[t][n - nl + E.all_locks.index(lk)]
                                guard.append(z3.Implies(z3.And(b.pc, lpc), z3.Or(own == 0, own == tid)))
                    s.append(z3.Implies(tau[i] == t, z3.And(*(bind + step + guard))))
            final = G[K]
        else:
            F = [z3.Function(f"G_{x}", z3.IntSort(), z3.BoolSort() if z3.is_bool(self.init[x]) else z3.IntSort()) for x in range(n)]
            s += [F[x](0) == self.init[x] for x in range(n)]
            for i, b in enumerate(B):
                s += [b.pre[x] == F[x](tau[i]) for x in range(n)]
                s += [F[x](tau[i] + 1) == z3.If(b.pc, b.out[x], b.pre[x]) if not z3.is_true(b.pc) else F[x](tau[i] + 1) == b.out[x] for x in range(n)]
                if b.kind == "acquire":
                    tid = E.thread_ids[b.thread]
                    for lk, lpc in [(b.lock, TRUE)] + list(b.extra_locks):
                        if lk in E.all_locks:
                            own = b.pre[n - nl + E.all_locks.index(lk)]
                            s.append(z3.Implies(z3.And(b.pc, lpc), z3.Or(own == 0, own == tid)))
            final = [F[x](K) for x in range(n)]
            G = None
        self.tau, self.G, self.K, self.final_state = tau, G, K, final
        self.cons_all, self._extra_terms = s, []
        return s

    # ------------------------------------------------------------ serial reference runs (linearizability oracle)
    def _consts(self, terms):
        seen, out, todo = set(), {}, [t for t in terms if isinstance(t, z3.ExprRef)]
        while todo:
            t = todo.pop()
            if t.get_id() in seen:
                continue
            seen.add(t.get_id())
            if z3.is_const(t) and t.decl().kind() == z3.Z3_OP_UNINTERPRETED:
                out[t.decl().name()] = t
            else:
                todo.extend(t.children())
        return out

    def serial_copy(self, units, tag, inputs=()):
        """the same operations executed unit after unit (a unit = a list of blocks run without interruption) from the same initial
        state and the same inputs, on a private copy of every other variable.  Returns (constraints, rename) - rename(term) is the
        term's value in that reference run.  Inputs = variables of the initial state terms and those listed; everything else
        (block pre-states, auxiliary variables of the evaluation) is renamed, the evaluator's assumptions are duplicated."""
        E = self.E
        keep = set(self._consts(self.init)) | {v.decl().name() for v in inputs}
        body = []
        for b in E.blocks:
            body += [b.pc] + list(b.pre) + [o for o in b.out if isinstance(o, z3.ExprRef)]
        allc = self._consts(body + list(E.assumptions) + list(self._extra_terms) + list(self.final_state))
        pairs = [(v, z3.Const(f"{n}@{tag}", v.sort())) for n, v in allc.items() if n not in keep and not n.startswith("tau_")]

        def ren0(t):
            if not isinstance(t, z3.ExprRef):
                return t
            return z3.substitute(t, *pairs) if pairs else t
        cons = [ren0(a) for a in E.assumptions]
        G = list(self.init)
        n = len(self.init)
        for unit in units:
            for b in unit:
                cons += [ren0(b.pre[x]) == G[x] for x in range(n)]
                pc = ren0(b.pc)
                G = [z3.If(pc, ren0(b.out[x]), G[x]) if not z3.is_true(pc) else ren0(b.out[x]) for x in range(n)]
        fin_pairs = [(f, g) for f, g in zip(self.final_state, G)]

        def ren(t):
            """value of a term of the concurrent run (block-local variables, final state) in this reference run"""
            if not isinstance(t, z3.ExprRef):
                return t
            return z3.substitute(z3.substitute(t, *fin_pairs), *pairs) if pairs else z3.substitute(t, *fin_pairs)
        return cons, ren

    def reference_orders(self, starts_unit=None):
        """all reference executions: every thread is a sequence of atomic units (by default one unit = the whole operation; with
        `starts_unit(block)` a multi-step pass is cut into its per-item steps), units of one thread in program order"""
        names = [t[0] for t in self.spec["threads"]]
        seqs = {}
        for nm in names:
            units = []
            for b in sorted([b for b in self.E.blocks if b.thread == nm], key=lambda b: b.index):
                if not units or (starts_unit is not None and starts_unit(b)):
                    units.append([b])
                else:
                    units[-1].append(b)
            seqs[nm] = units
        out = []

        def rec(pos, acc):
            if all(pos[nm] == len(seqs[nm]) for nm in names):
                out.append(list(acc))
                return
            for nm in names:
                if pos[nm] < len(seqs[nm]):
                    pos[nm] += 1
                    acc.append(seqs[nm][pos[nm] - 1])
                    rec(pos, acc)
                    acc.pop()
                    pos[nm] -= 1
        rec({nm: 0 for nm in names}, [])
        return out

    def not_linearizable(self, obs, inputs=(), starts_unit=None, extra_terms=()):
        """constraint: the observation vector `obs` (return values, final state, recorded events) of the concurrent run differs from
        the one of EVERY reference execution.  The reference runs are deterministic in the inputs, so 'some copy differs'
        coincides with 'the copy differs'."""
        self._extra_terms = list(obs) + list(extra_terms)
        out = []
        orders = self.reference_orders(starts_unit)
        self.n_reference_orders = len(orders)
        for k, units in enumerate(orders):
            cons, ren = self.serial_copy(units, f"s{k}", inputs)
            diff = [o != ren(o) for o in obs if isinstance(o, z3.ExprRef)]
            out.append(z3.And(*cons, z3.Or(*diff) if diff else FALSE))
        return z3.And(*out)

    def overflow_cond(self):
        return z3.Or(*self.E.overflow) if self.E.overflow else FALSE

    def time_of_event(self, ev_index):
        """tau of the block during which event #ev_index (position in E.events) was recorded"""
        for i, b in enumerate(self.E.blocks):
            if b.nevents_start <= ev_index < b.nevents_end:
                return self.tau[i]
        return None

    def thread_of_event(self, ev_index):
        for b in self.E.blocks:
            if b.nevents_start <= ev_index < b.nevents_end:
                return b.thread
        return None

    def final(self, obj, field):
        """flat terms of a shared field in the final global state"""
        E = self.E
        off = 0
        for key in E.order:
            o, f, shape, lk = E.shared[key]
            w = shape.width()
            if o is obj and f == field:
                return self.final_state[off:off + w]
            off += w
        raise KeyError(field)

    def schedule_of(self, model):
        order = sorted(range(len(self.tau)), key=lambda i: model.eval(self.tau[i], model_completion=True).as_long())
        return [(self.E.blocks[i].thread, self.E.blocks[i].index, self.E.blocks[i].kind) for i in order]

    def serial_outcomes(self, observe):
        """for every serial order of the threads: the constraints that fix tau to that order (used as the oracle of linearizability)"""
        names = [t[0] for t in self.spec["threads"]]
        outs = []
        for perm in itertools.permutations(names):
            cons = []
            pos = 0
            for nm in perm:
                for i, b in enumerate(self.E.blocks):
                    if b.thread == nm:
                        cons.append(self.tau[i] == pos + b.index)
                pos += sum(1 for b in self.E.blocks if b.thread == nm)
            outs.append((perm, cons))
        return outs

    def serial(self, perm, terms):
        """the given terms and the final state when the threads run one after the other in the order `perm` (pure substitution)"""
        G = list(self.init)
        sub = []
        for nm in perm:
            for b in sorted([b for b in self.E.blocks if b.thread == nm], key=lambda b: b.index):
                pre_now = [(v, g) for v, g in zip(b.pre, G)]
                sub += pre_now
                pc = z3.substitute(b.pc, *sub) if sub else b.pc
                outs = [z3.substitute(o, *sub) if isinstance(o, z3.ExprRef) else o for o in b.out]
                G = [z3.If(pc, o, g) if not (z3.is_true(pc)) else o for o, g in zip(outs, G)]
        res = [z3.substitute(t, *sub) if isinstance(t, z3.ExprRef) and sub else t for t in terms]
        return G, res

    def deadlocks(self):
        """descriptions of possible deadlocks: a cycle in the lock acquisition order of the operations, or a plain Lock
        re-acquired by its holder on a feasible path"""
        out = []
        if self.lock_cycle():
            out.append("cycle in the lock acquisition order: " + ", ".join(
                f"{self.E.lock_names.get(a, a)} -> {self.E.lock_names.get(b, b)}" for a, b in sorted(self.E.lock_edges, key=str)))
        for pc, name, th in self.E.self_deadlocks:
            s = z3.Solver()
            s.set("timeout", 20000)
            s.add(*self.E.assumptions)
            s.add(pc)
            msg = f"thread {th} acquires the non re-entrant {name} while holding it"
            if msg not in out and str(s.check()) != "unsat":
                out.append(msg)
        return out

    def lock_cycle(self):
        edges = self.E.lock_edges
        nodes = {a for a, b in edges} | {b for a, b in edges}
        for a in nodes:
            seen, todo = set(), [a]
            while todo:
                x = todo.pop()
                for p, q in edges:
                    if p == x:
                        if q == a:
                            return True
                        if q not in seen:
                            seen.add(q)
                            todo.append(q)
        return False
