"""Symbolic security model shared by C03 / C05 / C09 (DESIGN 1.5: ideal coder, ideal signatures).

* The OER coder is an injective uninterpreted function of the structure it encodes (assumption A1): `encode_x(d)` is a
  term E_x(leaves(d)); two applications are equal only if all leaves are equal (Ackermann-style pairwise axioms over the
  applications that occur in one VC).  `as_hashedid8` = H(E_cert(..)) with H injective (collision freedom).
* Signatures are an uninterpreted predicate V(data, signature, public key) (assumption A2 lives in the composition):
  `sign(d, k)` = Sg(d, k), `get_public_key(k)` = Pub(k), with the single axiom V(d, Sg(d,k), Pub(k)).
Every call of verify_with_pk is recorded with its arguments, so a VC can demand that SUCCESS depends on the predicate
applied to exactly the right terms.  Real ECDSA / SHA-256 / asn1tools are outside (replays use them)."""
import enum
import zlib
import z3
from .values import Obj, Opaque, SBytes, SDict, SList, Guarded, Undefined, Unsupported
from .interp import TRUE, FALSE


def code(x):
    return z3.IntVal(zlib.crc32(repr(x).encode()) + 1000)


class Crypto:
    def __init__(self, I):
        self.I = I
        self.apps = {}          # function name -> [(result term, argument terms)]
        self.verify_calls = []  # (pc, data term, signature term, key term, result Bool)
        self.sign_calls = []    # (pc, data term, key id term, signature term)
        self.V = z3.Function("Verifies", z3.IntSort(), z3.IntSort(), z3.IntSort(), z3.BoolSort())
        self.Sg = z3.Function("Sign", z3.IntSort(), z3.IntSort(), z3.IntSort())
        self.Pub = z3.Function("PublicKey", z3.IntSort(), z3.IntSort())
        self.nkeys = 0
        self.coder = None
        self.backend = Opaque("ecdsa_backend")
        I.stubs[id(self.backend)] = self._backend

    # ------------------------------------------------------------------ flattening
    def leaves(self, v):
        I = self.I
        if isinstance(v, z3.BoolRef):
            return [z3.If(v, 1, 0)]
        if isinstance(v, z3.BitVecRef):
            return [z3.BV2Int(v)]
        if isinstance(v, z3.ExprRef):
            return [I.num(v)]
        if isinstance(v, bool):
            return [z3.IntVal(int(v))]
        if isinstance(v, int):
            return [z3.IntVal(v)]
        if v is None:
            return [z3.IntVal(-7)]
        if isinstance(v, (str, enum.Enum, float)):
            return [code(v)]
        if isinstance(v, (bytes, bytearray)):
            return [z3.IntVal(int.from_bytes(b"\x01" + bytes(v), "big"))]
        if isinstance(v, SBytes):
            t = z3.Concat(z3.BitVecVal(1, 8), *v.bs) if v.bs else z3.BitVecVal(1, 8)
            return [z3.BV2Int(t)]
        if isinstance(v, Opaque):
            t = getattr(v, "term", None)
            return [t] if t is not None else [code(("opaque", id(v)))]
        if isinstance(v, Obj):
            out = [code(v.cls.__name__)]
            for k in v.fields:
                out += self.leaves(v.fields[k])
            return out
        if isinstance(v, dict):
            v = I.lift_container(v)
        if isinstance(v, (list,)):
            v = I.lift_container(v)
        if isinstance(v, SDict):
            out = [z3.IntVal(77)]
            for c, k, x in I.sdict_entries(v):
                sub = [code(k) if not isinstance(k, z3.ExprRef) else I.num(k)] + self.leaves(x)
                c = I._lb(c)
                out += [z3.If(c, t, z3.IntVal(-9)) for t in sub] if I.pybool(c) is not True else sub
            return out
        if isinstance(v, SList):
            out = [z3.IntVal(88)]
            for c, x in v.items:
                sub = self.leaves(x)
                c = I._lb(c)
                out += [z3.If(c, t, z3.IntVal(-9)) for t in sub] if I.pybool(c) is not True else sub
            return out
        if isinstance(v, Guarded):
            alts = [(c, self.leaves(x)) for c, x in v.alts if not isinstance(x, Undefined)]
            n = max(len(l) for _, l in alts)
            out = []
            for i in range(n):
                t = z3.IntVal(-9)
                for c, l in reversed(alts):
                    t = z3.If(c, l[i] if i < len(l) else z3.IntVal(-9), t)
                out.append(t)
            return out
        if isinstance(v, tuple):
            out = [z3.IntVal(len(v) + 50)]
            for x in v:
                out += self.leaves(x)
            return out
        return [code(getattr(v, "__name__", None) or repr(type(v)))]

    def _split(self, v):
        """[(condition, value)] with guarded alternatives lifted out of the top level and out of tuples"""
        if isinstance(v, Guarded):
            out = []
            for c, x in v.alts:
                if isinstance(x, Undefined):
                    continue
                out += [(z3.And(c, c2), y) for c2, y in self._split(x)]
            return out
        if isinstance(v, tuple) and any(isinstance(x, Guarded) for x in v):
            combos = [(TRUE, ())]
            for x in v:
                nxt = []
                for c, pre in combos:
                    for c2, y in (self._split(x) if isinstance(x, (Guarded, tuple)) else [(TRUE, x)]):
                        nxt.append((z3.And(c, c2), pre + (y,)))
                combos = nxt
            return combos
        return [(TRUE, v)]

    def inj(self, name, v):
        """injective uninterpreted function `name` applied to the flattened structure v (alternatives of different shape are
        separate applications, chosen by their guards)"""
        alts = self._split(v)
        if len(alts) > 1:
            res = None
            for c, x in reversed(alts):
                t = self.inj(name, x)
                res = t if res is None else z3.If(c, t, res)
            return res
        v = alts[0][1] if alts else v
        args = self.leaves(v)
        fname = f"{name}_{len(args)}"
        f = z3.Function(fname, *([z3.IntSort()] * len(args)), z3.IntSort())
        r = f(*args)
        for fn2, lst in self.apps.items():
            for r2, args2 in lst:
                if fn2 == fname:
                    self.I.assumptions.append(z3.Implies(r == r2, z3.And(*[x == y for x, y in zip(args, args2)])))
                elif fn2.split("_")[0] == name:
                    self.I.assumptions.append(r != r2)
        self.apps.setdefault(fname, []).append((r, args))
        return r

    def term_bytes(self, t, n, tag):
        """an n-octet ideal byte string standing for the integer term t: equal iff the terms are equal; [-3:] is the
        uninterpreted function Low3 of the term (so two different strings may share their last three octets)"""
        return self.blob(t, tag, length=n)

    def _slice(self, b, lo, hi):
        if lo == -3 and hi is None and b.length is not None and b.length >= 3:
            return self.blob(self.low3(b.term), "low3", length=3)
        if (lo in (None, 0)) and hi is None:
            return b
        raise Unsupported(f"slice [{lo}:{hi}] of an ideal byte string")

    # ------------------------------------------------------------------ stubs
    def install_coder(self, coder_obj, decode_signed=None, decode_cert=None):
        self.coder = coder_obj
        self.decode_signed, self.decode_cert = decode_signed, decode_cert
        self.I.stubs[id(coder_obj)] = self._coder

    def low3(self, t):
        f = z3.Function("Low3", z3.IntSort(), z3.IntSort())
        r = f(t)
        self.I.assumptions.append(z3.And(r >= 0, r < 2 ** 24))
        return r

    def blob(self, term, tag, src=None, length=None):
        b = Opaque(tag)
        b.term, b.src, b.length, b.slicer = term, src, length, self._slice
        return b

    def _len(self):
        return self.I.int_var(self.I.fresh("encoded_length"), 1, 4096)

    def _coder(self, it, name, a, k, pc):
        x = a[0] if a else None
        if name == "encode_to_be_signed_data":
            return self.blob(self.inj("EncTbsData", x), "tbsdata-bytes", x, length=self._len())
        if name == "encode_ToBeSignedCertificate":
            return self.blob(self.inj("EncTbsCert", x), "tbscert-bytes", x, length=self._len())
        if name == "encode_etsi_ts_103097_certificate":
            return self.blob(self.inj("EncCert", x), "cert-bytes", x, length=self._len())
        if name == "encode_etsi_ts_103097_data_signed":
            return self.blob(self.inj("EncSigned", x), "signed-bytes", x, length=self._len())
        if name == "decode_etsi_ts_103097_data_signed":
            if self.decode_signed is None:
                raise Unsupported("decode of signed data without a model")
            return self.decode_signed(x, pc)
        if name == "decode_etsi_ts_103097_certificate":
            if self.decode_cert is None:
                raise Unsupported("decode of certificate without a model")
            return self.decode_cert(x, pc)
        raise Unsupported(f"security coder method {name}")

    def data_term(self, d):
        if isinstance(d, Opaque) and getattr(d, "term", None) is not None:
            return d.term
        if isinstance(d, Guarded):
            alts = [(c, self.data_term(x)) for c, x in d.alts if not isinstance(x, Undefined)]
            t = alts[-1][1]
            for c, x in reversed(alts[:-1]):
                t = z3.If(c, x, t)
            return t
        return self.inj("Raw", d)

    def _backend(self, it, name, a, k, pc):
        if name == "verify_with_pk":
            data = k.get("data", a[0] if a else None)
            sig = k.get("signature", a[1] if len(a) > 1 else None)
            pk = k.get("pk", a[2] if len(a) > 2 else None)
            dt, st, kt = self.data_term(data), self.inj("SigVal", sig), self.inj("KeyVal", pk)
            r = self.V(dt, st, kt)
            self.verify_calls.append((pc, dt, st, kt, r, data, sig, pk))
            return r
        if name == "sign":
            data, key = a[0], a[1]
            dt = self.data_term(data)
            s = self.Sg(dt, it.num(key))
            sig = ("ecdsaNistP256Signature", self.blob(s, "signature"))
            # the verifier sees the signature value through SigVal(structure) and the key through KeyVal(structure)
            self.I.assumptions.append(self.V(dt, self.inj("SigVal", sig), self.inj("KeyVal", self.public_key(it.num(key)))))
            self.sign_calls.append((pc, dt, it.num(key), sig, data))
            return sig
        if name == "create_key":
            self.nkeys += 1
            return self.nkeys
        if name == "get_public_key":
            return self.public_key(it.num(a[0]))
        raise Unsupported(f"ecdsa backend method {name}")

    def public_key(self, key_id):
        kid = key_id if isinstance(key_id, z3.ExprRef) else z3.IntVal(key_id)
        return ("ecdsaNistP256", self.blob(self.Pub(kid), "public-key"))


# ---------------------------------------------------------------------------------------------- symbolic certificates
ISSUER_KINDS = ["self", "sha256AndDigest", "sha384AndDigest"]
SIG_KINDS = ["ecdsaNistP256Signature", "ecdsaBrainpoolP256r1Signature"]
KEY_KINDS = ["ecdsaNistP256", "ecdsaBrainpoolP256r1"]


def kind(name, members):
    ch = z3.Int(name)
    return Guarded([(ch == i, m) for i, m in enumerate(members)]), ch, z3.And(ch >= 0, ch < len(members))


class SymCert:
    """a certificate dictionary with symbolic content, in the shape the OER decoder yields"""

    def __init__(self, K, tag, groups=2, psids=2):
        I = K.I
        self.K, self.tag = K, tag
        self.v = v = {}
        b = lambda n: v.setdefault(n, z3.Bool(f"{tag}_{n}"))
        i = lambda n, lo, hi: v.setdefault(n, I.int_var(f"{tag}_{n}", lo, hi))
        self.issuer_kind, ik, r1 = kind(f"{tag}_issuer_kind", ISSUER_KINDS)
        self.sig_kind, sk, r2 = kind(f"{tag}_signature_kind", SIG_KINDS)
        self.key_kind, kk, r3 = kind(f"{tag}_key_kind", KEY_KINDS)
        v.update(issuer_kind=ik, signature_kind=sk, key_kind=kk)
        I.assumptions += [r1, r2, r3]
        self.issuer_digest = K.blob(i("issuer_digest", 0, 2 ** 40 - 1), "hashedid8", length=8)
        self.key = K.blob(i("key_value", 0, 2 ** 40), "public-key")
        self.sig = K.blob(i("signature_value", 0, 2 ** 40), "signature")
        issuer = Guarded([(ik == 0, ("self", "sha256")), (ik == 1, ("sha256AndDigest", self.issuer_digest)), (ik == 2, ("sha384AndDigest", self.issuer_digest))])
        vki = Guarded([(b("vki_is_verification_key"), ("verificationKey", Guarded([(kk == j, (KEY_KINDS[j], self.key)) for j in range(len(KEY_KINDS))]))),
                       (z3.Not(b("vki_is_verification_key")), ("reconstructionValue", self.key))])
        ctype = Guarded([(b("type_is_explicit"), "explicit"), (z3.Not(b("type_is_explicit")), "implicit")])
        cid = Guarded([(b("id_is_none"), ("none", None)), (z3.Not(b("id_is_none")), ("name", "ca"))])
        self.app = [(b(f"has_app_psid{j}"), i(f"app_psid{j}", 0, 1000)) for j in range(psids)]
        app = SList([(c, SDict([(TRUE, "psid", p, False)])) for c, p in self.app])
        self.groups = []
        glist = []
        for g in range(groups):
            has = b(f"has_group{g}")
            is_all = b(f"group{g}_is_all")
            ps = [(b(f"group{g}_has_psid{j}"), i(f"group{g}_psid{j}", 0, 1000)) for j in range(psids)]
            mcl = i(f"group{g}_min_chain_length", -2, 5)
            self.groups.append((has, is_all, ps, mcl))
            sp = Guarded([(is_all, ("all", None)), (z3.Not(is_all), ("explicit", SList([(c, SDict([(TRUE, "psid", p, False)])) for c, p in ps])))])
            glist.append((has, SDict([(TRUE, "subjectPermissions", sp, False), (TRUE, "minChainLength", mcl, False), (TRUE, "chainLengthRange", 0, False),
                                      (TRUE, "eeType", (b"\x00", 1), False)])))
        self.start = i("validity_start", 0, 2 ** 32 - 1)
        self.duration_h = i("validity_hours", 0, 65535)
        tbs = SDict([(TRUE, "id", cid, False), (TRUE, "cracaId", b"\x00\x00\x00", False), (TRUE, "crlSeries", 0, False),
                     (TRUE, "validityPeriod", SDict([(TRUE, "start", self.start, False), (TRUE, "duration", ("hours", self.duration_h), False)]), False),
                     (b("has_app_permissions"), "appPermissions", app, False),
                     (b("has_cert_issue_permissions"), "certIssuePermissions", SList(glist), False),
                     (b("has_encryption_key"), "encryptionKey", "enc", False),
                     (TRUE, "verifyKeyIndicator", vki, False)])
        self.tbs = tbs
        sigv = Guarded([(sk == j, (SIG_KINDS[j], self.sig)) for j in range(len(SIG_KINDS))])
        self.d = SDict([(TRUE, "version", 3, False), (TRUE, "type", ctype, False), (TRUE, "issuer", issuer, False), (TRUE, "toBeSigned", tbs, False),
                        (TRUE, "signature", sigv, False)])

    # content predicates (the oracle side)
    def app_psids(self):
        """[(condition present, psid)] of the application permissions"""
        return [(z3.And(self.v["has_app_permissions"], c), p) for c, p in self.app]

    def issue_all(self):
        return z3.And(self.v["has_cert_issue_permissions"], z3.Or(*[z3.And(h, a) for h, a, ps, m in self.groups]))

    def issue_psids(self):
        out = []
        for h, a, ps, m in self.groups:
            for c, p in ps:
                out.append((z3.And(self.v["has_cert_issue_permissions"], h, z3.Not(a), c), p))
        return out

    def needed_psids(self):
        return self.app_psids() + self.issue_psids()

    def contained_in(self, issuer):
        """permission containment: every PSID this certificate needs is among the issuer's issuing PSIDs (or the issuer may issue all)"""
        allowed = issuer.issue_psids()
        each = [z3.Implies(c, z3.Or(*[z3.And(ca, pa == p) for ca, pa in allowed])) for c, p in self.needed_psids()]
        return z3.Or(issuer.issue_all(), z3.And(*each))

    def vars(self):
        return {t.decl().name(): t for t in self.v.values()}
