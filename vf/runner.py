"""VC runner: queries, vacuity twins, known-findings matching, replay, cross-solver check, evidence."""
import fractions
import json
import multiprocessing as mp
import os
import struct
import subprocess
import sys
import tempfile
import time
import traceback
import z3
from .values import Unsupported, SBytes, UNSIGNED_VARS

ROOT = os.path.dirname(os.path.dirname(os.path.abspath(__file__)))
REGISTRY = {}     # prop -> [(name, fn, tiers, desc)]


def vc(prop, name, tiers=("quick", "thorough"), desc=""):
    def deco(fn):
        REGISTRY.setdefault(prop, []).append((name, fn, tiers, desc or (fn.__doc__ or "").strip()))
        return fn
    return deco


def load_known():
    p = os.path.join(ROOT, "known_findings.json")
    if not os.path.exists(p):
        return {"findings": [], "fixed": []}
    with open(p) as f:
        return json.load(f)


def pyval(model, t):
    """z3 model value -> plain python value"""
    if isinstance(t, SBytes):
        return bytes(pyval(model, b) if isinstance(b, z3.ExprRef) else int(b) for b in t.bs)
    if isinstance(t, (list, tuple)):
        return [pyval(model, x) for x in t]
    if isinstance(t, dict):
        return {k: pyval(model, x) for k, x in t.items()}
    if not isinstance(t, z3.ExprRef):
        return t
    v = model.eval(t, model_completion=True)
    if z3.is_bool(v):
        return z3.is_true(v)
    if isinstance(v, z3.BitVecNumRef):
        if z3.is_const(t) and t.decl().kind() == z3.Z3_OP_UNINTERPRETED and t.decl().name() in UNSIGNED_VARS:
            return v.as_long()
        return v.as_signed_long() if v.size() > 8 else v.as_long()
    if isinstance(v, z3.IntNumRef):
        return v.as_long()
    if isinstance(v, z3.RatNumRef):
        return float(fractions.Fraction(v.numerator_as_long(), v.denominator_as_long()))
    if isinstance(v, z3.FPNumRef) or isinstance(v, z3.FPRef):
        bv = model.eval(z3.fpToIEEEBV(v), model_completion=True)
        return struct.unpack(">d", bv.as_long().to_bytes(8, "big"))[0]
    if isinstance(v, z3.AlgebraicNumRef):
        return float(v.approx(20).as_decimal(20).rstrip("?"))
    return str(v)


def jsonable(v):
    if isinstance(v, (bytes, bytearray)):
        return {"hex": bytes(v).hex()}
    if isinstance(v, dict):
        return {str(k): jsonable(x) for k, x in v.items()}
    if isinstance(v, (list, tuple)):
        return [jsonable(x) for x in v]
    if isinstance(v, float) and (v != v or v in (float("inf"), float("-inf"))):
        return str(v)
    if isinstance(v, (int, float, str, bool)) or v is None:
        return v
    return repr(v)


def unjson(v):
    if isinstance(v, dict) and set(v) == {"hex"}:
        return bytes.fromhex(v["hex"])
    if isinstance(v, dict):
        return {k: unjson(x) for k, x in v.items()}
    if isinstance(v, list):
        return [unjson(x) for x in v]
    return v


class EngineError(Exception):
    pass


class Ctx:
    def __init__(self, prop, vcname, tier, seed, replay_req=None):
        self.prop, self.vcname, self.tier, self.seed = prop, vcname, tier, seed
        self.results = []
        self.functions = set()
        self.stubs_used = set()
        self.bounds = []
        self.replay_req = replay_req        # {"query":..., "values":...} when replaying
        self.known = [k for k in load_known()["findings"] if k["property"] == prop]
        self.timeout_ms = int(os.environ.get("VERIF_QUERY_TIMEOUT_MS", 120000 if tier == "quick" else 900000))
        self._t_start = time.time()
        self.solver_s = 0.0
        self.validated = 0

    # -------------------------------------------------------------- bookkeeping
    def use(self, I):
        self.functions |= set(I.calls)
        if I.unwind:
            self._unwinding(I)

    def bound(self, text):
        if text not in self.bounds:
            self.bounds.append(text)

    def stub(self, text):
        self.stubs_used.add(text)

    def _rec(self, **kw):
        kw.setdefault("vc", self.vcname)
        self.results.append(kw)
        return kw

    def _solver(self, I, pre):
        s = z3.Solver()
        s.set("timeout", self.timeout_ms)
        if I is not None:
            s.add(*I.assumptions)
        for p in pre:
            s.add(p)
        return s

    def _check(self, s):
        t0 = time.time()
        r = s.check()
        dt = time.time() - t0
        self.solver_s += dt
        return str(r), dt

    def _unwinding(self, I):
        conds = list(I.unwind)
        I.unwind = []
        s = self._solver(I, [])
        s.add(z3.Or(*conds))
        r, dt = self._check(s)
        if r == "unsat":
            self._rec(kind="unwinding", query="unwinding-assertion", status="discharged", seconds=dt)
        else:
            self._rec(kind="unwinding", query="unwinding-assertion", status="inconclusive", seconds=dt,
                      reason="loop bound too small: the unrolled loop can iterate further" if r == "sat" else "solver " + r)

    # -------------------------------------------------------------- public API
    def prove(self, query, I, bad, pre=(), vars=None, replay=None, desc=""):
        """The property instance fails iff (assumptions, pre, bad) is satisfiable."""
        if I is not None:
            self.use(I)
        vars = vars or {}
        if self.replay_req is not None:
            if self.replay_req["query"] == query and replay is not None:
                ok, detail = replay(unjson(self.replay_req["values"]))
                self._rec(kind="replay", query=query, status="violation" if ok else "not-reproduced", detail=detail)
            return None
        s = self._solver(I, pre)
        s.add(bad)
        total = 0.0
        known_hits = []
        for _round in range(12):
            r, dt = self._check(s)
            total += dt
            if r == "unsat":
                st = "discharged"
                if known_hits:
                    st = "known"
                self._rec(kind="prove", query=query, status=st, seconds=total, desc=desc,
                          known=[k["id"] for k in known_hits], smt2=self._export(s))
                return True
            if r != "sat":
                self._rec(kind="prove", query=query, status="inconclusive", seconds=total, desc=desc,
                          reason="solver answered " + r + (": " + s.reason_unknown() if r == "unknown" else ""))
                return None
            m = s.model()
            values = {k: pyval(m, t) for k, t in vars.items()}
            hit = None
            for k in self.known:
                if k.get("query") not in (query, f"{self.vcname}/{query}"):
                    continue
                expr = self._known_expr(k, vars)
                if expr is None:
                    continue
                if z3.is_true(m.eval(expr, model_completion=True)):
                    hit = (k, expr)
                    break
            if hit is not None:
                k, expr = hit
                rep = None
                if replay is not None:
                    try:
                        rep = replay(values)
                    except Exception:
                        rep = (False, "replay crashed: " + traceback.format_exc(limit=3))
                if rep is not None and not rep[0]:
                    self._rec(kind="prove", query=query, status="engine_error", seconds=total, desc=desc,
                              reason=f"model inside known finding {k['id']} did not reproduce: {rep[1]}",
                              values=jsonable(values))
                    return None
                if k not in known_hits:
                    known_hits.append(k)
                    print(f"KNOWN-FINDING: property={self.prop} {k['id']}: {k['what']}", flush=True)
                s.add(z3.Not(expr))
                continue
            # a violation that is not listed: replay on the real code
            if replay is None:
                self._rec(kind="prove", query=query, status="engine_error", seconds=total, desc=desc,
                          reason="sat but no replay function", values=jsonable(values))
                return False
            try:
                ok, detail = replay(values)
            except Exception:
                ok, detail = False, "replay crashed: " + traceback.format_exc(limit=4)
            if ok:
                path = self._write_replay(query, values, detail)
                self._rec(kind="prove", query=query, status="violation", seconds=total, desc=desc,
                          values=jsonable(values), detail=detail, replay=path)
            else:
                self._rec(kind="prove", query=query, status="engine_error", seconds=total, desc=desc,
                          reason="solver model did not reproduce on the real code: " + str(detail),
                          values=jsonable(values))
            return False
        self._rec(kind="prove", query=query, status="inconclusive", seconds=total, reason="too many known-finding rounds")
        return None

    def witness(self, query, I, cond, pre=(), vars=None, validate=None, desc="", good=None):
        """Vacuity / reachability twin: must be satisfiable.  validate(values)->bool compares the real code
        with the encoding on the witness (translator validation).  `good` (optional): the property as the encoding
        sees it; the witness is then chosen among the behaviours that satisfy it, so that a validate() which checks the
        property on the real code is a comparison of encoding and implementation (when no such behaviour exists the
        plain reachability witness is used and validation is skipped)."""
        if self.replay_req is not None:
            return None
        if I is not None:
            self.use(I)
        s = self._solver(I, pre)
        s.add(cond)
        r, dt = None, 0.0
        if good is not None:
            s.push()
            s.add(good)
            r, dt = self._check(s)
            if r != "sat":
                s.pop()
                validate = None
                r = None
        if r is None:
            r, dt = self._check(s)
        if r == "sat":
            values = {k: pyval(s.model(), t) for k, t in (vars or {}).items()}
            okv = True
            if validate is not None:
                try:
                    okv = bool(validate(values))
                except Exception:
                    okv = False
                    values["_validate_error"] = traceback.format_exc(limit=3)
                self.validated += 1
            self._rec(kind="witness", query=query, status="discharged" if okv else "engine_error", seconds=dt,
                      values=jsonable(values), desc=desc,
                      reason=None if okv else "translator validation failed on the witness")
            return values
        self._rec(kind="witness", query=query, status="engine_error" if r == "unsat" else "inconclusive", seconds=dt,
                  desc=desc, reason="vacuity twin is " + r)
        return None

    def validate(self, query, pairs):
        """translator validation on concrete points: pairs of (value from the real code, value from the encoding)"""
        if self.replay_req is not None:
            return
        bad = [(i, a, b) for i, (a, b) in enumerate(pairs) if a != b]
        self.validated += len(pairs)
        self._rec(kind="validate", query=query, status="discharged" if not bad else "engine_error", points=len(pairs),
                  reason=None if not bad else f"encoding disagrees with the real code at {bad[:3]!r}")

    def inconclusive(self, query, reason):
        self._rec(kind="prove", query=query, status="inconclusive", reason=reason)

    # -------------------------------------------------------------- helpers
    def _known_expr(self, k, vars):
        ns = {"And": z3.And, "Or": z3.Or, "Not": z3.Not, "Implies": z3.Implies, "BoolVal": z3.BoolVal}
        for name, t in vars.items():
            if isinstance(t, z3.ExprRef):
                ns[name] = t
        try:
            e = eval(k["when"], {"__builtins__": {}}, ns)
        except Exception:
            return None
        if isinstance(e, bool):
            e = z3.BoolVal(e)
        return e

    def _write_replay(self, query, values, detail):
        d = os.path.join(ROOT, "replays", self.prop)
        os.makedirs(d, exist_ok=True)
        path = os.path.join(d, f"{self.vcname}.{query}.json".replace("/", "_"))
        with open(path, "w") as f:
            json.dump({"property": self.prop, "vc": self.vcname, "query": query, "values": jsonable(values),
                       "detail": detail}, f, indent=1)
        return path

    def _export(self, s):
        if self.tier != "thorough" or os.environ.get("VERIF_NO_XCHECK"):
            return None
        try:
            return "(set-logic ALL)\n" + s.to_smt2()
        except Exception:
            return None


def cross_check(smt2, expect, timeout_s=120):
    """re-decide an exported query with /usr/bin/cvc5 and /usr/bin/z3 (4.8.12)"""
    out = {}
    with tempfile.NamedTemporaryFile("w", suffix=".smt2", delete=False) as f:
        f.write(smt2)
        path = f.name
    try:
        for name, cmd in (("cvc5-1.0.3", ["/usr/bin/cvc5", f"--tlimit={timeout_s * 1000}", path]),
                          ("z3-4.8.12", ["/usr/bin/z3", f"-T:{timeout_s}", path])):
            t0 = time.time()
            try:
                p = subprocess.run(cmd, capture_output=True, text=True, timeout=timeout_s + 10)
                txt = (p.stdout + p.stderr).strip()
            except subprocess.TimeoutExpired:
                txt = "timeout"
            first = txt.splitlines()[0].strip() if txt else ""
            if "(error" in txt or "error" in first.lower():
                res = "error"
            elif first in ("sat", "unsat", "unknown", "timeout"):
                res = first
            else:
                res = "error"
            out[name] = {"result": res, "seconds": round(time.time() - t0, 2)}
    finally:
        os.unlink(path)
    return out


def _run_one(args):
    prop, name, tier, seed, replay_req = args
    import importlib
    importlib.import_module(f"vf.props.{prop.lower()}")
    fn = [f for n, f, t, d in REGISTRY[prop] if n == name][0]
    ctx = Ctx(prop, name, tier, seed, replay_req)
    t0 = time.time()
    try:
        fn(ctx)
    except Unsupported as e:
        ctx._rec(kind="prove", query="*", status="inconclusive", reason="unsupported construct: " + str(e))
    except Exception:
        ctx._rec(kind="prove", query="*", status="engine_error", reason=traceback.format_exc(limit=8))
    # cross-solver re-check of the discharged queries (thorough tier)
    for r in ctx.results:
        smt2 = r.pop("smt2", None)
        if smt2 and r["status"] in ("discharged", "known"):
            xc = cross_check(smt2, "unsat", int(os.environ.get("VERIF_XCHECK_TIMEOUT_S", "120")))
            r["cross_check"] = xc
            if any(v["result"] == "sat" for v in xc.values()):
                r["status"] = "inconclusive"
                r["reason"] = "solver disagreement: " + json.dumps(xc)
    return {"vc": name, "results": ctx.results, "functions": sorted(ctx.functions), "bounds": ctx.bounds,
            "stubs": sorted(ctx.stubs_used), "solver_s": ctx.solver_s, "wall_s": time.time() - t0,
            "validated": ctx.validated}


def run_property(prop, tier, seed=0, jobs=None, only=None, replay_file=None):
    import importlib
    t0 = time.time()
    importlib.import_module(f"vf.props.{prop.lower()}")
    vcs = [(n, f, t, d) for n, f, t, d in REGISTRY.get(prop, []) if tier in t and (only is None or n in only)]
    replay_req = None
    if replay_file:
        with open(replay_file) as f:
            rf = json.load(f)
        replay_req = {"query": rf["query"], "values": rf["values"]}
        vcs = [v for v in vcs if v[0] == rf["vc"]]
    jobs = jobs or min(16, max(1, len(vcs)))
    work = [(prop, n, tier, seed, replay_req) for n, f, t, d in vcs]
    outs = []
    if jobs == 1 or len(work) <= 1:
        outs = [_run_one(w) for w in work]
    else:
        ctxm = mp.get_context("fork")
        with ctxm.Pool(jobs, maxtasksperchild=1) as pool:
            outs = list(pool.imap_unordered(_run_one, work, chunksize=1))
    outs.sort(key=lambda o: o["vc"])
    return summarise(prop, tier, seed, outs, time.time() - t0, replay_req is not None)


def summarise(prop, tier, seed, outs, wall, replaying):
    allres = [r for o in outs for r in o["results"]]
    viol = [r for r in allres if r["status"] == "violation"]
    inconc = [r for r in allres if r["status"] == "inconclusive"]
    eng = [r for r in allres if r["status"] == "engine_error"]
    proves = [r for r in allres if r["kind"] in ("prove", "unwinding")]
    discharged = [r for r in proves if r["status"] in ("discharged", "known")]
    witnesses = [r for r in allres if r["kind"] == "witness" and r["status"] == "discharged"]
    for r in viol:
        print(f"VIOLATION property={prop} replay={r.get('replay')}  vc={r['vc']} query={r['query']} :: {r.get('detail')}")
    for r in inconc:
        print(f"INCONCLUSIVE property={prop} vc={r['vc']} query={r['query']} reason={r.get('reason')}")
    for r in eng:
        print(f"ENGINE-ERROR property={prop} vc={r['vc']} query={r['query']} reason={r.get('reason')}")
    if replaying:
        for r in allres:
            if r["kind"] == "replay":
                print(f"REPLAY property={prop} vc={r['vc']} query={r['query']} -> {r['status']}: {r.get('detail')}")
        return 1 if viol else 0
    nontrivial_vcs = sorted({o["vc"] for o in outs
                             if any(r["kind"] == "witness" and r["status"] == "discharged" for r in o["results"])
                             and any(r["kind"] == "prove" and r["status"] in ("discharged", "known") for r in o["results"])})
    samples = []
    for o in outs:
        for r in o["results"]:
            if r["kind"] in ("prove", "witness") and len(samples) < 40:
                samples.append({k: r[k] for k in ("vc", "kind", "query", "status", "desc", "values", "seconds", "known",
                                                   "cross_check", "reason") if r.get(k) not in (None, [], "")})
    functions = sorted({f for o in outs for f in o["functions"]})
    ev = {
        "property_id": prop, "tier": tier, "seed": seed, "level": "model_checking",
        "coverage": {
            "evaluations": len(allres),
            "distinct_nontrivial": len(nontrivial_vcs),
            "rule": "one evaluation = one solver query (prove / vacuity-witness / unwinding) or one translator-validation "
                    "batch; a VC group counts as distinct and non-trivial when at least one of its negated-property "
                    "queries was decided unsat (or sat only inside a listed known finding) AND its reachability twin "
                    "was sat, i.e. the assertion was reached under a satisfiable precondition",
            "samples": samples,
            "obligations": len(proves),
            "discharged": len(discharged),
            "inconclusive": len(inconc),
            "engine_errors": len(eng),
            "vacuity_witnesses_sat": len(witnesses),
            "traces_validated_against_impl": sum(o["validated"] for o in outs),
            "functions_encoded": functions,
            "bounds": sorted({b for o in outs for b in o["bounds"]}),
            "stubs": sorted({b for o in outs for b in o["stubs"]}),
            "solver_seconds_z3": round(sum(o["solver_s"] for o in outs), 3),
            "vc_groups": [{"vc": o["vc"], "wall_s": round(o["wall_s"], 2), "queries": len(o["results"])} for o in outs],
            "known_findings_hit": sorted({k for r in allres for k in r.get("known", [])}),
            "explanation": "bounded symbolic model checking: the repository functions listed under functions_encoded were "
                           "evaluated symbolically from /repo's current source into z3 formulas; every obligation is a "
                           "satisfiability query over all inputs inside the stated bounds",
            "exhaustive": False,
        },
        "assumptions": sorted({b for o in outs for b in o["stubs"]}),
        "wall_s": round(wall, 2),
        "violations": len(viol),
    }
    os.makedirs(os.path.join(ROOT, "evidence"), exist_ok=True)
    with open(os.path.join(ROOT, "evidence", f"{prop}.json"), "w") as f:
        json.dump(ev, f, indent=1)
    print(f"{prop} [{tier}] obligations={len(proves)} discharged={len(discharged)} inconclusive={len(inconc)} "
          f"engine_errors={len(eng)} violations={len(viol)} witnesses={len(witnesses)} vc_groups={len(outs)} "
          f"functions={len(functions)} solver={ev['coverage']['solver_seconds_z3']}s wall={wall:.1f}s")
    if viol:
        return 1
    if eng:
        return 3
    return 0
