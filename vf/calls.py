"""Call dispatch, builtins, container methods and the environment-stub catalogue (DESIGN 1.5)."""
import ast
import builtins
import collections
import copy as _copy
import dataclasses
import enum
import math
import random
import threading
import time
import types
import typing
import z3
from .values import (Unsupported, Obj, EnumSym, SBytes, Guarded, Opaque, SList, SDict, UNDEF, Undefined,
                     BoundSym, TimerRec)
from .interp import Closure, Frame, TRUE, FALSE, UndefinedUse
from .exprs import Engine, _mro_dict, _is_generated, _LOCK_TYPES


class Full(Engine):

    def ev_Call(self, e, fr, pc):
        n0 = len(self.raises)
        fn = self.ev(e.func, fr, pc)
        args = []
        for a in e.args:
            if isinstance(a, ast.Starred):
                args.extend(x for _, x in self.iterate(self.ev(a.value, fr, pc), pc))
            else:
                args.append(self.ev(a, fr, pc))
        kwargs = {}
        for k in e.keywords:
            if k.arg is None:
                d = self.ev(k.value, fr, pc)
                for c, kk, vv in self.sdict_entries(self._as_sdict(d), pc):
                    kwargs[kk] = vv
            else:
                kwargs[k.arg] = self.ev(k.value, fr, pc)
        new = self.raises[n0:]
        if new:
            pc = z3.simplify(z3.And(pc, z3.Not(z3.Or(*[c for c, _ in new]))))
        if fn is super and not args:
            return self._zero_arg_super(fr)
        # exception constructors: only the class matters
        if isinstance(fn, type) and issubclass(fn, BaseException):
            o = Opaque("exc")
            o.exc_classes = [(TRUE, fn)]
            return o
        return self.call(fn, args, kwargs, pc)

    def _zero_arg_super(self, fr):
        from .values import SuperProxy
        fn, obj = getattr(fr, "fn", None), getattr(fr, "first", None)
        if fn is None or obj is None:
            raise Unsupported("super() outside a method")
        qn = fn.__qualname__.split(".")
        owner = fn.__globals__.get(qn[0]) if len(qn) >= 2 else None
        for part in qn[1:-1]:
            owner = getattr(owner, part, None)
        if not isinstance(owner, type):
            raise Unsupported(f"super(): cannot resolve the class of {fn.__qualname__}")
        return SuperProxy(owner, obj)

    # ------------------------------------------------------------------ dispatch
    def call(self, fn, args, kwargs, pc):
        if isinstance(fn, Guarded):
            alts = [(c, v) for c, v in fn.alts if not isinstance(v, Undefined)]
            res = None
            outs = []
            for c, f in alts:
                if f is None:
                    self.raises.append((z3.And(pc, c), TypeError))
                    continue
                outs.append((c, self.call(f, args, kwargs, z3.And(pc, c))))
            if not outs:
                return UNDEF
            res = outs[-1][1]
            for c, v in reversed(outs[:-1]):
                res = self.ite(c, v, res)
            return res
        if isinstance(fn, Undefined):
            raise UndefinedUse("call of an undefined value")
        if fn is None:
            self.raises.append((pc, TypeError))
            return UNDEF
        stub = self._find_stub(fn)
        if stub is not None:
            return stub(self, list(args), dict(kwargs), pc)
        if isinstance(fn, BoundSym):
            return self.call_bound(fn, args, kwargs, pc)
        if isinstance(fn, Closure):
            return self.call_closure(fn, args, kwargs, pc)
        if isinstance(fn, types.MethodType):
            slf = fn.__self__
            if isinstance(slf, type):
                return self.call(fn.__func__, [slf] + list(args), kwargs, pc)
            return self.call(BoundSym(fn.__func__, slf), args, kwargs, pc)
        if isinstance(fn, type):
            return self.instantiate(fn, args, kwargs, pc)
        if isinstance(fn, types.FunctionType):
            mod = fn.__module__ or ""
            if mod.startswith(self.repo_prefix) or getattr(fn, "_verif_inline", False):
                return self.call_function(fn, args, kwargs, pc)
            if fn.__name__ == "replace" and mod == "dataclasses":
                return self.dc_replace(args, kwargs, pc)
        if isinstance(fn, types.BuiltinMethodType) and fn.__name__ == "index" and isinstance(fn.__self__, (list, tuple)) \
                and len(args) == 1 and self.is_sym(args[0]):
            seq = fn.__self__
            hits = [self._lb(self.equal(x, args[0], pc)) for x in seq]
            anyhit = z3.simplify(z3.Or(*hits)) if hits else FALSE
            if self.pybool(anyhit) is not True:
                self.raises.append((z3.And(pc, z3.Not(anyhit)), ValueError))
            res = len(seq) - 1
            for i in range(len(seq) - 2, -1, -1):
                res = self.ite(hits[i], i, res)
            return res
        if isinstance(fn, types.BuiltinMethodType) and fn.__name__ == "to_bytes" and isinstance(getattr(fn, "__self__", None), int) \
                and any(self.is_sym(a) for a in list(args) + list(kwargs.values())):
            return self.to_bytes(self.const(int(fn.__self__)), args, kwargs, pc)
        b = self.builtin(fn, args, kwargs, pc)
        if b is not NotImplemented:
            return b
        if any(self.is_sym(a) or isinstance(a, Opaque) for a in list(args) + list(kwargs.values())):
            raise Unsupported(f"call of {getattr(fn, '__qualname__', fn)} with symbolic arguments")
        try:
            return fn(*args, **kwargs)
        except Exception as ex:      # concrete call raised: that is the outcome
            self.raises.append((pc, type(ex)))
            return UNDEF

    def _find_stub(self, fn):
        try:
            s = self.stubs.get(fn)
        except TypeError:
            s = None
        if s is not None:
            return s
        if isinstance(fn, BoundSym):
            f = fn.fn
            if not isinstance(f, str):
                try:
                    s = self.stubs.get(f)
                except TypeError:
                    s = None
                if s is not None:
                    return lambda it, a, k, pc: s(it, [fn.obj] + a, k, pc)
            name = f if isinstance(f, str) else getattr(f, "__name__", None)
            o = fn.obj
            key = id(o.origin) if isinstance(o, Obj) and o.origin is not None else id(o)
            s = self.stubs.get(key)
            if s is not None:
                return lambda it, a, k, pc: s(it, name, a, k, pc)
        if isinstance(fn, types.MethodType):
            s = self.stubs.get(fn.__func__)
            if s is not None:
                return lambda it, a, k, pc: s(it, [fn.__self__] + a, k, pc)
            s = self.stubs.get(id(fn.__self__))
            if s is not None:
                return lambda it, a, k, pc: s(it, fn.__name__, a, k, pc)
        if id(fn) in self.stubs and not isinstance(fn, (int, str)):
            s = self.stubs[id(fn)]
            return lambda it, a, k, pc: s(it, "__call__", a, k, pc)
        return None

    def call_bound(self, b, args, kwargs, pc):
        f, o = b.fn, b.obj
        if isinstance(f, str):
            return self.method(o, f, args, kwargs, pc)
        if isinstance(o, Guarded):
            return self.dist_pc(o, pc, lambda v, p: self.call_bound(BoundSym(f, v), args, kwargs, p))
        return self.call_function(f, [o] + list(args), kwargs, pc)

    # ------------------------------------------------------------------ instantiation
    def instantiate(self, cls, args, kwargs, pc):
        if issubclass(cls, enum.Enum):
            (v,) = args
            if isinstance(v, Guarded):
                return self.dist_pc(v, pc, lambda x, p: self.instantiate(cls, [x], kwargs, p))
            if isinstance(v, EnumSym):
                return v
            if not self.is_sym(v):
                try:
                    return cls(v)
                except ValueError:
                    self.raises.append((pc, ValueError))
                    return UNDEF
            members = [m for m in cls if isinstance(m.value, int) and not isinstance(m.value, bool)]
            if len(members) != len(list(cls)):
                raise Unsupported("enum with non-int values from symbolic value")
            x = self.num(v)
            ok = z3.Or(*[x == self.const(m.value) for m in members])
            if self.pybool(z3.simplify(ok)) is not True:
                self.raises.append((z3.And(pc, z3.Not(ok)), ValueError))
            return EnumSym(cls, x)
        if cls in (int, float, bool, str, bytes, len, list, tuple, dict, set, frozenset, bytearray, type, object,
                   range, enumerate, zip, collections.deque, reversed, map, filter, isinstance, super):
            r = self.builtin(cls, args, kwargs, pc)
            if r is not NotImplemented:
                return r
        if cls in _LOCK_TYPES or cls in (threading.Lock, threading.RLock, threading.Event):
            return Opaque("lock")
        if cls is collections.OrderedDict and not args and not kwargs:
            return SDict()
        if cls is threading.Timer:
            a = list(args)
            delay = a[0] if a else kwargs.get("interval")
            fnc = a[1] if len(a) > 1 else kwargs.get("function")
            targs = kwargs.get("args", a[2] if len(a) > 2 else ())
            t = TimerRec(delay, fnc, targs, pc)
            self.events.append((pc, "timer.new", t))
            return t
        if cls is threading.Thread:
            t = Opaque("thread")
            self.events.append((pc, "thread.new", (args, kwargs)))
            return t
        mod = getattr(cls, "__module__", "")
        if not (mod.startswith(self.repo_prefix) or getattr(cls, "_verif_lift", False)):
            if any(self.is_sym(a) for a in list(args) + list(kwargs.values())):
                raise Unsupported(f"instantiate {cls.__name__} with symbolic arguments")
            return cls(*args, **kwargs)
        obj = Obj(cls, {})
        d = _mro_dict(cls)
        if dataclasses.is_dataclass(cls):
            self.dc_init(obj, cls, args, kwargs, pc)
        else:
            init = d.get("__init__")
            if init is not None and init is not object.__init__:
                prev = getattr(self, "_in_init", False)
                self._in_init = True
                try:
                    self.call_function(init, [obj] + list(args), kwargs, pc)
                finally:
                    self._in_init = prev
        return obj

    def dc_init(self, obj, cls, args, kwargs, pc):
        fl = [f for f in dataclasses.fields(cls) if f.init]
        if len(args) > len(fl):
            raise Unsupported("too many positional args for dataclass")
        for f, a in zip(fl, args):
            obj.fields[f.name] = a
        for k, v in kwargs.items():
            obj.fields[k] = v
        for f in dataclasses.fields(cls):
            if f.name not in obj.fields:
                if f.default is not dataclasses.MISSING:
                    obj.fields[f.name] = f.default
                elif f.default_factory is not dataclasses.MISSING:
                    obj.fields[f.name] = f.default_factory()
                else:
                    self.raises.append((pc, TypeError))
                    obj.fields[f.name] = UNDEF
        post = _mro_dict(cls).get("__post_init__")
        if post is not None:
            prev = getattr(self, "_in_init", False)
            self._in_init = True
            try:
                self.call_function(post, [obj], {}, pc)
            finally:
                self._in_init = prev

    def dc_replace(self, args, kwargs, pc):
        o = args[0]
        if isinstance(o, Guarded):
            return self.dist(o, lambda v: self.dc_replace([v], kwargs, pc))
        if not isinstance(o, Obj):
            o = self.lift_value(o) if self._is_value_instance(o) else self.lift(o)
        new = Obj(o.cls, dict(o.fields))
        new.fields.update(kwargs)
        return new

    # ------------------------------------------------------------------ builtins
    def builtin(self, fn, args, kwargs, pc):
        anysym = any(self.is_sym(a) or isinstance(a, Opaque) for a in list(args) + list(kwargs.values()))
        for i, a in enumerate(args):
            if isinstance(a, Guarded) and fn not in (isinstance, print):
                return self.dist_pc(a, pc, lambda v, p: self.call(fn, list(args[:i]) + [v] + list(args[i + 1:]), kwargs, p))
        if fn is print:
            return None
        if fn in (str, repr, format):
            if not anysym:
                return fn(*args, **kwargs)
            return Opaque("str")
        if fn is isinstance:
            return self.isinstance_(args[0], args[1])
        if fn is issubclass and not anysym:
            return issubclass(*args)
        if fn is type and len(args) == 1:
            v = args[0]
            if isinstance(v, Obj):
                return v.cls
            if isinstance(v, EnumSym):
                return v.cls
            if isinstance(v, z3.BoolRef):
                return bool
            if isinstance(v, z3.ExprRef):
                return float if self.is_float_term(v) else int
            if isinstance(v, SBytes):
                return bytes
            if isinstance(v, SList):
                return list
            if isinstance(v, SDict):
                return set if v.is_set else dict
            return type(v)
        if fn is len:
            return self.len_(args[0], pc)
        if fn is int:
            if not args:
                return 0
            v = args[0]
            if isinstance(v, z3.BoolRef):
                return self.num(v)
            if self.is_float_term(v):
                return self.float_to_int(v)
            if isinstance(v, z3.ExprRef) or not anysym:
                return v if anysym else int(*args, **kwargs)
            raise Unsupported(f"int({v!r})")
        if fn is float:
            if not args:
                return 0.0
            v = args[0]
            if not anysym:
                try:
                    return float(v)
                except (TypeError, ValueError) as ex:
                    self.raises.append((pc, type(ex)))
                    return UNDEF
            if isinstance(v, z3.ExprRef):
                return self.to_float(v)
            raise Unsupported(f"float({v!r})")
        if fn is bool:
            return self._boolify(self.to_bool(args[0])) if args else False
        if fn is abs and anysym:
            v = args[0]
            if isinstance(v, z3.FPRef):
                return z3.fpAbs(v)
            v = self.num(v)
            r = z3.If(v < 0, -v, v)
            if self.mode == "bv" and isinstance(v, z3.BitVecRef):
                self.mag[r.get_id()] = self.bits(v)
            return r
        if fn in (min, max):
            vals = list(args)
            if len(vals) == 1 and "key" not in kwargs:
                items = self.iterate(vals[0], pc)
                if not all(self.pybool(c) is True for c, _ in items):
                    # membership is path dependent: fold with the presence conditions
                    have, res = FALSE, kwargs.get("default", UNDEF)
                    for c, x in items:
                        c = self._lb(c)
                        better = self.to_bool(self.cmp_num(ast.Lt if fn is min else ast.Gt, x, res)) if self.pybool(have) is not False else TRUE
                        take = z3.simplify(z3.And(c, z3.Or(z3.Not(have), better)))
                        res = self.ite(take, x, res)
                        have = z3.simplify(z3.Or(have, c))
                    if "default" not in kwargs and self.pybool(have) is not True:
                        self.raises.append((z3.And(pc, z3.Not(have)), ValueError))
                    return res
                vals = [x for _, x in items]
                if not vals:
                    if "default" in kwargs:
                        return kwargs["default"]
                    self.raises.append((pc, ValueError))
                    return UNDEF
                kwargs = {k: v for k, v in kwargs.items() if k != "default"}
            if not any(self.is_sym(v) for v in vals) and "key" not in kwargs:
                return fn(*vals)
            if "key" in kwargs or "default" in kwargs:
                raise Unsupported("min/max with key")
            r = vals[0]
            for v in vals[1:]:
                c = self.to_bool(self.cmp_num(ast.Lt if fn is min else ast.Gt, v, r))
                r = self.ite(c, v, r)
            return r
        if fn is round and anysym:
            v = args[0]
            if len(args) > 1:
                nd = args[1]
                if self.is_sym(nd) or isinstance(v, z3.FPRef) or not self.is_float_term(v):
                    raise Unsupported("round with ndigits on symbolic")
                # over the reals: round-half-even of x*10^n, divided by 10^n
                sc = z3.RealVal(10 ** nd) if nd >= 0 else z3.RealVal(1) / (10 ** (-nd))
                y = v * sc
                fl = z3.ToInt(y)
                fr_ = y - z3.ToReal(fl)
                half = z3.RealVal("1/2")
                i = z3.If(fr_ < half, fl, z3.If(fr_ > half, fl + 1, z3.If(fl % 2 == 0, fl, fl + 1)))
                return z3.ToReal(i) / sc
            if isinstance(v, z3.FPRef):
                if self.mode == "bv":
                    t = z3.fpToSBV(z3.RNE(), v, z3.BitVecSort(self.W))
                    b = self.rbound.get(v.get_id())
                    if b is not None and b < 2.0 ** (self.W - 3):
                        self.mag[t.get_id()] = int(b + 1).bit_length()
                    return t
                i = z3.ToInt(z3.fpToReal(z3.fpRoundToIntegral(z3.RNE(), v)))
                return i
            if self.is_float_term(v):
                # round half to even
                fl = z3.ToInt(v)
                fr_ = v - z3.ToReal(fl)
                half = z3.RealVal("1/2")
                i = z3.If(fr_ < half, fl, z3.If(fr_ > half, fl + 1, z3.If(fl % 2 == 0, fl, fl + 1)))
                return z3.Int2BV(i, self.W) if self.mode == "bv" else i
            return v
        if fn is getattr:
            o, name = args[0], args[1]
            if isinstance(name, str):
                if len(args) == 3:
                    if self.has_attr(o, name):
                        return self.getattr(o, name, pc)
                    return args[2]
                return self.getattr(o, name, pc)
        if fn is hasattr and isinstance(args[1], str):
            return self.has_attr(args[0], args[1])
        if fn is setattr:
            self.setattr(args[0], args[1], args[2], pc)
            return None
        if fn is range and not anysym:
            return range(*args)
        if fn is range and len(args) == 1 and isinstance(args[0], z3.ExprRef):
            # range(n) with symbolic n: bounded unrolling with an unwinding assertion (n must not exceed the unroll bound)
            n = self.num(args[0])
            k = self.unroll
            self.unwind.append(z3.And(pc, n > self.const(k)))
            return SList([(n > self.const(i), i) for i in range(k)])
        if fn in (list, tuple, sorted, reversed, enumerate, zip, sum, any, all, set, frozenset, dict, collections.deque,
                  bytes, bytearray, iter, next, id, hash, callable, divmod, map, filter):
            return self.builtin_containers(fn, args, kwargs, pc, anysym)
        if getattr(fn, "__self__", None) is int and getattr(fn, "__name__", "") == "from_bytes":
            return self.from_bytes(args, kwargs, pc)
        m = getattr(fn, "__module__", None)
        if m == "math" or fn in (math.sqrt, math.sin, math.cos):
            return self.math_fn(fn, args, pc, anysym)
        if getattr(fn, "__self__", None) is dict and getattr(fn, "__name__", "") == "fromkeys":
            val = args[1] if len(args) > 1 else None
            return SDict([(self._lb(c), x, val, False) for c, x in self.iterate(args[0], pc)])
        if fn is typing.cast:
            return args[1]
        if fn is _copy.deepcopy or fn is _copy.copy:
            return self.copy_value(args[0], fn is _copy.deepcopy)
        if fn is time.sleep:
            self.events.append((pc, "sleep", args[0]))
            return None
        if fn is dataclasses.replace:
            return self.dc_replace(args, kwargs, pc)
        if fn is dataclasses.field or fn is dataclasses.fields or fn is dataclasses.is_dataclass:
            if not anysym:
                return fn(*args, **kwargs)
        if fn is dataclasses.asdict and isinstance(args[0], Obj):
            raise Unsupported("asdict on symbolic object")
        return NotImplemented

    def copy_value(self, v, deep):
        """copy.copy / copy.deepcopy of a modelled value: containers get a new identity (recursively when deep)"""
        sub = (lambda x: self.copy_value(x, True)) if deep else (lambda x: x)
        if isinstance(v, Guarded):
            return Guarded([(c, self.copy_value(x, deep)) for c, x in v.alts])
        if isinstance(v, (dict, list, set, collections.deque)):
            v = self.lift_container(v)
        if isinstance(v, SDict):
            return SDict([(c, k, sub(x), d) for c, k, x, d in v.log], v.is_set)
        if isinstance(v, SList):
            return SList([(c, sub(x)) for c, x in v.items], v.maxlen)
        if isinstance(v, tuple):
            return tuple(sub(x) for x in v)
        if isinstance(v, Obj):
            if self.is_value_class(v.cls) and not deep:
                return v
            return Obj(v.cls, {k: sub(x) for k, x in v.fields.items()})
        return v

    def has_attr(self, o, name):
        if isinstance(o, Obj):
            return name in o.fields or hasattr(o.cls, name)
        if isinstance(o, Guarded):
            raise Unsupported("hasattr on guarded value")
        return hasattr(o, name)

    def isinstance_(self, o, c):
        if isinstance(o, Guarded):
            return self._boolify(self.dist(o, lambda v: self._lb(self.isinstance_(v, c))))
        cs = c if isinstance(c, tuple) else (c,)
        if isinstance(o, Obj):
            return any(isinstance(k, type) and issubclass(o.cls, k) for k in cs)
        if isinstance(o, EnumSym):
            return any(isinstance(k, type) and issubclass(o.cls, k) for k in cs)
        if isinstance(o, z3.BoolRef):
            return bool in cs or int in cs
        if isinstance(o, z3.ExprRef):
            if self.is_float_term(o):
                return float in cs
            return int in cs
        if isinstance(o, SBytes):
            return bytes in cs
        if isinstance(o, SList):
            if getattr(o, "is_tuple", False):
                return tuple in cs
            return list in cs or (collections.deque in cs and o.maxlen is not None)
        if isinstance(o, SDict):
            return (set if o.is_set else dict) in cs
        if isinstance(o, Opaque):
            if o.tag == "str":
                return str in cs
            raise Unsupported("isinstance on opaque")
        return isinstance(o, c)

    def len_(self, v, pc):
        if isinstance(v, SBytes):
            return len(v.bs)
        if isinstance(v, SList):
            return self.count([c for c, _ in v.items])
        if isinstance(v, SDict):
            return self.count([c for c, _, _ in self.sdict_entries(v, pc)])
        if isinstance(v, Obj):
            d = _mro_dict(v.cls)
            if "__len__" in d:
                return self.call_function(d["__len__"], [v], {}, pc)
            self.raises.append((pc, TypeError))
            return 0
        if isinstance(v, Opaque):
            if getattr(v, "length", None) is not None:
                return v.length
            raise Unsupported("len of opaque")
        if v is None:
            self.raises.append((pc, TypeError))
            return 0
        return len(v)

    def count(self, conds):
        n = sum(1 for c in conds if self.pybool(c) is True)
        rest = [c for c in conds if self.pybool(c) is None]
        if not rest:
            return n
        t = self.const(n)
        for c in rest:
            t = t + z3.If(c, self.const(1), self.const(0))
        if self.mode == "bv":
            self.mag[t.get_id()] = (n + len(rest)).bit_length()
        return t

    def _all_present(self, v, pc):
        items = self.iterate(v, pc)
        if not all(self.pybool(c) is True for c, _ in items):
            raise Unsupported("operation needs a list of definite membership")
        return items

    def builtin_containers(self, fn, args, kwargs, pc, anysym):
        if fn is hash or fn is id:
            raise Unsupported(f"{fn.__name__}() needs a stub")
        if fn is callable:
            return args[0] is not None and not isinstance(args[0], (int, float, str, bytes))
        if fn in (list, tuple, reversed, collections.deque):
            if not args:
                return SList(maxlen=kwargs.get("maxlen")) if fn is not tuple else ()
            items = self.iterate(args[0], pc)
            if fn is reversed:
                items = list(reversed(items))
            if fn is tuple:
                if not all(self.pybool(c) is True for c, _ in items):
                    t = SList(items)
                    t.is_tuple = True          # tuple whose membership is path dependent
                    return t
                return tuple(x for _, x in items)
            ml = kwargs.get("maxlen", args[1] if len(args) > 1 else None) if fn is collections.deque else None
            return SList(items, maxlen=ml)
        if fn in (set, frozenset):
            if not args:
                return SDict(is_set=True)
            return SDict([(c, x, True, False) for c, x in self.iterate(args[0], pc)], is_set=True)
        if fn is dict:
            out = SDict()
            if args:
                src = args[0]
                if isinstance(src, (SDict, dict, types.MappingProxyType)):
                    out.log.extend(self._as_sdict(src).log)
                elif isinstance(src, Obj):
                    raise Unsupported("dict(obj) - needs __iter__ generator")
                else:
                    for c, kv in self.iterate(src, pc):
                        if isinstance(kv, (str, bytes)) and len(kv) != 2 or isinstance(kv, (dict, SDict)) and not isinstance(kv, SDict) and len(kv) != 2:
                            # dict() of a sequence whose element is not a pair (e.g. dict(("name", value)) on a CHOICE tuple): ValueError
                            self.raises.append((z3.And(self._lb(pc), self._lb(c)), ValueError))
                            continue
                        if isinstance(kv, SDict) and all(self.pybool(cc) is True and not d_ and isinstance(kk, (str, int)) for cc, kk, _v, d_ in kv.log):
                            keys_ = list(dict.fromkeys(kk for _c, kk, _v, _d in kv.log))          # iterating a dict yields its keys
                            if len(keys_) != 2:
                                self.raises.append((z3.And(self._lb(pc), self._lb(c)), ValueError))
                                continue
                            out.log.append((c, keys_[0], keys_[1], False))
                            continue
                        if isinstance(kv, (int, float)) or kv is None:
                            self.raises.append((z3.And(self._lb(pc), self._lb(c)), TypeError))
                            continue
                        k, v = self.unpack(kv, 2)
                        out.log.append((c, k, v, False))
            for k, v in kwargs.items():
                out.log.append((TRUE, k, v, False))
            return out
        if fn is enumerate:
            start = args[1] if len(args) > 1 else kwargs.get("start", 0)
            items = self._all_present(args[0], pc)
            return [(start + i, x) for i, (_, x) in enumerate(items)]
        if fn is zip:
            cols = [[x for _, x in self._all_present(a, pc)] for a in args]
            return list(zip(*cols))
        if fn in (any, all):
            items = self.iterate(args[0], pc)
            cs = []
            for c, x in items:
                b = self.to_bool(x)
                cs.append(z3.And(self._lb(c), b) if fn is any else z3.Implies(self._lb(c), b))
            if not cs:
                return fn is all
            r = z3.simplify(z3.Or(*cs) if fn is any else z3.And(*cs))
            return self._boolify(r)
        if fn is sum:
            items = self.iterate(args[0], pc)
            tot = args[1] if len(args) > 1 else 0
            for c, x in items:
                if self.pybool(c) is True:
                    tot = self.binop(ast.Add(), tot, x, pc)
                else:
                    tot = self.ite(c, self.binop(ast.Add(), tot, x, pc), tot)
            return tot
        if fn is sorted:
            return self.sorted_(args, kwargs, pc)
        if fn in (bytes, bytearray):
            if not args:
                return b""
            v = args[0]
            if isinstance(v, SBytes):
                return v
            if isinstance(v, Opaque) and getattr(v, "term", None) is not None:
                return v                     # bytes(ideal byte string)
            if not anysym:
                return bytes(*args, **kwargs)
            if isinstance(v, SList):
                items = self._all_present(v, pc)
                out = []
                for _, x in items:
                    out.append(self.int_to_byte(x, pc))
                return SBytes(out)
            raise Unsupported("bytes(symbolic)")
        if fn is divmod:
            return (self.binop(ast.FloorDiv(), args[0], args[1], pc), self.binop(ast.Mod(), args[0], args[1], pc))
        if fn is iter or fn is next or fn is map or fn is filter:
            if not anysym and fn in (map, filter):
                return list(fn(*args))
            raise Unsupported(f"{fn.__name__}()")
        return NotImplemented

    def int_to_byte(self, x, pc):
        if not isinstance(x, z3.ExprRef):
            return z3.BitVecVal(int(x), 8)
        if self.mode == "bv":
            bad = z3.Or(x < self.const(0), x > self.const(255))
            if self.pybool(z3.simplify(bad)) is not False:
                self.raises.append((z3.And(pc, bad), ValueError))
            return z3.Extract(7, 0, x)
        raise Unsupported("int->byte in int mode")

    def sorted_(self, args, kwargs, pc):
        """sorting network by insertion (stable): only lists of definite membership, <= 4 items"""
        raw = self.iterate(args[0], pc)
        key = kwargs.get("key")
        rev = kwargs.get("reverse", False)
        if not all(self.pybool(c) is True for c, _ in raw):
            return self._sorted_guarded(raw, key, rev, pc)
        items = [x for _, x in raw]
        def key_of(x):
            if key is None:
                return x
            if isinstance(x, Guarded):        # an element that is one of several original objects: evaluate the key per object
                return self.dist(x, key_of)
            return self.call(key, [x], {}, pc)
        keys = [key_of(x) for x in items]
        def deep_sym(k):
            return any(deep_sym(x) for x in k) if isinstance(k, tuple) else self.is_sym(k)
        if not any(deep_sym(k) for k in keys) and isinstance(rev, bool):
            order = sorted(range(len(items)), key=lambda i: keys[i], reverse=rev)
            return SList([(TRUE, items[i]) for i in order])
        if len(items) > 4:
            raise Unsupported("symbolic sort of more than 4 items")
        # stable insertion sort with symbolic comparisons on (key, value) pairs
        pairs = list(zip(keys, items))
        revc = self.to_bool(rev)
        out = []
        for k, v in pairs:
            out.append((k, v))
            j = len(out) - 1
            while j > 0:
                a, b = out[j - 1], out[j]
                # swap iff b must come strictly before a
                lt = self.to_bool(self.key_lt(b[0], a[0], pc))
                gt = self.to_bool(self.key_lt(a[0], b[0], pc))
                sw = z3.If(revc, gt, lt)
                out[j - 1] = (self.ite(sw, b[0], a[0]), self._pick(sw, b[1], a[1]))
                out[j] = (self.ite(sw, a[0], b[0]), self._pick(sw, a[1], b[1]))
                j -= 1
        return SList([(TRUE, v) for _, v in out])

    def _sorted_guarded(self, raw, key, rev, pc):
        """stable sort of a list whose membership is path dependent: absent elements sink to the end and stay absent"""
        if len(raw) > 4:
            raise Unsupported("symbolic sort of more than 4 items")

        def key_of(x, c):
            if key is None:
                return x
            if isinstance(x, Guarded):
                return self.dist_pc(x, z3.And(pc, c), lambda v, p: self.call(key, [v], {}, p))
            return self.call(key, [x], {}, z3.And(pc, c))
        n0 = len(self.raises)
        trip = []
        for c, x in raw:
            c = self._lb(c)
            trip.append((c, key_of(x, c), x))
        revc = self.to_bool(rev)
        out = []
        for t in trip:
            out.append(t)
            j = len(out) - 1
            while j > 0:
                a, b = out[j - 1], out[j]
                lt = self.to_bool(self.key_lt(b[1], a[1], pc))
                gt = self.to_bool(self.key_lt(a[1], b[1], pc))
                sw = z3.simplify(z3.And(b[0], z3.Or(z3.Not(a[0]), z3.If(revc, gt, lt))))
                out[j - 1] = (z3.If(sw, b[0], a[0]), self._pickk(sw, b[1], a[1]), self._pick(sw, b[2], a[2]))
                out[j] = (z3.If(sw, a[0], b[0]), self._pickk(sw, a[1], b[1]), self._pick(sw, a[2], b[2]))
                j -= 1
        return SList([(z3.simplify(c), v) for c, k, v in out])

    def _pickk(self, c, a, b):
        if isinstance(a, tuple) and isinstance(b, tuple) and len(a) == len(b):
            return tuple(self._pickk(c, x, y) for x, y in zip(a, b))
        return self.ite(c, a, b)

    def _pick(self, c, a, b):
        """a if c else b, keeping containers / objects apart (no field-wise merge) so that their identity survives sorting"""
        if a is b:
            return a
        if isinstance(a, (SDict, SList, Obj, dict, list, Guarded)) or isinstance(b, (SDict, SList, Obj, dict, list, Guarded)):
            pb = self.pybool(c)
            if pb is True:
                return a
            if pb is False:
                return b
            return Guarded([(c, a), (z3.Not(c), b)])
        return self.ite(c, a, b)

    def key_lt(self, a, b, pc):
        if isinstance(a, tuple) and isinstance(b, tuple):
            # lexicographic
            res = False
            for x, y in reversed(list(zip(a, b))):
                lt = self.compare(ast.Lt(), x, y, pc)
                eq = self.equal(x, y, pc)
                res = self._or(lt, self._and(eq, res))
            return res
        return self.compare(ast.Lt(), a, b, pc)

    def from_bytes(self, args, kwargs, pc):
        b = self.sbytes(args[0])
        order = args[1] if len(args) > 1 else kwargs.get("byteorder", "big")
        signed = kwargs.get("signed", False)
        if self.is_sym(signed):
            raise Unsupported("from_bytes symbolic signed flag")
        bs = b.bs if order == "big" else list(reversed(b.bs))
        if not bs:
            return 0
        if self.mode != "bv":
            t = z3.IntVal(0)
            for x in bs:
                t = t * 256 + z3.BV2Int(x)
            if signed:
                t = z3.If(t >= (1 << (8 * len(bs) - 1)), t - (1 << (8 * len(bs))), t)
            return t
        if 8 * len(bs) > self.W - 2:
            raise Unsupported(f"from_bytes of {len(bs)} octets exceeds BV width {self.W}")
        cat = z3.Concat(*bs) if len(bs) > 1 else bs[0]
        t = (z3.SignExt if signed else z3.ZeroExt)(self.W - 8 * len(bs), cat)
        self.mag[t.get_id()] = 8 * len(bs)
        return t

    def to_bytes(self, x, args, kwargs, pc):
        n = args[0] if args else kwargs.get("length", 1)
        order = args[1] if len(args) > 1 else kwargs.get("byteorder", "big")
        signed = kwargs.get("signed", False)
        if self.is_sym(n) and not self.is_sym(signed) and not signed and self.mode == "int":
            # byte string of symbolic length: kept as an ideal string standing for the integer (length = n)
            cap = z3.IntVal(1 << 128)          # lengths above 16 octets: values of the VCs stay below 2^128 (magnitude bounds)
            for k in range(16, -1, -1):
                cap = z3.If(n <= k, z3.IntVal(1 << (8 * k)), cap)
            bad = z3.Or(x < 0, x >= cap)          # int.to_bytes raises OverflowError when the value does not fit into `length` octets
            if self.pybool(z3.simplify(bad)) is not False:
                self.raises.append((z3.And(pc, bad), OverflowError))
            o = Opaque("int-bytes")
            o.term, o.length, o.src, o.slicer = x, n, None, None
            return o
        if self.is_sym(n) or self.is_sym(signed):
            raise Unsupported("to_bytes symbolic length/signed flag")
        if isinstance(x, z3.BoolRef):
            x = self.num(x)
        lo, hi = (-(1 << (8 * n - 1)), 1 << (8 * n - 1)) if signed else (0, 1 << (8 * n))
        if self.mode != "bv":
            bad = z3.Or(x < lo, x >= hi)
            if self.pybool(z3.simplify(bad)) is not False:
                self.raises.append((z3.And(pc, bad), OverflowError))
            out = [z3.Int2BV((x / (1 << (8 * (n - i - 1)))) % 256, 8) for i in range(n)]
        else:
            if 8 * n > self.W - 2:
                raise Unsupported("to_bytes wider than BV width")
            bad = z3.Or(x < self.const(lo), x >= self.const(hi))
            if self.pybool(z3.simplify(bad)) is not False:
                self.raises.append((z3.And(pc, bad), OverflowError))
            out = [z3.simplify(z3.Extract(8 * (n - i) - 1, 8 * (n - i - 1), x)) for i in range(n)]
        if order != "big":
            out.reverse()
        return SBytes(out)

    # ------------------------------------------------------------------ math
    def math_fn(self, fn, args, pc, anysym):
        if not anysym:
            try:
                return fn(*args)
            except (ValueError, ZeroDivisionError, OverflowError) as ex:
                self.raises.append((pc, type(ex)))
                return UNDEF
        name = fn.__name__
        x = self.to_float(args[0])
        if name == "sqrt":
            return self.fsqrt(x, pc)
        if name in ("floor", "ceil", "trunc"):
            if isinstance(x, z3.FPRef):
                rm = {"floor": z3.RTN(), "ceil": z3.RTP(), "trunc": z3.RTZ()}[name]
                if self.mode == "bv":
                    return z3.fpToSBV(rm, x, z3.BitVecSort(self.W))
                i = z3.ToInt(z3.fpToReal(z3.fpRoundToIntegral(rm, x)))
            else:
                i = {"floor": lambda: z3.ToInt(x), "ceil": lambda: -z3.ToInt(-x),
                     "trunc": lambda: z3.If(x >= 0, z3.ToInt(x), -z3.ToInt(-x))}[name]()
            return z3.Int2BV(i, self.W) if self.mode == "bv" else i
        if name == "fabs":
            return z3.fpAbs(x) if isinstance(x, z3.FPRef) else z3.If(x < 0, -x, x)
        if self.fmode == "fp":
            raise Unsupported(f"math.{name} in fp mode")
        if name == "radians":
            return self._round(x * self.fconst(math.pi / 180.0))
        if name == "degrees":
            return self._round(x * self.fconst(180.0 / math.pi))
        if name in ("cos", "sin"):
            c, s = self.trig(x)
            return c if name == "cos" else s
        if name == "atan2":
            raise Unsupported("math.atan2")
        if name == "hypot":
            y = self.to_float(args[1])
            return self.fsqrt(x * x + y * y, pc)
        if name == "isnan" or name == "isinf":
            return False
        raise Unsupported(f"math.{name}")

    def trig(self, x):
        """uninterpreted cos/sin on the unit circle; same argument term -> same symbols"""
        cache = self.__dict__.setdefault("_trig", {})
        k = x.get_id()
        if k not in cache:
            c, s = z3.Real(self.fresh("cos")), z3.Real(self.fresh("sin"))
            self.assumptions.append(c * c + s * s == 1)
            cache[k] = (c, s, x)
            self.events.append((TRUE, "trig", (x, c, s)))
        return cache[k][0], cache[k][1]

    # ------------------------------------------------------------------ methods of modelled values
    def method(self, o, name, args, kwargs, pc):
        if isinstance(o, Guarded):
            return self.dist_pc(o, pc, lambda v, p: self.method(v, name, args, kwargs, p))
        if isinstance(o, z3.ExprRef):
            if name == "to_bytes":
                return self.to_bytes(o, args, kwargs, pc)
            if name == "bit_length":
                if self.mode != "int":
                    raise Unsupported("bit_length on symbolic int (bv mode)")
                x = z3.If(o >= 0, o, -o)
                r = z3.IntVal(64)
                for kbits in range(63, -1, -1):
                    r = z3.If(x < 2 ** kbits, kbits, r)
                self.unwind.append(z3.And(pc, x >= 2 ** 64))          # values beyond 64 bits are outside the encoding
                return r
            if name == "is_integer":
                return z3.ToReal(z3.ToInt(o)) == o
            raise Unsupported(f"method {name} on term")
        if isinstance(o, Opaque):
            if o.tag == "lock":
                if name in ("acquire", "release", "set", "clear", "notify", "notify_all"):
                    self.events.append((pc, "lock." + name, o))
                    return True
                if name in ("wait", "is_set", "locked"):
                    return z3.Bool(self.fresh("lockstate"))
            if o.tag == "str":
                return Opaque("str")
            if o.tag == "thread":
                self.events.append((pc, "thread." + name, o))
                return None
            raise Unsupported(f"method {name} on opaque {o.tag}")
        if isinstance(o, TimerRec):
            if name == "start":
                o.started = z3.simplify(z3.Or(o.started, pc))
                self.events.append((pc, "timer.start", o))
                return None
            if name == "cancel":
                o.cancelled = z3.simplify(z3.Or(o.cancelled, pc))
                self.events.append((pc, "timer.cancel", o))
                return None
            if name in ("is_alive",):
                return z3.And(o.started, z3.Not(o.cancelled))
            if name in ("setDaemon", "join"):
                return None
            raise Unsupported(f"Timer.{name}")
        if isinstance(o, SBytes):
            if name == "hex":
                return Opaque("str")
            raise Unsupported(f"bytes.{name} on symbolic bytes")
        if isinstance(o, SList):
            return self.slist_method(o, name, args, kwargs, pc)
        if isinstance(o, SDict):
            return self.sdict_method(o, name, args, kwargs, pc)
        raise Unsupported(f"method {name} on {type(o).__name__}")

    def slist_method(self, o, name, args, kwargs, pc):
        if name == "append":
            if o.maxlen is not None:
                # deque(maxlen): drop the oldest when full
                n = self.len_(o, pc)
                full = self.to_bool(self.cmp_num(ast.GtE, n, o.maxlen))
                self._drop_first(o, z3.And(pc, full))
            o.items.append((pc, args[0]))
            return None
        if name == "extend":
            for c, x in self.iterate(args[0], pc):
                o.items.append((z3.And(pc, self._lb(c)), x))
            return None
        if name == "popleft" or (name == "pop" and args and not self.is_sym(args[0]) and args[0] == 0):
            v = self.slist_index(o, 0, pc)
            self._drop_first(o, pc)
            return v
        if name == "pop" and not args:
            v = self.slist_index(o, -1, pc)
            self._drop_last(o, pc)
            return v
        if name == "clear":
            o.items = [(z3.simplify(z3.And(c, z3.Not(pc))), x) for c, x in o.items]
            return None
        if name == "copy":
            return SList(o.items, o.maxlen)
        if name == "remove":
            x = args[0]
            seen = FALSE
            new = []
            anyhit = FALSE
            for c, v in o.items:
                m = self._lb(self.equal(v, x, pc))
                hit = z3.And(self._lb(c), m, z3.Not(seen))
                new.append((z3.simplify(z3.And(self._lb(c), z3.Not(z3.And(pc, hit)))), v))
                seen = z3.Or(seen, hit)
            o.items = new
            if self.pybool(z3.simplify(seen)) is not True:
                self.raises.append((z3.And(pc, z3.Not(seen)), ValueError))
            return None
        if name == "index" and all(self.pybool(c) is True for c, _ in o.items):
            hits = [self._lb(self.equal(x, args[0], pc)) for _, x in o.items]
            anyhit = z3.simplify(z3.Or(*hits)) if hits else FALSE
            if self.pybool(anyhit) is not True:
                self.raises.append((z3.And(pc, z3.Not(anyhit)), ValueError))
            if not hits:
                return UNDEF
            res = len(hits) - 1
            for i in range(len(hits) - 2, -1, -1):
                pb = self.pybool(hits[i])
                res = i if pb is True else (res if pb is False else self.ite(hits[i], i, res))
            return res
        if name == "index" or name == "count" or name == "sort" or name == "insert" or name == "reverse":
            if name == "sort":
                s = self.sorted_([o], kwargs, pc)
                if self.pybool(pc) is not True:
                    raise Unsupported("list.sort under a path condition")
                o.items = s.items
                return None
            raise Unsupported(f"list.{name}")
        if name == "__len__":
            return self.len_(o, pc)
        raise Unsupported(f"list.{name}")

    def _drop_first(self, o, cond):
        """remove the first present element when cond holds"""
        seen = FALSE
        new = []
        for c, v in o.items:
            first = z3.And(self._lb(c), z3.Not(seen))
            new.append((z3.simplify(z3.And(self._lb(c), z3.Not(z3.And(cond, first)))), v))
            seen = z3.Or(seen, self._lb(c))
        o.items = new

    def _drop_last(self, o, cond):
        o.items.reverse()
        self._drop_first(o, cond)
        o.items.reverse()

    def sdict_method(self, o, name, args, kwargs, pc):
        if name == "get":
            found, val = self.sdict_lookup(o, args[0], pc)
            dflt = args[1] if len(args) > 1 else kwargs.get("default")
            pb = self.pybool(self._lb(found))
            if pb is True:
                return val
            if pb is False:
                return dflt
            return self.ite(self._lb(found), val, dflt)
        if name == "pop":
            found, val = self.sdict_lookup(o, args[0], pc)
            fb = self._lb(found)
            if len(args) > 1:
                res = self.ite(fb, val, args[1]) if self.pybool(fb) is not True else val
                if self.pybool(fb) is False:
                    res = args[1]
            else:
                if self.pybool(fb) is not True:
                    self.raises.append((z3.And(pc, z3.Not(fb)), KeyError))
                res = val
            if self.pybool(fb) is not False:
                o.log.append((z3.simplify(z3.And(pc, fb)), args[0], None, True))
            return res
        if name == "setdefault":
            found, val = self.sdict_lookup(o, args[0], pc)
            fb = self._lb(found)
            dflt = args[1] if len(args) > 1 else None
            if self.pybool(fb) is True:
                return val
            o.log.append((z3.simplify(z3.And(pc, z3.Not(fb))), args[0], dflt, False))
            return self.ite(fb, val, dflt) if self.pybool(fb) is not False else dflt
        if name in ("add",):
            o.log.append((pc, args[0], True, False))
            return None
        if name in ("discard", "remove"):
            found, _ = self.sdict_lookup(o, args[0], pc)
            fb = self._lb(found)
            if name == "remove" and self.pybool(fb) is not True:
                self.raises.append((z3.And(pc, z3.Not(fb)), KeyError))
            if self.pybool(fb) is not False:
                o.log.append((z3.simplify(z3.And(pc, fb)), args[0], None, True))
            return None
        if name == "items":
            return SList([(c, (k, v)) for c, k, v in self.sdict_entries(o, pc)])
        if name == "keys":
            return SList([(c, k) for c, k, v in self.sdict_entries(o, pc)])
        if name == "values":
            return SList([(c, v) for c, k, v in self.sdict_entries(o, pc)])
        if name == "copy":
            return SDict(o.log, o.is_set)
        if name == "clear":
            for c, k, v in self.sdict_entries(o, pc):
                o.log.append((z3.And(pc, c), k, None, True))
            return None
        if name == "update":
            src = self._as_sdict(args[0]) if args else SDict()
            for c, k, v, d in src.log:
                o.log.append((z3.simplify(z3.And(pc, self._lb(c))), k, v, d))
            for k, v in kwargs.items():
                o.log.append((pc, k, v, False))
            return None
        if name == "__contains__":
            return self.sdict_lookup(o, args[0], pc)[0]
        if name == "move_to_end":
            return None               # insertion order is not observable through the modelled operations
        raise Unsupported(f"dict.{name}")


def make(mode="bv", width=256, fmode="real", unroll=6):
    return Full(mode, width, fmode, unroll)
