"""E1 `py2smt`: symbolic evaluation of the repository's real function ASTs into z3 terms.

Path-merging evaluator: one formula per function call, exceptions as first-class outcomes,
heap objects with path-guarded field writes.  See DESIGN.md section 1.1.
"""
import ast
import builtins
import dataclasses
import enum
import inspect
import types
import z3
from .values import (Unsupported, Obj, EnumSym, SBytes, Guarded, Opaque, SList, SDict, UNDEF, Undefined,
                     BoundSym, TimerRec)
from .arith import Arith


class UndefinedUse(Unsupported):
    """an undefined value (result of a raising call / unassigned local) was used"""


TRUE = z3.BoolVal(True)
FALSE = z3.BoolVal(False)

_SRC_CACHE = {}


def function_ast(fn):
    """AST node (FunctionDef or Lambda) of a real function object, located in its module's current source."""
    code = fn.__code__
    key = (code.co_filename, code.co_firstlineno, code.co_name)
    if key in _SRC_CACHE:
        return _SRC_CACHE[key]
    fname = code.co_filename
    if fname not in _SRC_CACHE:
        with open(fname, "r", encoding="utf-8") as f:
            tree = ast.parse(f.read())
        index = {}
        for n in ast.walk(tree):
            if isinstance(n, (ast.FunctionDef, ast.AsyncFunctionDef)):
                first = min([n.lineno] + [d.lineno for d in n.decorator_list])
                index.setdefault((first, n.name), n)
            elif isinstance(n, ast.Lambda):
                index.setdefault((n.lineno, "<lambda>"), []).append(n)
        _SRC_CACHE[fname] = index
    index = _SRC_CACHE[fname]
    node = index.get((code.co_firstlineno, code.co_name))
    if isinstance(node, list):
        if len(node) != 1:
            # several lambdas on one line: pick by argument names
            names = code.co_varnames[:code.co_argcount]
            node = [n for n in node if tuple(a.arg for a in n.args.args) == tuple(names)]
        node = node[0] if node else None
    if node is None:
        raise Unsupported(f"no source for {fn}")
    _SRC_CACHE[key] = node
    return node


class _RaiseLog(list):
    """list of (pc, exception class); remembers the source site of every entry for diagnostics"""

    def __init__(self, interp):
        super().__init__()
        self.interp = interp
        self.sites = {}

    def append(self, item):
        self.sites[id(item[0])] = self.interp.site
        super().append(item)

    def site_of(self, item):
        return self.sites.get(id(item[0]), "?")


class Closure:
    def __init__(self, node, env, glb):
        self.node, self.env, self.glb = node, env, glb


class Frame:
    def __init__(self, env, glb, qualname=""):
        self.env, self.glb, self.qualname = env, glb, qualname
        self.rets = []      # (pc, value)
        self.brk = None     # list of (pc, env snapshot) while inside a loop
        self.cont = None


class Interp(Arith):
    def __init__(self, mode="bv", width=256, fmode="real", unroll=6, repo_prefix="flexstack"):
        super().__init__(mode, width, fmode)
        self.raises = _RaiseLog(self)        # (pc, exception class)
        self.site = "?"          # qualname:line of the statement being evaluated (diagnostics)
        self.calls = set()      # qualnames of repository functions that were encoded
        self.events = []        # (pc, kind, payload) appended by stubs
        self.stubs = {}         # function object / (class, name) / id(obj) -> callable
        self.heap = {}          # id(concrete object) -> Obj
        self.unwind = []        # conditions under which an unrolled loop would iterate further
        self.unroll = unroll
        self.repo_prefix = repo_prefix
        self.depth = 0
        self.notes = []
        self.prune = False
        self._psolver = z3.Solver()
        self._psolver.set("timeout", int(__import__("os").environ.get("VERIF_PRUNE_TIMEOUT_MS", "150")))
        self._nass = 0
        self.nprune = 0

    # ------------------------------------------------------------------ heap
    def lift(self, o, **overrides):
        """lift a concrete instance to a heap Obj (same Obj for the same concrete object)"""
        if isinstance(o, Obj):
            o.fields.update(overrides)
            return o
        if id(o) in self.heap:
            ob = self.heap[id(o)]
        else:
            if dataclasses.is_dataclass(o) and not isinstance(o, type):
                fields = {f.name: getattr(o, f.name) for f in dataclasses.fields(o)}
                fields.update({k: v for k, v in getattr(o, "__dict__", {}).items() if k not in fields})
            else:
                fields = dict(getattr(o, "__dict__", {}))
            ob = Obj(type(o), fields, origin=o)
            if not self.is_value_class(type(o)):
                self.heap[id(o)] = ob
        ob.fields.update(overrides)
        return ob

    def new_obj(self, cls, **fields):
        return Obj(cls, dict(fields))

    def lift_container(self, v):
        """concrete mutable container -> guarded container, recursively (done on first access through a heap field)"""
        import collections
        if isinstance(v, collections.deque):
            return SList([(TRUE, self.lift_container(x)) for x in v], maxlen=v.maxlen)
        if isinstance(v, list):
            return SList([(TRUE, self.lift_container(x)) for x in v])
        if isinstance(v, dict):
            return SDict([(TRUE, k, self.lift_container(x), False) for k, x in v.items()])
        if isinstance(v, set):
            return SDict([(TRUE, k, True, False) for k in v], is_set=True)
        if isinstance(v, tuple) and any(isinstance(x, (dict, list, set, tuple)) for x in v):
            return tuple(self.lift_container(x) for x in v)
        return v

    # ------------------------------------------------------------------ calling repository code
    def call_function(self, fn, args, kwargs=None, pc=TRUE):
        kwargs = kwargs or {}
        if isinstance(fn, (classmethod, staticmethod)):
            fn = fn.__func__
        if isinstance(fn, types.MethodType):
            args = [fn.__self__] + list(args)
            fn = fn.__func__
        if hasattr(fn, "__wrapped__") and not hasattr(fn, "__code__"):
            fn = fn.__wrapped__
        stub = self.stubs.get(fn)
        if stub is not None:
            return stub(self, list(args), kwargs, pc)
        node = function_ast(fn)
        qn = getattr(fn, "__qualname__", str(fn))
        self.calls.add(f"{fn.__module__}.{qn}")
        env = self.bind(fn, node, args, kwargs)
        fr = Frame(env, fn.__globals__, qn)
        fr.fn = fn
        fr.first = args[0] if args else None
        if fn.__closure__:
            for name, cell in zip(fn.__code__.co_freevars, fn.__closure__):
                try:
                    env.setdefault(name, cell.cell_contents)
                except ValueError:
                    pass
        self.depth += 1
        if self.depth > 60:
            raise Unsupported("call depth > 60 (recursion?)")
        try:
            if isinstance(node, ast.Lambda):
                return self.ev(node.body, fr, pc)
            out = self.exec_block(node.body, fr, pc)
        finally:
            self.depth -= 1
        if self.pybool(out) is not False:
            fr.rets.append((out, None))          # falling off the end returns None
        return self.merge_returns(fr.rets)

    def bind(self, fn, node, args, kwargs):
        sig = inspect.signature(fn)
        try:
            ba = sig.bind(*args, **kwargs)
        except TypeError as e:
            raise Unsupported(f"bind {fn.__qualname__}: {e}")
        ba.apply_defaults()
        env = {}
        a = node.args
        names = [x.arg for x in a.posonlyargs + a.args + a.kwonlyargs]
        for src_name, (pname, val) in zip(names, ba.arguments.items()):
            env[src_name] = val           # undo private-name mangling by using the source's own names
        for pname, val in ba.arguments.items():
            env.setdefault(pname, val)
        if a.vararg:
            env[a.vararg.arg] = ba.arguments.get(a.vararg.arg, ())
        if a.kwarg:
            env[a.kwarg.arg] = ba.arguments.get(a.kwarg.arg, {})
        return env

    def merge_returns(self, rets):
        if not rets:
            return UNDEF
        val = rets[-1][1]
        for c, v in reversed(rets[:-1]):
            val = self.ite(c, v, val)
        return val

    def call_closure(self, clo, args, kwargs, pc):
        node = clo.node
        env = dict(clo.env)
        a = node.args
        names = [x.arg for x in a.posonlyargs + a.args]
        defaults = a.defaults
        for i, n in enumerate(names):
            if i < len(args):
                env[n] = args[i]
            elif n in kwargs:
                env[n] = kwargs[n]
            else:
                di = i - (len(names) - len(defaults))
                if di < 0:
                    raise Unsupported("closure arg missing")
                env[n] = self.ev(defaults[di], Frame(clo.env, clo.glb), pc)
        fr = Frame(env, clo.glb, "<closure>")
        if isinstance(node, ast.Lambda):
            return self.ev(node.body, fr, pc)
        self.exec_block(node.body, fr, pc)
        return self.merge_returns(fr.rets)

    # ------------------------------------------------------------------ statements
    def exec_block(self, stmts, fr, pc):
        """returns the path condition under which control falls through"""
        for st in stmts:
            if self.pybool(pc) is False:
                return FALSE
            n0 = len(self.raises)
            pc0 = pc
            try:
                pc = self.exec_stmt(st, fr, pc)
            except UndefinedUse:
                # A value that exists on no normal path was used (result of a call that raised on every path, or a
                # local never assigned).  Python raises UnboundLocalError/NameError there: record exactly that and
                # end the path.  On an infeasible path the recorded condition is unsatisfiable and harmless.
                self.raises.append((pc0, UnboundLocalError))
                return FALSE
            new = self.raises[n0:]
            if new and not isinstance(st, (ast.Try, ast.If, ast.For, ast.While, ast.With)):
                pc = z3.And(pc, z3.Not(z3.Or(*[c for c, _ in new])))
            if isinstance(pc, bool):
                pc = z3.BoolVal(pc)
            pc = z3.simplify(pc)
            if new and self.pybool(pc) is not False and (self.dead_after(pc0, new) or self.unsat(pc)):
                return FALSE
        return pc

    def exec_stmt(self, st, fr, pc):
        m = getattr(self, "st_" + type(st).__name__, None)
        if m is None:
            raise Unsupported(f"statement {type(st).__name__} at {fr.qualname}:{st.lineno}")
        self.site = f"{fr.qualname}:{getattr(st, 'lineno', '?')}"
        try:
            return m(st, fr, pc)
        except Unsupported as e:
            if not getattr(e, "located", False):
                e.args = (f"{e.args[0]} [at {fr.qualname}:{getattr(st, 'lineno', '?')}]",)
                e.located = True
            raise

    def st_Expr(self, st, fr, pc):
        if not isinstance(st.value, ast.Constant):
            self.ev(st.value, fr, pc)
        return pc

    def st_Pass(self, st, fr, pc):
        return pc

    def st_Import(self, st, fr, pc):
        for a in st.names:
            mod = __import__(a.name)
            fr.env[(a.asname or a.name).split(".")[0]] = mod
        return pc

    def st_ImportFrom(self, st, fr, pc):
        import importlib
        pkg = fr.glb.get("__package__")
        mod = importlib.import_module(("." * st.level) + (st.module or ""), pkg)
        for a in st.names:
            fr.env[a.asname or a.name] = getattr(mod, a.name)
        return pc

    def st_Return(self, st, fr, pc):
        n0 = len(self.raises)
        v = self.ev(st.value, fr, pc) if st.value is not None else None
        fr.rets.append((self._after_raises(pc, n0), v))        # the value is returned only on the paths that did not raise
        return FALSE

    def st_Assign(self, st, fr, pc):
        v = self.ev(st.value, fr, pc)
        for t in st.targets:
            self.assign(t, v, fr, pc)
        return pc

    def st_AnnAssign(self, st, fr, pc):
        if st.value is not None:
            self.assign(st.target, self.ev(st.value, fr, pc), fr, pc)
        return pc

    def st_AugAssign(self, st, fr, pc):
        load = ast.copy_location(_as_load(st.target), st.target)
        cur = self.ev(load, fr, pc)
        v = self.binop(st.op, cur, self.ev(st.value, fr, pc), pc)
        self.assign(st.target, v, fr, pc)
        return pc

    def st_Delete(self, st, fr, pc):
        for t in st.targets:
            if isinstance(t, ast.Subscript):
                obj = self.ev(t.value, fr, pc)
                key = self.ev(t.slice, fr, pc)
                self.container_del(obj, key, pc)
            elif isinstance(t, ast.Name):
                fr.env.pop(t.id, None)
            else:
                raise Unsupported("del target")
        return pc

    def st_Assert(self, st, fr, pc):
        c = self.to_bool(self.ev(st.test, fr, pc))
        if self.pybool(c) is not True:
            self.raises.append((z3.And(pc, z3.Not(c)), AssertionError))
        return z3.And(pc, c)

    def st_Global(self, st, fr, pc):
        raise Unsupported("global statement")

    def _after_raises(self, pc, n0):
        """path condition after an expression was evaluated: the paths on which it raised have ended"""
        new = self.raises[n0:]
        if not new:
            return pc
        return z3.simplify(z3.And(pc, z3.Not(z3.Or(*[c for c, _ in new]))))

    def st_If(self, st, fr, pc):
        n0 = len(self.raises)
        c = self.to_bool(self.ev(st.test, fr, pc))
        pc = self._after_raises(pc, n0)          # a raise inside the test ends those paths
        pb = self.pybool(c)
        if pb is True:
            return self.exec_block(st.body, fr, pc)
        if pb is False:
            return self.exec_block(st.orelse, fr, pc)
        if self.infeasible(z3.And(pc, c)):
            return self.exec_block(st.orelse, fr, z3.And(pc, z3.Not(c)))
        if self.infeasible(z3.And(pc, z3.Not(c))):
            return self.exec_block(st.body, fr, z3.And(pc, c))
        env0 = fr.env
        env_t, env_f = dict(env0), dict(env0)
        fr.env = env_t
        pt = self.exec_block(st.body, fr, z3.And(pc, c))
        fr.env = env_f
        pf = self.exec_block(st.orelse, fr, z3.And(pc, z3.Not(c)))
        fr.env = env0
        dead_t, dead_f = self.pybool(pt) is False, self.pybool(pf) is False
        if dead_t and not dead_f:
            env0.clear(); env0.update(env_f)
        elif dead_f and not dead_t:
            env0.clear(); env0.update(env_t)
        else:
            merged = {}
            for k in set(env_t) | set(env_f):
                a, b = env_t.get(k, UNDEF), env_f.get(k, UNDEF)
                merged[k] = a if a is b else self.ite(c, a, b)
            env0.clear(); env0.update(merged)
        return z3.simplify(z3.Or(pt, pf))

    @staticmethod
    def _conjuncts(c):
        out, todo = set(), [c]
        while todo:
            x = todo.pop()
            if z3.is_and(x):
                todo.extend(x.children())
            else:
                out.add(x.get_id())
        return out

    def dead_after(self, pc, new):
        """syntactic check: some new raise covers the whole incoming path condition"""
        pcs = self._conjuncts(z3.simplify(pc))
        for c, _ in new:
            if self._conjuncts(z3.simplify(c)) <= pcs:
                return True
        return False

    def infeasible(self, cond):
        return self.prune and self.unsat(cond)

    def unsat(self, cond, full=False):
        """feasibility query used only to prune dead paths (sound either way); full = no time limit"""
        s = self._psolver
        if full:
            s = z3.Solver()
            s.set("timeout", 60000)
        s.push()
        try:
            s.add(cond, *self.assumptions[self._nass:])
            r = s.check()
        finally:
            s.pop()
        self.nprune += 1
        return r == z3.unsat

    def st_Raise(self, st, fr, pc):
        cls = Exception
        if st.exc is not None:
            n = st.exc.func if isinstance(st.exc, ast.Call) else st.exc
            cls = self.ev(n, fr, pc)
            if isinstance(cls, Opaque) and getattr(cls, "exc_classes", None):
                for c, k in cls.exc_classes:
                    self.raises.append((z3.And(pc, c), k))
                return FALSE
            if not isinstance(cls, type):
                cls = type(cls) if isinstance(cls, BaseException) else Exception
        else:
            cur = getattr(fr, "handling", None)
            if cur:
                for c, k in cur:
                    self.raises.append((z3.And(pc, c), k))
                return FALSE
        self.raises.append((pc, cls))
        return FALSE

    def st_With(self, st, fr, pc):
        for item in st.items:
            n0 = len(self.raises)
            v = self.ev(item.context_expr, fr, pc)
            pc = self._after_raises(pc, n0)
            if item.optional_vars is not None:
                self.assign(item.optional_vars, v, fr, pc)
            self.on_with_enter(v, fr, pc)
        out = self.exec_block(st.body, fr, pc)
        for item in st.items:
            self.on_with_exit(fr, pc)
        return out

    def on_with_enter(self, v, fr, pc):
        pass

    def on_with_exit(self, fr, pc):
        pass

    def st_Try(self, st, fr, pc):
        n0 = len(self.raises)
        nr0 = len(fr.rets)
        pbody = self.exec_block(st.body, fr, pc)
        raised = self.raises[n0:]
        del self.raises[n0:]
        if st.orelse:
            pbody = self.exec_block(st.orelse, fr, pbody)
        outs = [pbody]
        remaining = raised
        for h in st.handlers:
            hcls = self.ev(h.type, fr, pc) if h.type is not None else BaseException
            hcls = tuple(hcls) if isinstance(hcls, (tuple, list)) else (hcls,)
            matched = [(c, k) for c, k in remaining if issubclass(k, hcls)]
            remaining = [(c, k) for c, k in remaining if not issubclass(k, hcls)]
            if matched:
                hpc = z3.simplify(z3.Or(*[c for c, _ in matched]))
                if h.name:
                    o = Opaque("exc")
                    o.exc_classes = matched
                    fr.env[h.name] = o
                prev = getattr(fr, "handling", None)
                fr.handling = matched
                # env at handler entry: approximated by the env after the try body (guarded writes
                # keep heap effects exact; locals assigned in the body before the raise may be visible)
                outs.append(self.exec_block(h.body, fr, hpc))
                fr.handling = prev
        self.raises.extend(remaining)
        out = z3.simplify(z3.Or(*outs))
        if st.finalbody:
            conds = [out] + [c for c, _ in remaining] + [c for c, _ in fr.rets[nr0:]]
            fpc = z3.simplify(z3.Or(*conds))
            f_out = self.exec_block(st.finalbody, fr, fpc)
            out = z3.And(out, f_out)
        return out

    def st_Break(self, st, fr, pc):
        if fr.brk is None:
            raise Unsupported("break outside loop")
        fr.brk.append((pc, dict(fr.env)))
        return FALSE

    def st_Continue(self, st, fr, pc):
        if fr.cont is None:
            raise Unsupported("continue outside loop")
        fr.cont.append((pc, dict(fr.env)))
        return FALSE

    def _merge_snapshots(self, fr, pc_main, snaps):
        """fr.env currently holds the main-path env (valid under pc_main); fold in snapshots"""
        if not snaps:
            return pc_main
        main_dead = self.pybool(pc_main) is False
        env = fr.env
        for spc, senv in snaps:
            if main_dead:
                env.clear(); env.update(senv)
                main_dead = False
                continue
            for k in set(env) | set(senv):
                a, b = senv.get(k, UNDEF), env.get(k, UNDEF)
                if a is not b:
                    env[k] = self.ite(spc, a, b)
        return z3.simplify(z3.Or(pc_main, *[c for c, _ in snaps]))

    def st_For(self, st, fr, pc):
        n0 = len(self.raises)
        itv = self.ev(st.iter, fr, pc)
        pc = self._after_raises(pc, n0)
        if isinstance(itv, SList) and getattr(itv, "_heap", False) and 0 < len(itv.items) <= 5 and not st.orelse:
            return self._for_live(st, fr, pc, itv)
        items = self.iterate(itv, pc)
        saved = (fr.brk, fr.cont)
        all_brk = []
        for cond, item in items:
            if self.pybool(pc) is False:
                break
            fr.brk, fr.cont = [], []
            cb = self.pybool(cond)
            if cb is False:
                continue
            if cb is True:
                self.assign(st.target, item, fr, pc)
                after = self.exec_block(st.body, fr, pc)
                pc = self._merge_snapshots(fr, after, fr.cont)
            else:
                env0 = dict(fr.env)
                pin = z3.And(pc, cond)
                self.assign(st.target, item, fr, pin)
                after = self.exec_block(st.body, fr, pin)
                after = self._merge_snapshots(fr, after, fr.cont)
                # paths that skipped this item keep env0
                pc = self._merge_snapshots(fr, after, [(z3.And(pc, z3.Not(cond)), env0)])
            all_brk.extend(fr.brk)
        fr.brk, fr.cont = saved
        if st.orelse:
            pc = self.exec_block(st.orelse, fr, pc)
        return self._merge_snapshots(fr, pc, all_brk)

    def _for_live(self, st, fr, pc, lst):
        """for-loop over a list that lives in a heap field: python iterates by index over the *current* list, so a body
        that removes / appends elements changes what the following iterations see.  Iteration k visits the k-th element
        of the list as it is at that moment."""
        saved = (fr.brk, fr.cont)
        all_brk = []
        cap = len(lst.items) + 3
        k = 0
        while k < len(lst.items):
            if self.pybool(pc) is False:
                break
            if k >= cap:
                self.unwind.append(z3.And(pc, self.to_bool(self.cmp_num(ast.Gt, self.len_(lst, pc), k))))
                break
            n = self.len_(lst, pc)
            cond = self.to_bool(self.cmp_num(ast.Gt, n, k))
            if self.pybool(cond) is False:
                break
            nr = len(self.raises)
            item = self.slist_index(lst, k, z3.And(pc, cond))
            del self.raises[nr:]
            fr.brk, fr.cont = [], []
            if self.pybool(cond) is True:
                self.assign(st.target, item, fr, pc)
                after = self.exec_block(st.body, fr, pc)
                pc = self._merge_snapshots(fr, after, fr.cont)
            else:
                env0 = dict(fr.env)
                pin = z3.And(pc, cond)
                self.assign(st.target, item, fr, pin)
                after = self.exec_block(st.body, fr, pin)
                after = self._merge_snapshots(fr, after, fr.cont)
                pc = self._merge_snapshots(fr, after, [(z3.And(pc, z3.Not(cond)), env0)])
            all_brk.extend(fr.brk)
            k += 1
        fr.brk, fr.cont = saved
        return self._merge_snapshots(fr, pc, all_brk)

    def st_While(self, st, fr, pc):
        saved = (fr.brk, fr.cont)
        exits = []
        all_brk = []
        for _ in range(self.unroll):
            if self.pybool(pc) is False:
                break
            n0 = len(self.raises)
            c = self.to_bool(self.ev(st.test, fr, pc))
            pc = self._after_raises(pc, n0)
            cb = self.pybool(c)
            if cb is None and self.infeasible(z3.And(pc, c)):
                cb = False
            if cb is False:
                exits.append((pc, dict(fr.env)))
                pc = FALSE
                break
            if cb is not True:
                exits.append((z3.And(pc, z3.Not(c)), dict(fr.env)))
                pc = z3.And(pc, c)
            fr.brk, fr.cont = [], []
            after = self.exec_block(st.body, fr, pc)
            pc = self._merge_snapshots(fr, after, fr.cont)
            all_brk.extend(fr.brk)
        else:
            if self.pybool(pc) is not False:
                c = self.to_bool(self.ev(st.test, fr, pc))
                if self.pybool(c) is not False:
                    self.unwind.append(z3.And(pc, c))       # unwinding assertion
                exits.append((z3.And(pc, z3.Not(c)), dict(fr.env)))
                pc = FALSE
        fr.brk, fr.cont = saved
        if st.orelse:
            raise Unsupported("while-else")
        return self._merge_snapshots(fr, pc, exits + all_brk)

    def st_FunctionDef(self, st, fr, pc):
        fr.env[st.name] = Closure(st, fr.env, fr.glb)
        return pc

    # ------------------------------------------------------------------ assignment
    def assign(self, t, v, fr, pc):
        if isinstance(t, ast.Name):
            fr.env[t.id] = v
        elif isinstance(t, (ast.Tuple, ast.List)):
            vals = self.unpack(v, len(t.elts))
            for tt, vv in zip(t.elts, vals):
                self.assign(tt, vv, fr, pc)
        elif isinstance(t, ast.Attribute):
            obj = self.ev(t.value, fr, pc)
            self.setattr(obj, self.mangle(t.attr, fr), v, pc)
        elif isinstance(t, ast.Subscript):
            obj = self.ev(t.value, fr, pc)
            key = self.ev(t.slice, fr, pc)
            self.container_set(obj, key, v, pc)
        else:
            raise Unsupported(f"assign target {type(t).__name__}")

    def unpack(self, v, n):
        if isinstance(v, Guarded):
            parts = [self.unpack(x, n) for _, x in v.alts]
            out = []
            for i in range(n):
                out.append(Guarded([(c, p[i]) for (c, _), p in zip(v.alts, parts)]))
            return out
        if isinstance(v, SList):
            if not all(self.pybool(c) is True for c, _ in v.items):
                raise Unsupported("unpack of guarded list")
            v = [x for _, x in v.items]
        if isinstance(v, (tuple, list)):
            if len(v) != n:
                raise Unsupported("unpack length")
            return list(v)
        raise Unsupported(f"unpack {type(v).__name__}")

    def setattr(self, obj, attr, v, pc):
        if isinstance(obj, Guarded):
            for c, o in obj.alts:
                if not isinstance(o, Undefined) and o is not None:
                    self.setattr(o, attr, v, z3.And(pc, c))
            return
        if isinstance(obj, TimerRec):
            setattr(obj, attr, v)
            return
        if not isinstance(obj, Obj):
            if obj is None or isinstance(obj, (int, float, str, bytes, tuple, Opaque)):
                raise Unsupported(f"setattr on {type(obj).__name__}")
            obj = self.lift(obj)
        if self.is_value_class(obj.cls) and attr in obj.fields and self.depth > 0 and not getattr(self, "_in_init", False):
            self.raises.append((pc, dataclasses.FrozenInstanceError))
            return
        old = obj.fields.get(attr, UNDEF)
        obj.fields[attr] = v if self.pybool(pc) is True else self.ite(pc, v, old)


def _as_load(node):
    import copy
    n = copy.copy(node)
    n.ctx = ast.Load()
    return n
