"""Independent oracle for the ETSI wire formats (typed in from EN 302 636-4-1 V1.4.1 clause 9 and
EN 302 636-5-1 clause 7, NOT derived from the repository code).

A layout is a list of (path, bits, kind); kind: u unsigned int, s two's complement int, b bool (1 bit),
e:<Enum> enum value, z reserved (must be zero on emission), y bytes (MID), r:<Layout> nested layout.
"""
import enum
import z3
from .values import Obj, EnumSym, SBytes

GN_ADDR = [("m", 1, "e"), ("st", 5, "e"), ("_res", 10, "z"), ("mid.mid", 48, "y")]
LPV = [("gn_addr", 64, "r:GN_ADDR"), ("tst.msec", 32, "u"), ("latitude", 32, "s"), ("longitude", 32, "s"),
       ("pai", 1, "b"), ("s", 15, "s"), ("h", 16, "u")]
SPV = [("gn_addr", 64, "r:GN_ADDR"), ("tst.msec", 32, "u"), ("latitude", 32, "s"), ("longitude", 32, "s")]
BASIC = [("version", 4, "u"), ("nh", 4, "e"), ("reserved", 8, "u"), ("lt.multiplier", 6, "u"), ("lt.base", 2, "e"), ("rhl", 8, "u")]
TC = [("scf", 1, "b"), ("channel_offload", 1, "b"), ("tc_id", 6, "u")]
COMMON = [("nh", 4, "e"), ("_res1", 4, "z"), ("ht", 4, "e"), ("hst", 4, "e"), ("tc", 8, "r:TC"), ("flags", 8, "u"),
          ("pl", 16, "u"), ("mhl", 8, "u"), ("_res2", 8, "z")]
GBC = [("sn", 16, "u"), ("reserved", 16, "u"), ("so_pv", 192, "r:LPV"), ("latitude", 32, "s"), ("longitude", 32, "s"),
       ("a", 16, "u"), ("b", 16, "u"), ("angle", 16, "u"), ("reserved2", 16, "u")]
TSB = [("sn", 16, "u"), ("reserved", 16, "u"), ("so_pv", 192, "r:LPV")]
GUC = [("sn", 16, "u"), ("reserved", 16, "u"), ("so_pv", 192, "r:LPV"), ("de_pv", 160, "r:SPV")]
LSREQ = [("sn", 16, "u"), ("reserved", 16, "u"), ("so_pv", 192, "r:LPV"), ("request_gn_addr", 64, "r:GN_ADDR")]
LSREP = GUC
BTPA = [("destination_port", 16, "u"), ("source_port", 16, "u")]
BTPB = [("destination_port", 16, "u"), ("destination_port_info", 16, "u")]
LAYOUTS = {"GN_ADDR": GN_ADDR, "LPV": LPV, "SPV": SPV, "BASIC": BASIC, "TC": TC, "COMMON": COMMON, "GBC": GBC,
           "TSB": TSB, "GUC": GUC, "LSREQ": LSREQ, "LSREP": LSREP, "BTPA": BTPA, "BTPB": BTPB}


def total_bits(layout):
    return sum(b for _, b, _ in layout)


def flat(layout, prefix=""):
    """flatten nested layouts -> [(path, offset_from_msb, bits, kind)]"""
    out, off = [], 0
    for path, bits, kind in layout:
        if kind.startswith("r:"):
            for p, o, b, k in flat(LAYOUTS[kind[2:]], prefix + path + "."):
                out.append((p, off + o, b, k))
        else:
            out.append((prefix + path, off, bits, kind))
        off += bits
    return out


def get_path(obj, path):
    for part in path.split("."):
        obj = obj.fields[part] if isinstance(obj, Obj) else getattr(obj, part)
    return obj


def bits_of_bytes(sb):
    """SBytes / bytes -> one BitVec of 8*len bits"""
    bs = [b if isinstance(b, z3.ExprRef) else z3.BitVecVal(b, 8) for b in (sb.bs if isinstance(sb, SBytes) else sb)]
    return z3.Concat(*bs) if len(bs) > 1 else bs[0]


def field_bits(I, v, bits, kind):
    """value held by the implementation object -> BitVec(bits) as the standard says it goes on the wire,
    plus the condition under which the value is representable"""
    if kind == "y":
        return bits_of_bytes(v), z3.BoolVal(True)
    if kind == "b":
        c = I.to_bool(v)
        return z3.If(c, z3.BitVecVal(1, 1), z3.BitVecVal(0, 1)), z3.BoolVal(True)
    if kind == "e":
        if isinstance(v, enum.Enum):
            return z3.BitVecVal(v.value, bits), z3.BoolVal(True)
        if isinstance(v, EnumSym):
            v = v.val
    if isinstance(v, bool):
        v = int(v)
    if isinstance(v, int):
        return z3.BitVecVal(v, bits), z3.BoolVal(True)
    if isinstance(v, z3.BoolRef):
        v = I.num(v)
    W = v.size()
    lo = z3.Extract(bits - 1, 0, v)
    if kind == "s":
        ok = z3.And(v >= z3.BitVecVal(-(1 << (bits - 1)), W), v < z3.BitVecVal(1 << (bits - 1), W))
    else:
        ok = z3.And(v >= z3.BitVecVal(0, W), v < z3.BitVecVal(1 << bits, W))
    return lo, ok


def spec_pack(I, obj, layout):
    """-> (BitVec of the whole header as the standard prescribes, representability condition)"""
    parts, oks = [], []
    for path, off, bits, kind in flat(layout):
        if kind == "z":
            parts.append(z3.BitVecVal(0, bits))
            continue
        b, ok = field_bits(I, get_path(obj, path), bits, kind)
        parts.append(b)
        oks.append(ok)
    return z3.Concat(*parts), z3.And(*oks)


def field_equals(I, v, wire, bits, kind):
    """decoded implementation value v == what the wire bits mean"""
    from .values import Guarded
    if isinstance(v, Guarded):
        return z3.Or(*[z3.And(c, field_equals(I, x, wire, bits, kind)) for c, x in v.alts])
    if kind == "y":
        return bits_of_bytes(v) == wire
    if kind == "b":
        return I.to_bool(v) == (wire == z3.BitVecVal(1, 1))
    if kind == "e":
        v = v.val if isinstance(v, EnumSym) else v.value
    if isinstance(v, z3.BoolRef):
        v = I.num(v)
    if isinstance(v, int):
        v = I.const(v)
    W = v.size()
    ext = z3.SignExt(W - bits, wire) if kind == "s" else z3.ZeroExt(W - bits, wire)
    return v == ext


def spec_unpack_eq(I, obj, wirebits, layout, skip=()):
    """list of (path, condition 'decoded field equals the wire') for every non-reserved field"""
    n = wirebits.size()
    out = []
    for path, off, bits, kind in flat(layout):
        if kind == "z" or path in skip:
            continue
        w = z3.Extract(n - off - 1, n - off - bits, wirebits)
        out.append((path, field_equals(I, get_path(obj, path), w, bits, kind)))
    return out


def enum_valid(wirebits, layout, enums):
    """condition: every enum-typed field on the wire holds a defined member; enums: path -> Enum class
    (or callable(wirebits_extractor) for context dependent ones)"""
    n = wirebits.size()
    conds = []
    for path, off, bits, kind in flat(layout):
        if kind == "e" and path in enums:
            w = z3.Extract(n - off - 1, n - off - bits, wirebits)
            conds.append(z3.Or(*[w == z3.BitVecVal(m.value, bits) for m in enums[path]]))
    return z3.And(*conds) if conds else z3.BoolVal(True)


def wire_field(wirebits, layout, path):
    n = wirebits.size()
    for p, off, bits, kind in flat(layout):
        if p == path:
            return z3.Extract(n - off - 1, n - off - bits, wirebits)
    raise KeyError(path)


# ------------------------------------------------------------------ concrete reference codec (for replays)
def ref_pack(values, layout):
    """values: path -> python int/bool/bytes ; returns bytes per the standard"""
    acc, n = 0, 0
    for path, off, bits, kind in flat(layout):
        if kind == "z":
            v = 0
        else:
            v = values[path]
            if kind == "y":
                v = int.from_bytes(v, "big")
            elif kind == "e" and isinstance(v, enum.Enum):
                v = v.value
            v = int(v) & ((1 << bits) - 1)
        acc = (acc << bits) | v
        n += bits
    return acc.to_bytes(n // 8, "big")


def ref_unpack(data, layout):
    n = total_bits(layout)
    acc = int.from_bytes(data[: n // 8], "big")
    out = {}
    for path, off, bits, kind in flat(layout):
        v = (acc >> (n - off - bits)) & ((1 << bits) - 1)
        if kind == "s" and v >= 1 << (bits - 1):
            v -= 1 << bits
        if kind == "b":
            v = bool(v)
        if kind == "y":
            v = v.to_bytes(bits // 8, "big")
        out[path] = v
    return out


def real_get(obj, path):
    for part in path.split("."):
        obj = getattr(obj, part)
    if isinstance(obj, enum.Enum):
        return obj.value
    return obj
