"""Deterministic replay of an `ilv` schedule on the real objects: real threads, one running at a time, switching exactly at
the yield points of the encoding (outermost lock acquisitions and accesses to shared fields that are not protected by a
lock the thread holds).  No change to /repo: the instance gets a dynamically created subclass whose attribute access is gated,
and its locks are wrapped."""
import threading


class Scheduler:
    def __init__(self, order, timeout=10.0):
        # thread names, one entry per executed block, in global order; "name+" marks a first block that began at the thread's start
        self.merged_threads = {x[:-1] for x in order if x.endswith("+")}
        self.order = [x.rstrip("+") for x in order]
        self.pos = 0
        self.running = None
        self.cv = threading.Condition()
        self.timeout = timeout
        self.failed = None
        self.done = set()
        self.trace = []
        self.merge_first = set()          # threads whose start segment and first block are one atomic block
        self.clean = {}                   # thread -> no shared field touched since its last lock-acquisition gate
        self.locks = []                   # all gated locks

    def gate(self, name, what):
        """called by thread `name` at a yield point: give up the processor and wait for its next slot"""
        with self.cv:
            if name in self.merge_first and what != "start":
                # the first yield point of a thread continues the block that began at its start
                self.merge_first.discard(name)
                self.trace.append((name, what + " (same block)"))
                self.clean[name] = what.startswith("acquire")
                return
            if self.running == name:
                self.running = None
                self.cv.notify_all()
            ok = self.cv.wait_for(lambda: self.failed or (self.running is None and self._next_is(name)), timeout=self.timeout)
            if not ok or self.failed:
                self.failed = self.failed or f"thread {name} starved at {what} (slot {self.pos}, expected {self.order[self.pos:self.pos + 3]})"
                self.cv.notify_all()
                raise SystemExit
            self.running = name
            self.pos += 1
            self.trace.append((name, what))
            self.clean[name] = what.startswith("acquire")

    def _next_is(self, name):
        # skip slots of threads that have already finished (their remaining blocks had a false path condition in the model)
        while self.pos < len(self.order) and self.order[self.pos] in self.done:
            self.pos += 1
        if self.pos >= len(self.order):
            return True          # schedule exhausted: let the remaining threads finish in any order
        return self.order[self.pos] == name

    def finish(self, name):
        with self.cv:
            self.done.add(name)
            if self.running == name:
                self.running = None
            self.cv.notify_all()


class UnitScheduler(Scheduler):
    """reference executions: a thread is switched only where one of its atomic units starts (unit_start(thread, what)); one
    schedule entry per unit"""

    def __init__(self, order, unit_start, timeout=10.0):
        super().__init__(order, timeout)
        self.unit_start = unit_start
        self.merged_threads = set()

    def gate(self, name, what):
        if what != "start" and not self.unit_start(name, what):
            return
        super().gate(name, what)


class GateLock:
    def __init__(self, real, sched, name):
        self.real, self.sched, self.name = real, sched, name
        self.depth = {}
        sched.locks.append(self)

    def __enter__(self):
        me = threading.current_thread().name
        nested_clean = self.sched.clean.get(me) and any(l is not self and l.depth.get(me, 0) > 0 for l in self.sched.locks)
        if self.depth.get(me, 0) == 0 and me in _REGISTERED and not nested_clean:
            import sys
            self.sched.gate(me, "acquire " + self.name + " in " + sys._getframe(1).f_code.co_name)
        self.depth[me] = self.depth.get(me, 0) + 1
        self.real.acquire()
        return self

    def __exit__(self, *a):
        me = threading.current_thread().name
        self.real.release()
        self.depth[me] -= 1
        return False

    def acquire(self, *a, **k):
        self.__enter__()
        return True

    def release(self):
        self.__exit__()

    def held_by_me(self):
        return self.depth.get(threading.current_thread().name, 0) > 0


_REGISTERED = set()


def gate_object(obj, fields, sched, und_names):
    """fields: {field name: lock field name or None}"""
    locks = {}
    for f, lk in fields.items():
        if lk and lk not in locks:
            real = object.__getattribute__(obj, lk)
            if not isinstance(real, GateLock):
                real = GateLock(real, sched, lk)
                object.__setattr__(obj, lk, real)
            locks[lk] = real
    base = type(obj)

    def need_gate(name):
        me = threading.current_thread().name
        if me not in _REGISTERED or name not in fields:
            return False
        sched.clean[me] = False
        lk = fields[name]
        if lk and name not in und_names and locks[lk].held_by_me():
            return False
        return True

    class Gated(base):
        def __getattribute__(self, name):
            if need_gate(name):
                sched.gate(threading.current_thread().name, "read " + name)
            return base.__getattribute__(self, name)

        def __setattr__(self, name, value):
            if need_gate(name):
                sched.gate(threading.current_thread().name, "write " + name)
            return base.__setattr__(self, name, value)
    Gated.__name__ = base.__name__
    Gated.__qualname__ = base.__qualname__
    object.__setattr__(obj, "__class__", Gated)
    return locks


def run_schedule(order, thread_fns, sched=None, mk_thread=None):
    """thread_fns: {name: callable}; returns ({name: result or exception}, scheduler).
    mk_thread: optional {name: factory(target, name) -> Thread} for actors that must be a particular kind of thread (a Timer)"""
    results = {}
    mk_thread = mk_thread or {}

    def runner(name, fn):
        try:
            if name in getattr(sched, "merged_threads", ()):
                sched.merge_first.add(name)
            sched.gate(name, "start")
            results[name] = ("ok", fn())
        except SystemExit:
            results[name] = ("aborted", None)
        except BaseException as e:          # noqa
            results[name] = ("raised", e)
        finally:
            sched.finish(name)
    _REGISTERED.clear()
    _REGISTERED.update(thread_fns)
    ths = [mk_thread[n](lambda n=n, f=f: runner(n, f), n) if n in mk_thread else threading.Thread(target=runner, args=(n, f), name=n, daemon=True)
           for n, f in thread_fns.items()]
    for t in ths:
        t.start()
    for t in ths:
        t.join(sched.timeout + 5)
    _REGISTERED.clear()
    return results, sched
