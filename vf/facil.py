"""Shared harness pieces for the facilities-layer VCs (C11-C18): clock, logger, coder and BTP stubs, nested dict access."""
import ast
import z3
from .values import Obj, Opaque, SBytes, SDict, SList, Guarded, Undefined, UNDEF
from .interp import TRUE, FALSE, Frame, function_ast


def logger(I):
    lg = Opaque("logger")
    I.stubs[id(lg)] = lambda it, name, a, k, pc: None
    return lg


class Clock:
    """TimeService.time / time.time stub: arbitrary non-decreasing reals; sleep(d) moves the clock by exactly d"""

    def __init__(self, I, lo=1.6e9, hi=2.3e9, name="now"):
        self.I, self.lo, self.hi, self.name = I, lo, hi, name
        self.reads = []           # (pc, term)
        self.offset = None        # accumulated sleep (real term)

    def read(self, it, a, k, pc):
        t = it.float_var(f"{self.name}{len(self.reads)}", self.lo, self.hi)
        if self.reads:
            it.assumptions.append(t >= self.reads[-1][1])
        self.reads.append((pc, t))
        return t

    def vars(self):
        return {t.decl().name(): t for _, t in self.reads}


def path_get(I, d, *keys, pc=TRUE):
    """value at a dotted path of a (possibly guarded / partial) symbolic dict; raises recorded in I.raises"""
    v = d
    for k in keys:
        v = I.container_get(v, k, pc)
    return v


def path_has(I, d, *keys, pc=TRUE):
    """condition under which the whole path exists"""
    cond = TRUE
    v = d
    for k in keys:
        v = strip(I, v)
        if isinstance(v, Guarded):
            alts = []
            for c, x in v.alts:
                if isinstance(x, Undefined) or x is None:
                    continue
                alts.append(z3.And(c, path_has(I, x, *keys[keys.index(k):], pc=pc)))
            return z3.And(cond, z3.Or(*alts)) if alts else FALSE
        if not isinstance(v, (SDict, dict)):
            return FALSE
        found, val = I.sdict_lookup(I._as_sdict(v), k, pc)
        cond = z3.And(cond, I._lb(found))
        v = val
    return z3.simplify(cond)


def strip(I, v):
    return v


def drop_raises(I, n0):
    """forget raise outcomes recorded while the harness itself navigated a structure"""
    del I.raises[n0:]


def find_node(fn, kind, nth=0):
    """nth AST node of the given type inside the real function's current source"""
    node = function_ast(fn)
    found = [n for n in ast.walk(node) if isinstance(n, kind)]
    found.sort(key=lambda n: (n.lineno, n.col_offset))
    return found[nth]


def cond_or(conds):
    conds = list(conds)
    return z3.simplify(z3.Or(*conds)) if conds else FALSE


def num_eq(I, v, expected):
    """condition: value v (possibly guarded / None) equals the integer term `expected`"""
    if isinstance(v, Guarded):
        return z3.Or(*[z3.And(c, num_eq(I, x, expected)) for c, x in v.alts])
    if v is None or isinstance(v, Undefined):
        return FALSE
    if isinstance(v, (Obj, Opaque, SDict, SList, str, bytes, SBytes, tuple)):
        return FALSE
    return I._lb(I.cmp_num(ast.Eq, v, expected))


def val_eq(I, a, b):
    """condition: two integer-like values (each possibly guarded / None / undefined) are both defined and equal"""
    if isinstance(b, Guarded):
        return z3.Or(*[z3.And(c, val_eq(I, a, x)) for c, x in b.alts])
    if b is None or isinstance(b, Undefined) or isinstance(b, (Obj, Opaque, SDict, SList, str, bytes, SBytes, tuple)):
        return FALSE
    return num_eq(I, a, b)


def val_cmp(I, op, a, b):
    """condition: both defined and a <op> b (numeric)"""
    if isinstance(a, Guarded):
        return z3.Or(*[z3.And(c, val_cmp(I, op, x, b)) for c, x in a.alts])
    if isinstance(b, Guarded):
        return z3.Or(*[z3.And(c, val_cmp(I, op, a, x)) for c, x in b.alts])
    for v in (a, b):
        if v is None or isinstance(v, Undefined) or isinstance(v, (Obj, Opaque, SDict, SList, str, bytes, SBytes, tuple)):
            return FALSE
    return I._lb(I.cmp_num(op, a, b))


def as_num(I, v):
    """numeric term of a possibly guarded value (undefined / non-numeric alternatives are dropped)"""
    if not isinstance(v, Guarded):
        return I.num(v)
    alts = [(c, x) for c, x in v.alts if not isinstance(x, Undefined) and x is not None and not isinstance(x, (Obj, Opaque, SDict, SList, str, bytes, SBytes, tuple))]
    res = as_num(I, alts[-1][1])
    for c, x in reversed(alts[:-1]):
        res = z3.If(c, as_num(I, x), res)
    return res
