"""Arithmetic layer of the evaluator: int sort (bv|int), float sort (real|fp|err), ite/merge."""
import ast
import dataclasses
import enum
import operator as _op
import z3
from .values import (Unsupported, Obj, EnumSym, SBytes, Guarded, Opaque, SList, SDict, UNDEF, Undefined, UNSIGNED_VARS)

_PYOPS = {ast.Add: _op.add, ast.Sub: _op.sub, ast.Mult: _op.mul, ast.Div: _op.truediv,
          ast.FloorDiv: _op.floordiv, ast.Mod: _op.mod, ast.Pow: _op.pow, ast.LShift: _op.lshift,
          ast.RShift: _op.rshift, ast.BitOr: _op.or_, ast.BitAnd: _op.and_, ast.BitXor: _op.xor}
_PYCMP = {ast.Eq: _op.eq, ast.NotEq: _op.ne, ast.Lt: _op.lt, ast.LtE: _op.le, ast.Gt: _op.gt, ast.GtE: _op.ge}

RNE = z3.RNE()


def _fpnum(t):
    import struct
    bv = z3.simplify(z3.fpToIEEEBV(t))
    return struct.unpack(">d", bv.as_long().to_bytes(8, "big"))[0]
RTZ = z3.RTZ()
F64 = z3.Float64()


class Arith:
    """mode: 'bv' (ints are BitVec(W)) or 'int' (ints are z3 Int).
    fmode: 'real' (floats are z3 Real), 'fp' (Float64, RNE; int() truncates), 'err' (reals with a fresh
    relative error |d|<=2^-53 per float operation; sound over-approximation of binary64 without
    overflow/underflow)."""

    def __init__(self, mode="bv", width=256, fmode="real"):
        self.mode, self.W, self.fmode = mode, width, fmode
        self.rbound = {}         # id of a Real/Int term -> upper bound on its absolute value (err-mode absolute errors)
        self.int_origin = {}     # id of a Real term that is exactly float(int term) -> that int term
        self.mag = {}            # z3 ast id -> bits b with |value| < 2^b   (bv mode overflow tracking)
        self.assumptions = []    # global side constraints (err-mode deltas, declared ranges)
        self._nfresh = 0

    # ------------------------------------------------------------ sorts
    def fresh(self, prefix):
        self._nfresh += 1
        return f"{prefix}!{self._nfresh}"

    def is_int_term(self, v):
        if self.mode == "bv":
            return isinstance(v, z3.BitVecRef) and v.size() == self.W
        return isinstance(v, z3.ArithRef) and v.is_int()

    def is_float_term(self, v):
        if isinstance(v, z3.FPRef):
            return True
        return isinstance(v, z3.ArithRef) and v.is_real()

    def is_sym(self, v):
        return isinstance(v, (z3.ExprRef, Obj, EnumSym, SBytes, Guarded, SList, SDict))

    def const(self, v):
        if isinstance(v, bool):
            return z3.BoolVal(v)
        if isinstance(v, int):
            if self.mode == "bv":
                if not (-(1 << (self.W - 1)) <= v < (1 << (self.W - 1))):
                    raise Unsupported(f"constant {v.bit_length()} bits exceeds BV width {self.W}")
                t = z3.BitVecVal(v, self.W)
                self.mag[t.get_id()] = abs(v).bit_length()
                return t
            return z3.IntVal(v)
        if isinstance(v, float):
            return self.fconst(v)
        raise Unsupported(f"const({type(v).__name__})")

    def fconst(self, v):
        if v != v or v in (float("inf"), float("-inf")):
            raise Unsupported("inf/nan constant")
        if self.fmode == "fp":
            return z3.FPVal(v, F64)
        import fractions
        fr = fractions.Fraction(v)      # exact value of the double
        return z3.RealVal(f"{fr.numerator}/{fr.denominator}")

    def int_var(self, name, lo=None, hi=None):
        """fresh symbolic int; range becomes an assumption; returns the term"""
        if self.mode == "bv":
            if lo is None or hi is None:
                raise Unsupported("bv int_var needs a range")
            # a narrow variable extended to W bits: the unused high bits are syntactically constant, so packed
            # header octets that do not depend on the variable fold to constants
            if lo >= 0:
                k = max(hi.bit_length(), 1)
                v = z3.BitVec(name, k)
                UNSIGNED_VARS.add(name)
                t = z3.ZeroExt(self.W - k, v) if k < self.W else v
                if hi != (1 << k) - 1:
                    self.assumptions.append(z3.ULE(v, z3.BitVecVal(hi, k)))
                if lo > 0:
                    self.assumptions.append(z3.UGE(v, z3.BitVecVal(lo, k)))
            else:
                k = max(max(hi.bit_length(), (-lo - 1).bit_length()) + 1, 9)     # >8 bits: read back as signed
                v = z3.BitVec(name, k)
                t = z3.SignExt(self.W - k, v) if k < self.W else v
                self.assumptions.append(z3.And(v >= z3.BitVecVal(lo, k), v <= z3.BitVecVal(hi, k)))
            self.mag[t.get_id()] = max(abs(lo), abs(hi)).bit_length()
        else:
            t = z3.Int(name)
            if lo is not None:
                self.assumptions.append(t >= lo)
            if hi is not None:
                self.assumptions.append(t <= hi)
            if lo is not None and hi is not None:
                self.rbound[t.get_id()] = float(max(abs(lo), abs(hi)))
        return t

    def float_var(self, name, lo=None, hi=None):
        if self.fmode == "fp":
            t = z3.FP(name, F64)
            self.assumptions.append(z3.Not(z3.fpIsNaN(t)))
            self.assumptions.append(z3.Not(z3.fpIsInf(t)))
            if lo is not None:
                self.assumptions.append(z3.fpGEQ(t, z3.FPVal(lo, F64)))
            if hi is not None:
                self.assumptions.append(z3.fpLEQ(t, z3.FPVal(hi, F64)))
            if lo is not None and hi is not None:
                self.rbound[t.get_id()] = float(max(abs(lo), abs(hi)))
            return t
        t = z3.Real(name)
        if lo is not None:
            self.assumptions.append(t >= self.fconst(float(lo)))
        if hi is not None:
            self.assumptions.append(t <= self.fconst(float(hi)))
        if lo is not None and hi is not None:
            self.rbound[t.get_id()] = float(max(abs(lo), abs(hi)))
        return t

    def bits(self, t):
        if not isinstance(t, z3.ExprRef):
            return abs(int(t)).bit_length()
        return self.mag.get(t.get_id(), self.W - 1)

    def _setmag(self, t, b):
        if b > self.W - 2:
            raise Unsupported(f"possible overflow of BV width {self.W} (needs {b} bits)")
        self.mag[t.get_id()] = b
        return t

    # ------------------------------------------------------------ conversions
    def num(self, v):
        if isinstance(v, z3.BoolRef):
            t = z3.If(v, self.const(1), self.const(0))
            if self.mode == "bv":
                self.mag[t.get_id()] = 1
            return t
        if isinstance(v, z3.ExprRef):
            return v
        if isinstance(v, bool):
            return self.const(int(v))
        if isinstance(v, (int, float)):
            return self.const(v)
        if isinstance(v, Undefined):
            from .interp import UndefinedUse
            raise UndefinedUse("arithmetic on an undefined value")
        raise Unsupported(f"num({type(v).__name__}: {v!r})")

    def to_float(self, v):
        """int/float python or term -> float-sort term"""
        if isinstance(v, bool):
            v = int(v)
        if isinstance(v, (int, float)):
            return self.fconst(float(v))
        if isinstance(v, z3.BoolRef):
            v = self.num(v)
        if self.is_float_term(v):
            return v
        if isinstance(v, z3.BitVecRef) and self.fmode == "fp":
            return z3.fpSignedToFP(RNE, v, F64)
        if isinstance(v, z3.BitVecRef):
            r = z3.ToReal(self.bv2int(v))
        elif isinstance(v, z3.ArithRef) and v.is_int():
            r = z3.ToReal(v)
        else:
            raise Unsupported(f"to_float({v})")
        if self.fmode == "fp":
            return z3.fpRealToFP(RNE, r, F64)
        self.int_origin[r.get_id()] = v          # float(i): remember the integer it came from
        if isinstance(v, z3.ExprRef) and v.get_id() in self.rbound:
            self.rbound[r.get_id()] = self.rbound[v.get_id()]
        return r                       # err mode: ints below 2^53 convert exactly

    def bv2int(self, v):
        """signed value of a W-bit term as z3 Int, using the tracked magnitude to keep the conversion narrow"""
        b = self.mag.get(v.get_id())
        if b is not None and b + 1 < v.size():
            v = z3.Extract(b, 0, v)
        return z3.BV2Int(v, True)

    def float_to_int(self, v):
        """python int(float): truncation toward zero, returns int-sort term"""
        if isinstance(v, z3.FPRef):
            if self.mode == "bv":
                # pure QF_BVFP; the magnitude of the result follows from the tracked bound of the float term
                t = z3.fpToSBV(RTZ, v, z3.BitVecSort(self.W))
                b = self.rbound.get(v.get_id())
                if b is not None and b < 2.0 ** (self.W - 3):
                    self.mag[t.get_id()] = int(b + 1).bit_length()
                return t
            r = z3.fpToReal(z3.fpRoundToIntegral(RTZ, v))
            i = z3.ToInt(r)
        else:
            i = z3.If(v >= 0, z3.ToInt(v), -z3.ToInt(-v))
        if self.mode == "bv":
            t = z3.Int2BV(i, self.W)
            return t
        return i

    def to_bool(self, v):
        if isinstance(v, Undefined):
            from .interp import UndefinedUse
            raise UndefinedUse("truth value of an undefined value")
        if isinstance(v, Guarded):
            return self.dist(v, self.to_bool)
        if isinstance(v, z3.BoolRef):
            return v
        if isinstance(v, bool):
            return z3.BoolVal(v)
        if isinstance(v, z3.FPRef):
            return z3.Not(z3.fpIsZero(v))
        if isinstance(v, z3.ExprRef):
            return v != (self.const(0) if self.is_int_term(v) else z3.RealVal(0))
        if v is None:
            return z3.BoolVal(False)
        if isinstance(v, SBytes):
            return z3.BoolVal(len(v.bs) > 0)
        if isinstance(v, SList):
            return z3.Or(*[c for c, _ in v.items]) if v.items else z3.BoolVal(False)
        if isinstance(v, (Obj, EnumSym, Opaque)):
            if isinstance(v, Obj) and hasattr(v.cls, "__len__") or isinstance(v, Obj) and hasattr(v.cls, "__bool__"):
                raise Unsupported("truthiness of object with __len__/__bool__")
            return z3.BoolVal(True)
        if isinstance(v, SDict):
            live = [c for c, _, _ in self.sdict_entries(v)]
            return z3.simplify(z3.Or(*live)) if live else z3.BoolVal(False)
        return z3.BoolVal(bool(v))

    def pybool(self, c):
        """True/False if the condition is syntactically decided, else None"""
        if isinstance(c, bool):
            return c
        s = z3.simplify(c)
        if z3.is_true(s):
            return True
        if z3.is_false(s):
            return False
        return None

    # ------------------------------------------------------------ merge
    def enum_sym(self, v):
        if isinstance(v, EnumSym):
            return v
        if isinstance(v, enum.Enum):
            if not isinstance(v.value, int):
                raise Unsupported("non-int enum in merge")
            return EnumSym(type(v), self.const(v.value))
        raise Unsupported(f"not enum {v!r}")

    def ite(self, c, a, b):
        if a is b:
            return a
        pb = self.pybool(c)
        if pb is True:
            return a
        if pb is False:
            return b
        if isinstance(a, Undefined) or isinstance(b, Undefined):
            return Guarded([(c, a), (z3.Not(c), b)])
        if isinstance(a, SDict) and isinstance(b, SDict) and a.is_set == b.is_set:
            nc = z3.Not(c)
            return SDict([(z3.simplify(z3.And(c, x[0])),) + tuple(x[1:]) for x in a.log] +
                         [(z3.simplify(z3.And(nc, x[0])),) + tuple(x[1:]) for x in b.log], a.is_set)
        if isinstance(a, SList) and isinstance(b, SList) and a.maxlen == b.maxlen:
            nc = z3.Not(c)
            return SList([(z3.simplify(z3.And(c, x)), v) for x, v in a.items] +
                         [(z3.simplify(z3.And(nc, x)), v) for x, v in b.items], a.maxlen)
        if isinstance(a, Guarded) or isinstance(b, Guarded):
            return Guarded([(c, a), (z3.Not(c), b)])
        if isinstance(a, Obj) or isinstance(b, Obj):
            # immutable value objects of the same dataclass merge field-wise; identities stay apart
            if (isinstance(a, Obj) and isinstance(b, Obj) and a.cls is b.cls and self.is_value_class(a.cls)
                    and a.fields.keys() == b.fields.keys()):
                return Obj(a.cls, {k: self.ite(c, a.fields[k], b.fields[k]) for k in a.fields})
            if (isinstance(a, Obj) and self.is_value_class(a.cls) and type(b) is a.cls):
                return self.ite(c, a, self.lift_value(b))
            if (isinstance(b, Obj) and self.is_value_class(b.cls) and type(a) is b.cls):
                return self.ite(c, self.lift_value(a), b)
            return Guarded([(c, a), (z3.Not(c), b)])
        if isinstance(a, (EnumSym, enum.Enum)) and isinstance(b, (EnumSym, enum.Enum)):
            try:
                ea, eb = self.enum_sym(a), self.enum_sym(b)
            except Unsupported:
                return Guarded([(c, a), (z3.Not(c), b)])
            if ea.cls is eb.cls:
                t = z3.If(c, ea.val, eb.val)
                if self.mode == "bv":
                    self.mag[t.get_id()] = max(self.bits(ea.val), self.bits(eb.val))
                return EnumSym(ea.cls, t)
            return Guarded([(c, a), (z3.Not(c), b)])
        if isinstance(a, (SBytes, bytes)) and isinstance(b, (SBytes, bytes)) and len(a) == len(b):
            x, y = self.sbytes(a), self.sbytes(b)
            return SBytes([z3.If(c, p, q) for p, q in zip(x.bs, y.bs)])
        if isinstance(a, tuple) and isinstance(b, tuple) and len(a) == len(b):
            return tuple(self.ite(c, p, q) for p, q in zip(a, b))
        if not self.is_sym(a) and not self.is_sym(b):
            try:
                if type(a) is type(b) and a == b:
                    return a
            except Exception:
                pass
        num_like = (int, float, bool, z3.ExprRef)
        if isinstance(a, num_like) and isinstance(b, num_like) and a is not None and b is not None:
            if isinstance(a, (bool, z3.BoolRef)) and isinstance(b, (bool, z3.BoolRef)):
                return z3.If(c, self.to_bool(a), self.to_bool(b))
            fa = isinstance(a, float) or self.is_float_term(a)
            fb = isinstance(b, float) or self.is_float_term(b)
            if fa or fb:
                # int/float unions keep python's type distinction only when both are floats
                if fa and fb:
                    return z3.If(c, self.to_float(a), self.to_float(b))
                return Guarded([(c, a), (z3.Not(c), b)])
            x, y = self.num(a), self.num(b)
            t = z3.If(c, x, y)
            if self.mode == "bv":
                self.mag[t.get_id()] = max(self.bits(x), self.bits(y))
            return t
        return Guarded([(c, a), (z3.Not(c), b)])

    def is_value_class(self, cls):
        p = getattr(cls, "__dataclass_params__", None)
        return p is not None and p.frozen

    def lift_value(self, o):
        """frozen dataclass instance -> Obj with lifted fields"""
        return Obj(type(o), {f.name: getattr(o, f.name) for f in dataclasses.fields(o)}, origin=o)

    def dist(self, g, f):
        res, first = None, True
        for c, v in reversed(g.alts):
            if isinstance(v, Undefined):
                continue
            r = f(v)
            res = r if first else self.ite(c, r, res)
            first = False
        if first:
            from .interp import UndefinedUse
            raise UndefinedUse("use of undefined value")
        return res

    def dist_pc(self, g, pc, f):
        """like dist, but f also receives the path condition strengthened by the alternative's guard"""
        res, first = None, True
        for c, v in reversed(g.alts):
            if isinstance(v, Undefined):
                continue
            r = f(v, z3.And(pc, c))
            res = r if first else self.ite(c, r, res)
            first = False
        if first:
            from .interp import UndefinedUse
            raise UndefinedUse("use of undefined value")
        return res

    def sbytes(self, v):
        if isinstance(v, SBytes):
            return v
        if isinstance(v, (bytes, bytearray)):
            return SBytes([z3.BitVecVal(c, 8) for c in v])
        raise Unsupported(f"not bytes: {type(v).__name__}")

    # ------------------------------------------------------------ binary operators
    def binop(self, op, a, b, pc):
        if isinstance(a, Undefined) or isinstance(b, Undefined):
            from .interp import UndefinedUse
            raise UndefinedUse("operator on an undefined value")
        if a is None or b is None:
            self.raises.append((pc, TypeError))
            return UNDEF
        if isinstance(a, Guarded):
            return self.dist_pc(a, pc, lambda v, p: self.binop(op, v, b, p))
        if isinstance(b, Guarded):
            return self.dist_pc(b, pc, lambda v, p: self.binop(op, a, v, p))
        t = type(op)
        if isinstance(a, (SBytes, bytes, bytearray)) and isinstance(b, (SBytes, bytes, bytearray)):
            if t is ast.Add:
                if not isinstance(a, SBytes) and not isinstance(b, SBytes):
                    return bytes(a) + bytes(b)
                return SBytes(self.sbytes(a).bs + self.sbytes(b).bs)
            raise Unsupported("bytes op")
        if t is ast.Add and isinstance(a, Opaque) and isinstance(b, Opaque) and getattr(a, "term", None) is not None and getattr(b, "term", None) is not None:
            return self.blob_concat(a, b)
        if isinstance(a, (Opaque, str)) or isinstance(b, (Opaque, str)):
            if isinstance(a, str) and isinstance(b, str) and t is ast.Add:
                return a + b
            if isinstance(a, str) and t is ast.Mod:
                return Opaque("str")
            return Opaque("str")
        if isinstance(a, SList) or isinstance(b, SList):
            if t is ast.Add and isinstance(a, (SList, list)) and isinstance(b, (SList, list)):
                la = a.items if isinstance(a, SList) else [(z3.BoolVal(True), x) for x in a]
                lb = b.items if isinstance(b, SList) else [(z3.BoolVal(True), x) for x in b]
                return SList(list(la) + list(lb))
            raise Unsupported("list arithmetic on SList")
        if not self.is_sym(a) and not self.is_sym(b):
            if t in (ast.Div, ast.FloorDiv, ast.Mod) and b == 0:
                self.raises.append((pc, ZeroDivisionError))
                return 0
            try:
                return _PYOPS[t](a, b)
            except TypeError:
                self.raises.append((pc, TypeError))
                return UNDEF
        if isinstance(a, (Obj, EnumSym)) or isinstance(b, (Obj, EnumSym)):
            return self.obj_binop(op, a, b, pc)
        fa = isinstance(a, float) or self.is_float_term(a)
        fb = isinstance(b, float) or self.is_float_term(b)
        if fa or fb or t is ast.Div:
            return self.binop_float(t, a, b, pc)
        if isinstance(a, z3.BoolRef) or isinstance(b, z3.BoolRef):
            if t in (ast.BitAnd, ast.BitOr) and isinstance(a, (bool, z3.BoolRef)) and isinstance(b, (bool, z3.BoolRef)):
                return (z3.And if t is ast.BitAnd else z3.Or)(self.to_bool(a), self.to_bool(b))
        if self.mode == "bv":
            return self.binop_bv(t, a, b, pc)
        return self.binop_int(t, a, b, pc)

    def blob_concat(self, a, b):
        """concatenation of two ideal byte strings: an injective pairing of the terms they stand for"""
        f = z3.Function("Concat2", z3.IntSort(), z3.IntSort(), z3.IntSort())
        r = f(a.term, b.term)
        pairs = self.__dict__.setdefault("_concat_apps", [])
        for r2, x2, y2 in pairs:
            self.assumptions.append(z3.Implies(r == r2, z3.And(a.term == x2, b.term == y2)))
        pairs.append((r, a.term, b.term))
        o = Opaque("bytes")
        o.term, o.src, o.slicer = r, None, None
        la, lb = getattr(a, "length", None), getattr(b, "length", None)
        o.length = (la + lb) if la is not None and lb is not None else None
        return o

    def obj_binop(self, op, a, b, pc):
        raise Unsupported("operator on objects")      # overridden in Interp (dunder dispatch)

    def _zero_guard(self, y, pc, zero):
        c = self.pybool(y == zero)
        if c is not False:
            self.raises.append((z3.And(pc, y == zero), ZeroDivisionError))

    def _narrow(self, x, y, w, fn):
        """compute fn on the low w bits (w covers both operands and the result, signed) and sign-extend:
        keeps multipliers/dividers small; exact because |x|,|y| < 2^(w-1) by the tracked magnitudes"""
        w = max(w + 1, 2)
        if w >= self.W:
            return fn(x, y)
        r = fn(z3.Extract(w - 1, 0, x), z3.Extract(w - 1, 0, y))
        return z3.SignExt(self.W - w, r)

    def binop_bv(self, t, a, b, pc):
        x, y = self.num(a), self.num(b)
        bx, by = self.bits(x), self.bits(y)
        S = self._setmag
        if t is ast.Add:
            return S(x + y, max(bx, by) + 1)
        if t is ast.Sub:
            return S(x - y, max(bx, by) + 1)
        if t is ast.Mult:
            return S(self._narrow(x, y, bx + by + 1, lambda p, q: p * q), bx + by)
        if t is ast.BitOr:
            return S(x | y, max(bx, by))
        if t is ast.BitXor:
            return S(x ^ y, max(bx, by))
        if t is ast.BitAnd:
            # result magnitude: a non-negative constant mask bounds it
            if not isinstance(b, z3.ExprRef) and int(b) >= 0:
                return S(x & y, min(by, self.W - 2))
            if not isinstance(a, z3.ExprRef) and int(a) >= 0:
                return S(x & y, min(bx, self.W - 2))
            return S(x & y, max(bx, by))
        if t is ast.LShift:
            if isinstance(b, z3.ExprRef):
                raise Unsupported("shift by symbolic amount")
            return S(x << y, bx + int(b))
        if t is ast.RShift:
            if isinstance(b, z3.ExprRef):
                raise Unsupported("shift by symbolic amount")
            return S(x >> y, max(bx - int(b), 0))
        if t is ast.Mod:
            self._zero_guard(y, pc, self.const(0))
            if not isinstance(b, z3.ExprRef) and b > 0 and b & (b - 1) == 0:
                return S(x & self.const(b - 1), by)
            return S(self._narrow(x, y, max(bx, by) + 1, lambda p, q: p % q), by)   # bvsmod: sign follows the divisor, as in python
        if t is ast.FloorDiv:
            self._zero_guard(y, pc, self.const(0))
            if not isinstance(b, z3.ExprRef) and b > 0 and b & (b - 1) == 0:
                return S(x >> self.const(b.bit_length() - 1), bx)
            def fdiv(p, q_):
                q = p / q_                     # bvsdiv truncates toward zero
                r = z3.SRem(p, q_)
                adj = z3.And(r != 0, (r < 0) != (q_ < 0))
                return z3.If(adj, q - 1, q)
            return S(self._narrow(x, y, max(bx, by) + 2, fdiv), bx + 1)
        if t is ast.Pow and not isinstance(b, z3.ExprRef) and isinstance(b, int) and 0 <= b <= 4:
            r = self.const(1)
            for _ in range(b):
                r = S(r * x, self.bits(r) + bx)
            return r
        raise Unsupported(f"bv binop {t.__name__}")

    def binop_int(self, t, a, b, pc):
        x, y = self.num(a), self.num(b)
        if t is ast.Add:
            return x + y
        if t is ast.Sub:
            return x - y
        if t is ast.Mult:
            return x * y
        if t is ast.FloorDiv:
            self._zero_guard(y, pc, 0)
            if not isinstance(b, z3.ExprRef) and b > 0:
                return x / y          # z3 Int div with a positive divisor is floor division
            return z3.ToInt(z3.ToReal(x) / z3.ToReal(y))     # ToInt is floor
        if t is ast.Mod:
            self._zero_guard(y, pc, 0)
            if not isinstance(b, z3.ExprRef) and b > 0:
                return x % y
            return x - y * z3.ToInt(z3.ToReal(x) / z3.ToReal(y))
        if t is ast.LShift and not isinstance(b, z3.ExprRef):
            return x * (2 ** b)
        if t is ast.RShift and not isinstance(b, z3.ExprRef):
            return x / (2 ** b)
        if t is ast.Pow and not isinstance(b, z3.ExprRef) and isinstance(b, int) and b >= 0:
            r = self.const(1)
            for _ in range(b):
                r = r * x
            return r
        if t is ast.Pow and not isinstance(a, z3.ExprRef) and a == 2:
            raise Unsupported("2**symbolic")
        if t is ast.BitAnd and not isinstance(b, z3.ExprRef) and b >= 0:
            res, i = self.const(0), 0
            while b >> i:
                if (b >> i) & 1:
                    j = i
                    while (b >> j) & 1:
                        j += 1
                    res = res + ((x / (2 ** i)) % (2 ** (j - i))) * (2 ** i)
                    i = j
                else:
                    i += 1
            return res
        if t in (ast.BitXor, ast.BitOr) and not isinstance(b, z3.ExprRef) and isinstance(b, int) and 0 <= b < 2 ** 16:
            # python ints are two's complement: bit i of x is (x div 2^i) mod 2 also for negative x
            res, i = x, 0
            while b >> i:
                if (b >> i) & 1:
                    bit = (x / (2 ** i)) % 2
                    res = res + ((1 - 2 * bit) if t is ast.BitXor else (1 - bit)) * (2 ** i)
                i += 1
            return res
        if t in (ast.BitXor, ast.BitOr) and not isinstance(a, z3.ExprRef) and isinstance(a, int):
            return self.binop_int(t, b, a, pc)
        raise Unsupported(f"int binop {t.__name__} (use bv mode for bit operations)")

    # ------------------------------------------------------------ floats
    def _round(self, r):
        """err mode: r*(1+d) with fresh |d| <= 2^-53"""
        if self.fmode != "err":
            return r
        b = self.rbound.get(r.get_id())
        if b is not None:
            # |fl(r) - r| <= 2^-53 * |r| <= 2^-53 * bound: an absolute error keeps the query linear
            import fractions
            e = z3.Real(self.fresh("abserr"))
            lim = fractions.Fraction(b) / 9007199254740992
            limt = z3.RealVal(f"{lim.numerator}/{lim.denominator}")
            self.assumptions.append(z3.And(e >= -limt, e <= limt))
            out = r + e
            self.rbound[out.get_id()] = b * (1 + 2.0 ** -52)
            return out
        d = z3.Real(self.fresh("delta"))
        u = z3.RealVal("1/9007199254740992")
        self.assumptions.append(z3.And(d >= -u, d <= u))
        return r * (1 + d)

    def binop_float(self, t, a, b, pc):
        x, y = self.to_float(a), self.to_float(b)
        if self.fmode == "fp":
            bx, by = self._fb(x), self._fb(y)
            if t is ast.Add:
                return self._setrb(z3.fpAdd(RNE, x, y), None if bx is None or by is None else (bx + by) * 1.0000001)
            if t is ast.Sub:
                return self._setrb(z3.fpSub(RNE, x, y), None if bx is None or by is None else (bx + by) * 1.0000001)
            if t is ast.Mult:
                return self._setrb(z3.fpMul(RNE, x, y), None if bx is None or by is None else bx * by * 1.0000001)
            if t is ast.Div:
                if self.pybool(z3.fpIsZero(y)) is not False:
                    self.raises.append((z3.And(pc, z3.fpIsZero(y)), ZeroDivisionError))
                return z3.fpDiv(RNE, x, y)
            if t is ast.Mod:
                # python float %: sign of the divisor; exact (fmod is exact) for positive operands
                r = z3.fpRem(x, y)       # IEEE remainder (round-to-nearest quotient), adjust to floor
                return z3.If(z3.fpLT(r, z3.FPVal(0.0, F64)), z3.fpAdd(RNE, r, y), r)
            if t is ast.Pow and not isinstance(b, z3.ExprRef) and b == 2:
                return z3.fpMul(RNE, x, x)
            raise Unsupported(f"fp binop {t.__name__}")
        bx, by = self._rb(x), self._rb(y)
        if t is ast.Add:
            return self._round(self._setrb(x + y, None if bx is None or by is None else bx + by))
        if t is ast.Sub:
            return self._round(self._setrb(x - y, None if bx is None or by is None else bx + by))
        if t is ast.Mult:
            return self._round(self._setrb(x * y, None if bx is None or by is None else bx * by))
        if t is ast.Div:
            if self.pybool(y == 0) is not False:
                self.raises.append((z3.And(pc, y == 0), ZeroDivisionError))
            cy = self._const_val(y)
            return self._round(self._setrb(x / y, None if bx is None or cy in (None, 0) else bx / abs(cy)))
        if t is ast.FloorDiv:
            if self.pybool(y == 0) is not False:
                self.raises.append((z3.And(pc, y == 0), ZeroDivisionError))
            return z3.ToReal(z3.ToInt(x / y))
        if t is ast.Mod:
            if self.pybool(y == 0) is not False:
                self.raises.append((z3.And(pc, y == 0), ZeroDivisionError))
            return x - y * z3.ToReal(z3.ToInt(x / y))        # exact for y > 0 (fmod is exact)
        if t is ast.Pow and not isinstance(b, z3.ExprRef) and isinstance(b, int) and 0 <= b <= 4:
            r = z3.RealVal(1)
            for _ in range(b):
                r = self._round(r * x)
            return r
        if t is ast.Pow and not isinstance(b, z3.ExprRef) and b == 0.5:
            return self.fsqrt(x, pc)
        raise Unsupported(f"float binop {t.__name__}")

    def _fb(self, t):
        """upper bound on |value| of a Float64 term (constants exactly, variables/products by propagation)"""
        if isinstance(t, z3.FPNumRef):
            try:
                return abs(float(t.as_string().split('*')[0])) if False else abs(_fpnum(t))
            except Exception:
                return None
        return self.rbound.get(t.get_id())

    def _const_val(self, t):
        if isinstance(t, z3.RatNumRef):
            return t.numerator_as_long() / t.denominator_as_long()
        return None

    def _rb(self, t):
        c = self._const_val(t)
        if c is not None:
            return abs(c)
        return self.rbound.get(t.get_id())

    def _setrb(self, t, b):
        if b is not None:
            self.rbound[t.get_id()] = b
        return t

    def fsqrt(self, x, pc):
        if self.fmode == "fp":
            return z3.fpSqrt(RNE, x)
        r = z3.Real(self.fresh("sqrt"))
        self.assumptions.append(z3.Implies(x >= 0, z3.And(r >= 0, r * r == x)))
        if self.pybool(x < 0) is not False:
            self.raises.append((z3.And(pc, x < 0), ValueError))
        return self._round(r)

    # ------------------------------------------------------------ comparisons on numbers
    def cmp_num(self, t, a, b):
        if not self.is_sym(a) and not self.is_sym(b):
            return _PYCMP[t](a, b)
        # comparison of a (finite) symbolic number with +-infinity is decided by the constant
        for x, other_first in ((b, True), (a, False)):
            if isinstance(x, float) and x in (float("inf"), float("-inf")):
                big = x > 0
                if t is ast.Eq:
                    return False
                if t is ast.NotEq:
                    return True
                less = t in (ast.Lt, ast.LtE)          # a < b / a <= b
                if other_first:                        # sym (op) inf
                    return less if big else not less
                return (not less) if big else less     # inf (op) sym
        if isinstance(a, (bool, z3.BoolRef)) and isinstance(b, (bool, z3.BoolRef)) and t in (ast.Eq, ast.NotEq):
            r = self.to_bool(a) == self.to_bool(b)
            return r if t is ast.Eq else z3.Not(r)
        fa = isinstance(a, float) or self.is_float_term(a)
        fb = isinstance(b, float) or self.is_float_term(b)
        if fa or fb:
            # float(i) against an int / integral constant / float(j): decide in the integer sort
            ia, ib = self._int_view(a), self._int_view(b)
            if ia is not None and ib is not None and (isinstance(ia, z3.ExprRef) or isinstance(ib, z3.ExprRef)):
                return self.cmp_num(t, ia, ib)
            # comparisons between an int and a float are exact in python: compare as reals
            x = y = None
            # binary64 term against a python number that a double represents exactly: stay inside the FP theory
            if self.fmode == "fp" and (isinstance(a, z3.FPRef) or isinstance(b, z3.FPRef)):
                for v in (a, b):
                    if isinstance(v, (int, float)) and not isinstance(v, bool) and float(v) == v and abs(v) < 2 ** 53:
                        fa = fb = True
            if not (self.fmode == "fp" and fa and fb):
                x = self._exact_real(a)
                y = self._exact_real(b)
            if x is not None and y is not None:
                return {ast.Eq: lambda: x == y, ast.NotEq: lambda: x != y, ast.Lt: lambda: x < y,
                        ast.LtE: lambda: x <= y, ast.Gt: lambda: x > y, ast.GtE: lambda: x >= y}[t]()
            x, y = self.to_float(a), self.to_float(b)
            return {ast.Eq: lambda: z3.fpEQ(x, y), ast.NotEq: lambda: z3.Not(z3.fpEQ(x, y)),
                    ast.Lt: lambda: z3.fpLT(x, y), ast.LtE: lambda: z3.fpLEQ(x, y),
                    ast.Gt: lambda: z3.fpGT(x, y), ast.GtE: lambda: z3.fpGEQ(x, y)}[t]()
        x, y = self.num(a), self.num(b)
        return {ast.Eq: lambda: x == y, ast.NotEq: lambda: x != y, ast.Lt: lambda: x < y,
                ast.LtE: lambda: x <= y, ast.Gt: lambda: x > y, ast.GtE: lambda: x >= y}[t]()

    def _int_view(self, v):
        if isinstance(v, bool):
            return int(v)
        if isinstance(v, int):
            return v
        if isinstance(v, float):
            return int(v) if v.is_integer() and abs(v) < 2 ** 62 else None
        if isinstance(v, z3.ExprRef):
            if self.is_int_term(v):
                return v
            return self.int_origin.get(v.get_id())
        return None

    def _exact_real(self, v):
        if isinstance(v, bool):
            v = int(v)
        if isinstance(v, int):
            return z3.RealVal(v)
        if isinstance(v, float):
            import fractions
            fr = fractions.Fraction(v)
            return z3.RealVal(f"{fr.numerator}/{fr.denominator}")
        if isinstance(v, z3.FPRef):
            return z3.fpToReal(v)
        if isinstance(v, z3.BitVecRef):
            return z3.ToReal(self.bv2int(v))
        if isinstance(v, z3.ArithRef):
            return z3.ToReal(v) if v.is_int() else v
        if isinstance(v, z3.BoolRef):
            return z3.If(v, z3.RealVal(1), z3.RealVal(0))
        return None
