import argparse
import os
import sys


def main():
    ap = argparse.ArgumentParser(prog="check")
    ap.add_argument("prop")
    ap.add_argument("--tier", default=os.environ.get("VERIF_TIER", "quick"), choices=["quick", "thorough"])
    ap.add_argument("--replay")
    ap.add_argument("--jobs", type=int)
    ap.add_argument("--only", action="append")
    a = ap.parse_args()
    seed = int(os.environ.get("VERIF_SEED", "0") or 0)
    from vf.runner import run_property
    props = [a.prop.upper()]
    if a.prop == "all":
        props = [f"C{i:02d}" for i in range(1, 21) if os.path.exists(os.path.join(os.path.dirname(__file__), "props", f"c{i:02d}.py"))]
    rc = 0
    for p in props:
        r = run_property(p, a.tier, seed, a.jobs, a.only, a.replay)
        rc = max(rc, r) if r != 1 and rc != 1 else 1
    sys.exit(rc)


if __name__ == "__main__":
    main()
