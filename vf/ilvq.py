"""Query helpers shared by the VCs that use the symbolic-schedule engine (vf/ilv.py)."""
import threading
import z3
from .interp import TRUE, FALSE


def _budget(ctx):
    """remaining milliseconds of this VC group's wall-clock budget (quick 240 s, thorough 3600 s; VERIF_VC_BUDGET_S overrides): a change
    that removes a lock multiplies the yield points, and the check has to stay usable - what is not decided in time is INCONCLUSIVE"""
    import os
    import time
    if not hasattr(ctx, "_t_start"):
        ctx._t_start = time.time()
    total = float(os.environ.get("VERIF_VC_BUDGET_S", 240 if ctx.tier == "quick" else 3600))
    return int(max(0.0, total - (time.time() - ctx._t_start)) * 1000)


def order_from_model(il, model):
    """thread names of the executed blocks (path condition true in the model) in schedule order"""
    idx = sorted(range(len(il.tau)), key=lambda i: model.eval(il.tau[i], model_completion=True).as_long())
    out = []
    for i in idx:
        b = il.E.blocks[i]
        if z3.is_true(model.eval(b.pc, model_completion=True)):
            out.append(b.thread + ("+" if b.index == 0 and b.kind != "start" else ""))
    return out


def solve(ctx, il, query, bad, extra=(), vars=None, replay=None, desc=""):
    """one schedule query: unsat = holds for every interleaving; sat = schedule, replayed on the real code"""
    import time
    E = il.E
    left = _budget(ctx)
    if left <= 0:
        ctx._rec(kind="prove", query=query, status="inconclusive", desc=desc, reason="time budget of this VC group exhausted before the query was asked")
        return
    s = z3.Solver()
    s.set("timeout", min(ctx.timeout_ms, left))
    s.add(*E.assumptions)
    s.add(*il.cons)
    s.add(*extra)
    s.add(bad)
    t0 = time.time()
    r = str(s.check())
    dt = time.time() - t0
    ctx.solver_s += dt
    if r == "unsat":
        # thorough tier: queries z3 decided quickly are exported and re-decided by cvc5 1.0.3 and z3 4.8.12 (runner.cross_check)
        ctx._rec(kind="prove", query=query, status="discharged", seconds=dt, desc=desc, smt2=ctx._export(s) if dt < 20 else None)
        return
    if r != "sat":
        ctx._rec(kind="prove", query=query, status="inconclusive", seconds=dt, desc=desc, reason="solver " + r)
        return
    m = s.model()
    order = order_from_model(il, m)
    values = {k: _pyv(m, t) for k, t in (vars or {}).items()}
    values["schedule"] = order
    try:
        ok, detail = replay(values) if replay else (False, "no replay")
    except Exception:
        import traceback
        ok, detail = False, "replay crashed: " + traceback.format_exc(limit=4)
    if ok:
        path = ctx._write_replay(query, values, detail)
        ctx._rec(kind="prove", query=query, status="violation", seconds=dt, desc=desc, values=values, detail=detail, replay=path)
    else:
        ctx._rec(kind="prove", query=query, status="engine_error", seconds=dt, desc=desc, values=values,
                 reason="schedule found by the solver did not reproduce on the real code: " + str(detail))


def _pyv(m, t):
    v = m.eval(t, model_completion=True)
    if z3.is_bool(v):
        return z3.is_true(v)
    try:
        return v.as_long()
    except Exception:
        return str(v)


def feasible(ctx, il, query, cond=TRUE):
    """vacuity twin: some complete schedule exists (also shows absence of a lock-ordering deadlock for these operations)"""
    import time
    s = z3.Solver()
    s.set("timeout", max(1000, min(ctx.timeout_ms, _budget(ctx))))
    s.add(*il.E.assumptions)
    s.add(*il.cons)
    s.add(cond)
    t0 = time.time()
    r = str(s.check())
    ctx.solver_s += time.time() - t0
    ctx._rec(kind="witness", query=query, status="discharged" if r == "sat" else ("engine_error" if r == "unsat" else "inconclusive"),
             seconds=time.time() - t0, reason=None if r == "sat" else "no complete schedule: " + r)
    ctx.functions |= set(il.E.calls)


def no_deadlock(ctx, il, prefix, hang=None):
    """deadlock freedom of the operations of this VC: every schedule query only ranges over complete schedules, so blocking is
    decided separately - no cycle in the lock acquisition order and no re-acquisition of a plain Lock by its holder"""
    found = il.deadlocks()
    if not found:
        ctx._rec(kind="prove", query=prefix + "-no-deadlock", status="discharged",
                 desc="no cycle in the lock acquisition order of these operations and no plain Lock re-acquired by its holder")
        return
    detail = "; ".join(found)
    ok = False
    if hang is not None:
        try:
            ok = hang()
        except Exception:
            ok = False
    if ok:
        path = ctx._write_replay(prefix + "-no-deadlock", {"deadlock": found}, detail)
        ctx._rec(kind="prove", query=prefix + "-no-deadlock", status="violation", desc="deadlock", values={"deadlock": found}, detail=detail, replay=path)
    else:
        ctx._rec(kind="prove", query=prefix + "-no-deadlock", status="inconclusive", reason="possible deadlock not confirmed on the real code: " + detail)


def hangs(fn, timeout=3.0):
    """True when fn() run on a daemon thread does not return (it blocks on a lock)"""
    t = threading.Thread(target=fn, daemon=True)
    t.start()
    t.join(timeout)
    return t.is_alive()


def note_blocks(ctx, il, what):
    ths = sorted({b.thread for b in il.E.blocks})
    ctx.bound(f"{what}: {len(ths)} threads, {len(il.E.blocks)} atomic blocks in total (every interleaving of them = one symbolic schedule); "
              f"fields found without consistent lock protection (every access is a switch point): {sorted(il.und_names) or 'none'}")




def bounds_ok(ctx, il, prefix):
    """unwinding assertion of the bounded shapes: under no schedule does a thread write a list longer than its declared slots
    (or a reference outside the declared universe)"""
    import time
    s = z3.Solver()
    s.set("timeout", max(1000, min(ctx.timeout_ms, _budget(ctx))))
    s.add(*il.E.assumptions)
    s.add(*il.cons)
    s.add(il.overflow_cond())
    t0 = time.time()
    r = str(s.check())
    ctx.solver_s += time.time() - t0
    ctx._rec(kind="prove", query=prefix + "-state-bounds-sufficient", status="discharged" if r == "unsat" else "inconclusive", seconds=time.time() - t0,
             desc="no schedule makes a bounded list / reference of the state model overflow (unwinding assertion)",
             reason=None if r == "unsat" else "a shared list can grow beyond the modelled number of slots: " + r)
