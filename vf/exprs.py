"""Expression evaluation, call dispatch, builtins and container models of the py2smt evaluator."""
import ast
import builtins
import collections
import dataclasses
import enum
import math
import threading
import types
import z3
from .values import (Unsupported, Obj, EnumSym, SBytes, Guarded, Opaque, SList, SDict, UNDEF, Undefined,
                     BoundSym, TimerRec)
from .interp import Interp, Closure, Frame, TRUE, FALSE, UndefinedUse

_LOCK_TYPES = (type(threading.Lock()), type(threading.RLock()), threading.Event, threading.Condition)


class Engine(Interp):

    # ================================================================== expressions
    def ev(self, e, fr, pc):
        m = getattr(self, "ev_" + type(e).__name__, None)
        if m is None:
            raise Unsupported(f"expression {type(e).__name__}")
        return m(e, fr, pc)

    def ev_Constant(self, e, fr, pc):
        return e.value

    def ev_JoinedStr(self, e, fr, pc):
        return Opaque("str")

    def ev_Name(self, e, fr, pc):
        if e.id in fr.env:
            v = fr.env[e.id]
            if isinstance(v, Undefined):
                raise UndefinedUse(f"read of undefined local {e.id}")
            return v
        if e.id in fr.glb:
            return fr.glb[e.id]
        try:
            return getattr(builtins, e.id)
        except AttributeError:
            raise Unsupported(f"unknown name {e.id}")

    def ev_Tuple(self, e, fr, pc):
        return tuple(self.ev(x, fr, pc) for x in e.elts)

    def ev_List(self, e, fr, pc):
        return SList([(TRUE, self.ev(x, fr, pc)) for x in e.elts])

    def ev_Set(self, e, fr, pc):
        return SDict([(TRUE, self.ev(x, fr, pc), True, False) for x in e.elts], is_set=True)

    def ev_Dict(self, e, fr, pc):
        log = []
        for k, v in zip(e.keys, e.values):
            if k is None:
                other = self.ev(v, fr, pc)
                log.extend(self._as_sdict(other).log)
            else:
                log.append((TRUE, self.ev(k, fr, pc), self.ev(v, fr, pc), False))
        return SDict(log)

    def ev_Lambda(self, e, fr, pc):
        return Closure(e, fr.env, fr.glb)

    def ev_Attribute(self, e, fr, pc):
        return self.getattr(self.ev(e.value, fr, pc), self.mangle(e.attr, fr), pc)

    @staticmethod
    def mangle(attr, fr):
        """private-name mangling of `__name` inside a class body"""
        if attr.startswith("__") and not attr.endswith("__"):
            parts = (fr.qualname or "").split(".")
            if len(parts) >= 2 and parts[-2] != "<locals>":
                return "_" + parts[-2].lstrip("_") + attr
        return attr

    def ev_IfExp(self, e, fr, pc):
        c = self.to_bool(self.ev(e.test, fr, pc))
        pb = self.pybool(c)
        if pb is True:
            return self.ev(e.body, fr, pc)
        if pb is False:
            return self.ev(e.orelse, fr, pc)
        a = self.ev(e.body, fr, z3.And(pc, c))
        b = self.ev(e.orelse, fr, z3.And(pc, z3.Not(c)))
        return self.ite(c, a, b)

    def ev_BoolOp(self, e, fr, pc):
        """python semantics: returns one of the operands; merged with ite"""
        is_and = isinstance(e.op, ast.And)
        vals, conds = [], []
        cur = pc
        for x in e.values:
            if self.pybool(cur) is False:
                break
            n0 = len(self.raises)
            v = self.ev(x, fr, cur)
            c = self.to_bool(v)
            vals.append(v)
            conds.append(c)
            cur = z3.And(cur, c) if is_and else z3.And(cur, z3.Not(c))
        all_bool = all(isinstance(v, (bool, z3.BoolRef)) for v in vals)
        if all_bool:
            cs = [self.to_bool(v) for v in vals]
            return z3.simplify(z3.And(*cs) if is_and else z3.Or(*cs)) if len(cs) > 1 else vals[0]
        res = vals[-1]
        for v, c in zip(reversed(vals[:-1]), reversed(conds[:-1])):
            # and: first falsy operand; or: first truthy operand
            res = self.ite(z3.Not(c), v, res) if is_and else self.ite(c, v, res)
        return res

    def ev_UnaryOp(self, e, fr, pc):
        v = self.ev(e.operand, fr, pc)
        if isinstance(v, Guarded):
            return self.dist(v, lambda x: self._unary(e.op, x))
        return self._unary(e.op, v)

    def _unary(self, op, v):
        if isinstance(op, ast.Not):
            c = self.to_bool(v)
            pb = self.pybool(c)
            return (not pb) if pb is not None and not isinstance(v, z3.ExprRef) else z3.Not(c)
        if not self.is_sym(v):
            return {ast.USub: lambda x: -x, ast.UAdd: lambda x: +x, ast.Invert: lambda x: ~x}[type(op)](v)
        if isinstance(op, ast.USub):
            if isinstance(v, z3.FPRef):
                return z3.fpNeg(v)
            if self.is_float_term(v):
                return -v
            x = self.num(v)
            r = -x
            if self.mode == "bv":
                self._setmag(r, self.bits(x))
            return r
        if isinstance(op, ast.UAdd):
            return v
        if isinstance(op, ast.Invert) and self.mode == "bv":
            x = self.num(v)
            return self._setmag(~x, self.bits(x) + 1)
        raise Unsupported("unary op")

    def ev_BinOp(self, e, fr, pc):
        a = self.ev(e.left, fr, pc)
        b = self.ev(e.right, fr, pc)
        return self.binop(e.op, a, b, pc)

    def obj_binop(self, op, a, b, pc):
        names = {ast.Add: "__add__", ast.Sub: "__sub__", ast.Mult: "__mul__", ast.BitOr: "__or__", ast.BitAnd: "__and__"}
        n = names.get(type(op))
        if isinstance(a, Obj) and n and n in _mro_dict(a.cls):
            return self.call_function(_mro_dict(a.cls)[n], [a, b], {}, pc)
        if isinstance(a, EnumSym) or isinstance(b, EnumSym):
            raise Unsupported("arithmetic on enum member")
        raise Unsupported(f"operator {type(op).__name__} on {a!r}")

    def ev_Compare(self, e, fr, pc):
        left = self.ev(e.left, fr, pc)
        res = []
        for op, r in zip(e.ops, e.comparators):
            right = self.ev(r, fr, pc)
            res.append(self.compare(op, left, right, pc))
            left = right
        if len(res) == 1:
            return res[0]
        if all(isinstance(r, bool) for r in res):
            return all(res)
        return z3.And(*[self.to_bool(r) for r in res])

    # ------------------------------------------------------------------ comparison
    def compare(self, op, a, b, pc=TRUE):
        if isinstance(a, Undefined):
            raise UndefinedUse('use of an undefined value')
        if isinstance(b, Undefined):
            raise UndefinedUse('use of an undefined value')
        if isinstance(a, Guarded):
            return self._boolify(self.dist_pc(a, pc, lambda v, p: self._lb(self.compare(op, v, b, p))))
        if isinstance(b, Guarded):
            return self._boolify(self.dist_pc(b, pc, lambda v, p: self._lb(self.compare(op, a, v, p))))
        t = type(op)
        if t in (ast.Is, ast.IsNot):
            r = self.identical(a, b)
            return r if t is ast.Is else self._not(r)
        if t in (ast.In, ast.NotIn):
            r = self.contains(b, a, pc)
            return r if t is ast.In else self._not(r)
        if t in (ast.Eq, ast.NotEq):
            r = self.equal(a, b, pc)
            return r if t is ast.Eq else self._not(r)
        if isinstance(a, Obj):
            dn = {ast.Lt: "__lt__", ast.LtE: "__le__", ast.Gt: "__gt__", ast.GtE: "__ge__"}[t]
            d = _mro_dict(a.cls)
            if dn in d and not _is_generated(d[dn]):
                return self._boolify(self.call_function(d[dn], [a, b], {}, pc))
            raise Unsupported(f"ordering on {a.cls.__name__}")
        if self._is_value_instance(a):
            return self.compare(op, self.lift_value(a), b, pc)
        if isinstance(a, (SBytes, bytes)) and isinstance(b, (SBytes, bytes)):
            raise Unsupported("bytes ordering")
        if isinstance(a, (Opaque, str)) or isinstance(b, (Opaque, str)):
            if isinstance(a, str) and isinstance(b, str):
                return self.cmp_num(t, a, b)
            other = b if isinstance(a, str) else a
            if isinstance(a, str) != isinstance(b, str) and isinstance(other, (int, float, z3.ExprRef)) and not isinstance(other, bool):
                self.raises.append((pc, TypeError))          # '<' between str and a number
                return False
            raise Unsupported("ordering on opaque string")
        if a is None or b is None:
            self.raises.append((pc, TypeError))
            return False
        return self.cmp_num(t, a, b)

    def _lb(self, v):
        return v if isinstance(v, z3.BoolRef) else z3.BoolVal(bool(v))

    def _boolify(self, v):
        if isinstance(v, z3.BoolRef):
            pb = self.pybool(v)
            return v if pb is None else pb
        return v

    def _not(self, r):
        if isinstance(r, bool):
            return not r
        return z3.Not(self.to_bool(r))

    def _is_value_instance(self, v):
        return dataclasses.is_dataclass(v) and not isinstance(v, type) and self.is_value_class(type(v))

    def identical(self, a, b):
        if isinstance(a, Guarded):
            return self._boolify(self.dist(a, lambda v: self._lb(self.identical(v, b))))
        if isinstance(b, Guarded):
            return self._boolify(self.dist(b, lambda v: self._lb(self.identical(a, v))))
        if a is None or b is None:
            return a is None and b is None
        if isinstance(a, (bool, z3.BoolRef)) and isinstance(b, (bool, z3.BoolRef)):
            return self.cmp_num(ast.Eq, a, b)
        if isinstance(a, (EnumSym, enum.Enum)) and isinstance(b, (EnumSym, enum.Enum)):
            return self.equal(a, b)
        if isinstance(a, Obj) and isinstance(b, Obj):
            return a is b
        if isinstance(a, Obj) and a.origin is not None:
            return a.origin is b
        if isinstance(b, Obj) and b.origin is not None:
            return b.origin is a
        if self.is_sym(a) or self.is_sym(b):
            return False
        return a is b

    def equal(self, a, b, pc=TRUE):
        """python == ; returns bool or z3 Bool"""
        if isinstance(a, Undefined):
            raise UndefinedUse('use of an undefined value')
        if isinstance(b, Undefined):
            raise UndefinedUse('use of an undefined value')
        if isinstance(a, Guarded):
            return self._boolify(self.dist(a, lambda v: self._lb(self.equal(v, b, pc))))
        if isinstance(b, Guarded):
            return self._boolify(self.dist(b, lambda v: self._lb(self.equal(a, v, pc))))
        if a is None or b is None:
            return a is None and b is None
        if self._is_value_instance(a) and (isinstance(b, Obj) or self._user_eq(type(a))):
            a = self.lift_value(a)
        if self._is_value_instance(b) and (isinstance(a, Obj)):
            b = self.lift_value(b)
        if isinstance(a, (EnumSym, enum.Enum)) or isinstance(b, (EnumSym, enum.Enum)):
            if not (isinstance(a, (EnumSym, enum.Enum)) and isinstance(b, (EnumSym, enum.Enum))):
                return False
            if not isinstance(a, EnumSym) and not isinstance(b, EnumSym):
                return a == b
            ea, eb = self.enum_sym(a), self.enum_sym(b)
            if ea.cls is not eb.cls:
                return False
            return self._boolify(ea.val == eb.val)
        if isinstance(a, Obj):
            ue = self._user_eq(a.cls)
            if ue is not None:
                return self._boolify(self.to_bool(self.call_function(ue, [a, b], {}, pc)))
            if isinstance(b, Obj) and a.cls is b.cls and dataclasses.is_dataclass(a.cls) and a.cls.__dataclass_params__.eq:
                names = [f.name for f in dataclasses.fields(a.cls) if f.compare]
                cs = [self._lb(self.equal(a.fields[k], b.fields[k], pc)) for k in names]
                return self._boolify(z3.simplify(z3.And(*cs))) if cs else True
            if isinstance(b, Obj):
                return a is b
            return False
        if isinstance(b, Obj):
            return self.equal(b, a, pc)
        if isinstance(a, (SBytes, bytes, bytearray)) and isinstance(b, (SBytes, bytes, bytearray)):
            if not isinstance(a, SBytes) and not isinstance(b, SBytes):
                return bytes(a) == bytes(b)
            x, y = self.sbytes(a), self.sbytes(b)
            if len(x.bs) != len(y.bs):
                return False
            return self._boolify(z3.simplify(z3.And(*[p == q for p, q in zip(x.bs, y.bs)]))) if x.bs else True
        if isinstance(a, (SBytes, bytes)) or isinstance(b, (SBytes, bytes)):
            return False
        if isinstance(a, tuple) and isinstance(b, tuple):
            if len(a) != len(b):
                return False
            cs = [self._lb(self.equal(p, q, pc)) for p, q in zip(a, b)]
            return self._boolify(z3.simplify(z3.And(*cs))) if cs else True
        if isinstance(a, Opaque) and isinstance(b, Opaque) and getattr(a, "term", None) is not None and getattr(b, "term", None) is not None:
            if getattr(a, "length", None) is not None and getattr(b, "length", None) is not None and a.length != b.length:
                return False
            return self._boolify(a.term == b.term)          # ideal byte strings: equal iff the terms they stand for are equal
        if isinstance(a, Opaque) and getattr(a, "term", None) is not None and not isinstance(b, Opaque):
            return False if not isinstance(b, (bytes, bytearray)) or getattr(a, "length", len(b)) != len(b) else self._boolify(a.term == int.from_bytes(bytes(b), "big") - (1 << 200))
        if isinstance(b, Opaque) and getattr(b, "term", None) is not None and not isinstance(a, Opaque):
            return self.equal(b, a, pc)
        if isinstance(a, (Opaque,)) or isinstance(b, (Opaque,)):
            raise Unsupported("equality on opaque value")
        if isinstance(a, str) or isinstance(b, str):
            if self.is_sym(a) or self.is_sym(b):
                return False
            return a == b
        if isinstance(a, (dict, types.MappingProxyType)) and isinstance(b, SDict):
            a = self.lift_container(dict(a))
        if isinstance(b, (dict, types.MappingProxyType)) and isinstance(a, SDict):
            b = self.lift_container(dict(b))
        if isinstance(a, SDict) and isinstance(b, SDict):
            return self.sdict_equal(a, b, pc)
        if isinstance(a, (list, tuple)) and isinstance(b, SList):
            a = self.lift_container(list(a))
        if isinstance(b, (list, tuple)) and isinstance(a, SList):
            b = self.lift_container(list(b))
        if isinstance(a, SList) and isinstance(b, SList):
            if all(self.pybool(c) is True for c, _ in a.items + b.items):
                if len(a.items) != len(b.items):
                    return False
                cs = [self._lb(self.equal(x, y, pc)) for (_, x), (_, y) in zip(a.items, b.items)]
                return self._boolify(z3.simplify(z3.And(*cs))) if cs else True
            if a is b:
                return True
            if len(a.items) == len(b.items):
                # positional comparison: exact when both lists were built with the same layout of optional elements
                cs = []
                for (ca, x), (cb, y) in zip(a.items, b.items):
                    ca, cb = self._lb(ca), self._lb(cb)
                    try:
                        same = self._lb(self.equal(x, y, pc))
                    except UndefinedUse:
                        same = FALSE
                    cs.append(z3.And(ca == cb, z3.Implies(ca, same)))
                return self._boolify(z3.simplify(z3.And(*cs))) if cs else True
            raise Unsupported("equality on guarded lists")
        if isinstance(a, (SList, SDict)) or isinstance(b, (SList, SDict)):
            return False
        if isinstance(a, (int, float, bool, z3.ExprRef)) and isinstance(b, (int, float, bool, z3.ExprRef)):
            return self._boolify(self._lb(self.cmp_num(ast.Eq, a, b)))
        if self.is_sym(a) or self.is_sym(b):
            return False
        return a == b

    def sdict_equal(self, a, b, pc=TRUE):
        """structural equality of two symbolic dicts (identity short-cut; keys compared with key_eq)"""
        if a is b:
            return True
        if a.is_set != b.is_set:
            return False
        ea, eb = self.sdict_entries(a, pc), self.sdict_entries(b, pc)
        conds = []
        for mine, other in ((ea, b), (eb, a)):
            for c, k, v in mine:
                found, val = self.sdict_lookup(other, k, pc)
                fb = self._lb(found)
                if self.pybool(fb) is False:
                    same = FALSE
                elif a.is_set:
                    same = fb
                else:
                    try:
                        same = z3.And(fb, self._lb(self.equal(v, val, pc)))
                    except UndefinedUse:
                        same = FALSE
                conds.append(z3.Implies(self._lb(c), same))
        return self._boolify(z3.simplify(z3.And(*conds))) if conds else True

    def _user_eq(self, cls):
        f = _mro_dict(cls).get("__eq__")
        if f is None or f is object.__eq__ or _is_generated(f) or not isinstance(f, types.FunctionType):
            return None
        return f

    # ------------------------------------------------------------------ attribute access
    def getattr(self, obj, attr, pc):
        if isinstance(obj, Undefined):
            raise UndefinedUse('use of an undefined value')
        if isinstance(obj, Guarded):
            alts = []
            for c, v in obj.alts:
                if isinstance(v, Undefined):
                    continue
                if v is None:
                    self.raises.append((z3.And(pc, c), AttributeError))
                    continue
                alts.append((c, self.getattr(v, attr, z3.And(pc, c))))
            if not alts:
                return UNDEF
            res = alts[-1][1]
            for c, v in reversed(alts[:-1]):
                res = self.ite(c, v, res)
            return res
        if obj is None:
            self.raises.append((pc, AttributeError))
            return UNDEF
        if isinstance(obj, Obj):
            if attr in obj.fields:
                v = obj.fields[attr]
                lv = self.lift_container(v)
                if lv is not v:
                    obj.fields[attr] = lv
                if isinstance(lv, SList):
                    lv._heap = True           # reachable through the heap: a loop body may mutate it while it is iterated
                return lv
            if attr == "__class__":
                return obj.cls
            if attr == "__dict__":
                return SDict([(TRUE, k, v, False) for k, v in obj.fields.items()])
            try:
                raw = inspect_getattr_static(obj.cls, attr)
            except AttributeError:
                self.raises.append((pc, AttributeError))
                return UNDEF
            if isinstance(raw, property):
                return self.call_function(raw.fget, [obj], {}, pc)
            if isinstance(raw, (classmethod,)):
                return BoundSym(raw.__func__, obj.cls)
            if isinstance(raw, staticmethod):
                return raw.__func__
            if isinstance(raw, types.FunctionType):
                return BoundSym(raw, obj)
            return raw
        if isinstance(obj, EnumSym):
            if attr == "value":
                return obj.val
            if attr == "name":
                return Opaque("str")
            raw = inspect_getattr_static(obj.cls, attr)
            if isinstance(raw, types.FunctionType):
                return BoundSym(raw, obj)
            return raw
        if type(obj).__name__ == "SuperProxy":
            o = obj.obj
            mro = (o.cls if isinstance(o, Obj) else type(o)).__mro__
            after = mro[mro.index(obj.cls) + 1:] if obj.cls in mro else ()
            for k in after:
                if attr in k.__dict__:
                    raw = k.__dict__[attr]
                    if isinstance(raw, types.FunctionType):
                        return BoundSym(raw, o)
                    if isinstance(raw, classmethod):
                        return BoundSym(raw.__func__, o.cls if isinstance(o, Obj) else type(o))
                    if isinstance(raw, staticmethod):
                        return raw.__func__
                    if k is object:
                        return lambda *a, **kw: None
                    return raw
            raise Unsupported(f"super().{attr}")
        if isinstance(obj, SList) and attr == "maxlen":
            return obj.maxlen
        if isinstance(obj, TimerRec) and attr in ("daemon", "interval", "args", "function"):
            return {"daemon": obj.daemon, "interval": obj.delay, "args": obj.args, "function": obj.fn}[attr]
        if isinstance(obj, Opaque) and attr in getattr(obj, "attrs", {}):
            return obj.attrs[attr]          # data attribute given to a stubbed collaborator by the harness
        if isinstance(obj, (z3.ExprRef, SBytes, SList, SDict, TimerRec, Opaque)):
            return BoundSym(attr, obj)
        if isinstance(obj, (int, float, str, bytes, bytearray, tuple, frozenset, types.ModuleType, type, enum.Enum,
                            types.FunctionType, types.BuiltinFunctionType, types.MappingProxyType)):
            if isinstance(obj, type) and attr in ("__name__", "__qualname__"):
                return getattr(obj, attr)
            return getattr(obj, attr)
        if isinstance(obj, Closure):
            raise Unsupported("attribute of closure")
        if isinstance(obj, _LOCK_TYPES):
            return BoundSym(attr, Opaque("lock"))
        if isinstance(obj, (dict, list, set, collections.deque)):
            # concrete container reached directly (module constant, argument): read-only use is fine
            return BoundSym(attr, self.lift_container(obj)) if attr in _MUTATORS else getattr(obj, attr)
        if id(obj) in self.stubs:
            return BoundSym(attr, obj)
        if self._is_value_instance(obj):
            raw = inspect_getattr_static(type(obj), attr) if not hasattr(obj, "__dict__") or attr not in vars(obj) else None
            if isinstance(raw, types.FunctionType):
                return BoundSym(raw, self.lift_value(obj))
            if isinstance(raw, property):
                return self.call_function(raw.fget, [self.lift_value(obj)], {}, pc)
            return getattr(obj, attr)
        mod = getattr(type(obj), "__module__", "")
        if mod.startswith(self.repo_prefix) or id(obj) in self.heap or getattr(type(obj), "_verif_lift", False):
            return self.getattr(self.lift(obj), attr, pc)
        return getattr(obj, attr)

    # ------------------------------------------------------------------ subscripts
    def ev_Subscript(self, e, fr, pc):
        obj = self.ev(e.value, fr, pc)
        if isinstance(e.slice, ast.Slice):
            lo = self.ev(e.slice.lower, fr, pc) if e.slice.lower else None
            hi = self.ev(e.slice.upper, fr, pc) if e.slice.upper else None
            if e.slice.step is not None:
                raise Unsupported("slice step")
            return self.slice(obj, lo, hi)
        idx = self.ev(e.slice, fr, pc)
        return self.container_get(obj, idx, pc)

    def slice(self, obj, lo, hi):
        if isinstance(obj, Guarded):
            return self.dist(obj, lambda v: self.slice(v, lo, hi))
        if self.is_sym(lo) or self.is_sym(hi):
            raise Unsupported("symbolic slice bound")
        if isinstance(obj, SBytes):
            return SBytes(obj.bs[lo:hi])
        if isinstance(obj, Opaque) and getattr(obj, "slicer", None) is not None:
            return obj.slicer(obj, lo, hi)
        if isinstance(obj, SList):
            if all(self.pybool(c) is True for c, _ in obj.items):
                return SList(obj.items[lo:hi])
            if hi is None and isinstance(lo, int) and 0 <= lo <= 3:
                out = SList(list(obj.items))           # drop the first `lo` present elements
                for _ in range(lo):
                    self._drop_first(out, TRUE)
                return out
            raise Unsupported("slice of guarded list")
        return obj[lo:hi]

    def byte_to_int(self, b):
        if not isinstance(b, z3.ExprRef):
            return int(b)
        if self.mode == "bv":
            t = z3.ZeroExt(self.W - 8, b)
            self.mag[t.get_id()] = 8
            return t
        return z3.BV2Int(b)

    def container_get(self, obj, idx, pc):
        if isinstance(obj, Undefined):
            raise UndefinedUse('use of an undefined value')
        if isinstance(idx, Undefined):
            raise UndefinedUse('use of an undefined value')
        if isinstance(obj, Guarded):
            return self.dist_pc(obj, pc, lambda v, p: self.container_get(v, idx, p))
        if isinstance(idx, Guarded):
            return self.dist_pc(idx, pc, lambda v, p: self.container_get(obj, v, p))
        if isinstance(obj, SBytes):
            if self.is_sym(idx):
                raise Unsupported("symbolic index into bytes")
            if not (-len(obj.bs) <= idx < len(obj.bs)):
                self.raises.append((pc, IndexError))
                return 0
            return self.byte_to_int(obj.bs[idx])
        if isinstance(obj, SDict):
            found, val = self.sdict_lookup(obj, idx, pc)
            if self.pybool(found) is not True:
                self.raises.append((z3.And(pc, z3.Not(self.to_bool(found))), KeyError))
            return val
        if isinstance(obj, SList):
            if self.is_sym(idx):
                raise Unsupported("symbolic list index")
            if all(self.pybool(c) is True for c, _ in obj.items):
                if not (-len(obj.items) <= idx < len(obj.items)):
                    self.raises.append((pc, IndexError))
                    return UNDEF
                return obj.items[idx][1]
            return self.slist_index(obj, idx, pc)
        if isinstance(obj, Obj):
            d = _mro_dict(obj.cls)
            if "__getitem__" in d:
                return self.call_function(d["__getitem__"], [obj, idx], {}, pc)
            raise Unsupported(f"subscript on {obj.cls.__name__}")
        if isinstance(obj, tuple) and isinstance(idx, (str, Opaque)):
            self.raises.append((pc, TypeError))
            return UNDEF
        if obj is None:
            self.raises.append((pc, TypeError))
            return UNDEF
        if isinstance(obj, (dict, types.MappingProxyType)):
            if self.is_sym(idx):
                return self.container_get(self._as_sdict(obj), idx, pc)
            try:
                return obj[idx]
            except KeyError:
                self.raises.append((pc, KeyError))
                return UNDEF
            except TypeError:
                self.raises.append((pc, TypeError))
                return UNDEF
        if self.is_sym(idx):
            if isinstance(obj, (tuple, list)) and len(obj) <= 64 and isinstance(idx, z3.ExprRef):
                # table lookup with a symbolic index: ite chain + IndexError outside
                n = len(obj)
                ok = z3.And(self.num(idx) >= self.const(-n), self.num(idx) < self.const(n))
                self.raises.append((z3.And(pc, z3.Not(ok)), IndexError))
                res = obj[n - 1]
                for i in range(n - 2, -1, -1):
                    res = self.ite(z3.Or(self.num(idx) == self.const(i), self.num(idx) == self.const(i - n)), obj[i], res)
                return res
            raise Unsupported("symbolic index")
        try:
            v = obj[idx]
        except IndexError:
            self.raises.append((pc, IndexError))
            return UNDEF
        except KeyError:
            self.raises.append((pc, KeyError))
            return UNDEF
        except TypeError:
            self.raises.append((pc, TypeError))
            return UNDEF
        if isinstance(obj, (bytes, bytearray)):
            return int(v)
        return v

    def slist_index(self, sl, idx, pc):
        """element at position idx of the effective list (idx concrete, 0 or -1 or small)"""
        items = sl.items if idx >= 0 else list(reversed(sl.items))
        k = idx if idx >= 0 else -idx - 1
        # position of each item among the present ones
        res, found = UNDEF, FALSE
        cnt = [self.const(0)] if False else None
        before = []     # conditions of previous items
        alts = []
        for c, v in items:
            # item is the k-th present one iff it is present and exactly k of the previous are present
            if k == 0:
                cond = z3.And(c, *[z3.Not(p) for p in before])
            else:
                cond = z3.And(c, z3.PbEq([(p, 1) for p in before], k)) if before else FALSE
            alts.append((z3.simplify(cond), v))
            before.append(c)
        any_c = z3.simplify(z3.Or(*[c for c, _ in alts])) if alts else FALSE
        if self.pybool(any_c) is not True:
            self.raises.append((z3.And(pc, z3.Not(any_c)), IndexError))
        alts = [(c, v) for c, v in alts if self.pybool(c) is not False]
        if not alts:
            return UNDEF
        res = alts[-1][1]
        for c, v in reversed(alts[:-1]):
            res = self.ite(c, v, res)
        return res

    # ------------------------------------------------------------------ symbolic dict / set
    def _as_sdict(self, d):
        if isinstance(d, SDict):
            return d
        if isinstance(d, (dict, types.MappingProxyType)):
            return SDict([(TRUE, k, v, False) for k, v in d.items()])
        if isinstance(d, (set, frozenset)):
            return SDict([(TRUE, k, True, False) for k in d], is_set=True)
        raise Unsupported(f"not a dict: {type(d).__name__}")

    def key_eq(self, a, b, pc=TRUE):
        r = self.equal(a, b, pc)
        return r

    def sdict_lookup(self, d, key, pc=TRUE):
        """(found condition, value) - newest matching log entry wins"""
        found, val = False, UNDEF
        for c, k, v, is_del in d.log:           # oldest first; later entries override
            m = self.key_eq(k, key, pc)
            if m is False:
                continue
            hit = self._boolify(z3.simplify(z3.And(self._lb(c), self._lb(m))))
            if hit is False:
                continue
            if is_del:
                found = self._and(self._not(hit), found)
            else:
                val = v if hit is True else self.ite(self._lb(hit), v, val)
                found = self._or(hit, found)
        return found, val

    def _and(self, a, b):
        if a is False or b is False:
            return False
        if a is True:
            return b
        if b is True:
            return a
        return self._boolify(z3.simplify(z3.And(self._lb(a), self._lb(b))))

    def _or(self, a, b):
        if a is True or b is True:
            return True
        if a is False:
            return b
        if b is False:
            return a
        return self._boolify(z3.simplify(z3.Or(self._lb(a), self._lb(b))))

    def sdict_entries(self, d, pc=TRUE):
        """effective (cond, key, value) entries, in insertion order of first occurrence (dict order)"""
        out = []
        for i, (c, k, v, is_del) in enumerate(d.log):
            if is_del:
                continue
            live = self._lb(c)
            for c2, k2, v2, del2 in d.log[i + 1:]:
                m = self.key_eq(k2, k, pc)
                if m is False:
                    continue
                live = z3.And(live, z3.Not(z3.And(self._lb(c2), self._lb(m))))
            live = z3.simplify(live)
            if self.pybool(live) is False:
                continue
            out.append((live, k, v))
        return out

    def container_set(self, obj, key, v, pc):
        if isinstance(obj, Guarded):
            for c, o in obj.alts:
                self.container_set(o, key, v, z3.And(pc, c))
            return
        if isinstance(obj, SDict):
            obj.log.append((pc, key, v, False))
            return
        if isinstance(obj, SList):
            if self.is_sym(key) or not all(self.pybool(c) is True for c, _ in obj.items):
                raise Unsupported("store into guarded list")
            c0, old = obj.items[key]
            obj.items[key] = (c0, self.ite(pc, v, old))
            return
        if isinstance(obj, Obj) and "__setitem__" in _mro_dict(obj.cls):
            self.call_function(_mro_dict(obj.cls)["__setitem__"], [obj, key, v], {}, pc)
            return
        raise Unsupported(f"item assignment on {type(obj).__name__} (concrete containers must live in a heap field)")

    def container_del(self, obj, key, pc):
        if isinstance(obj, SDict):
            found, _ = self.sdict_lookup(obj, key, pc)
            if self.pybool(found) is not True:
                self.raises.append((z3.And(pc, z3.Not(self.to_bool(found))), KeyError))
            obj.log.append((z3.And(pc, self.to_bool(found)), key, None, True))
            return
        raise Unsupported("del on this container")

    def contains(self, container, item, pc=TRUE):
        if isinstance(container, Undefined):
            raise UndefinedUse('use of an undefined value')
        if isinstance(item, Undefined):
            raise UndefinedUse('use of an undefined value')
        if isinstance(container, Guarded):
            return self._boolify(self.dist_pc(container, pc, lambda v, p: self._lb(self.contains(v, item, p))))
        if container is None:
            self.raises.append((pc, TypeError))
            return False
        if isinstance(container, SDict):
            return self.sdict_lookup(container, item, pc)[0]
        if isinstance(container, SList):
            cs = [z3.And(self._lb(c), self._lb(self.equal(v, item, pc))) for c, v in container.items]
            return self._boolify(z3.simplify(z3.Or(*cs))) if cs else False
        if isinstance(container, (dict, set, frozenset, types.MappingProxyType)) and not self.is_sym(item) \
                and not self._is_value_instance(item):
            try:
                return item in container
            except TypeError:
                pass
        if isinstance(container, (tuple, list, set, frozenset, dict, types.MappingProxyType, collections.deque,
                                  type({}.values()), type({}.keys()), type({}.items()))):
            cs = [self._lb(self.equal(x, item, pc)) for x in container]
            return self._boolify(z3.simplify(z3.Or(*cs))) if cs else False
        if isinstance(container, (str, Opaque)) or isinstance(item, (str, Opaque)):
            if isinstance(container, str) and isinstance(item, str):
                return item in container
            raise Unsupported("substring test on opaque string")
        if isinstance(container, Obj) and "__contains__" in _mro_dict(container.cls):
            return self._boolify(self.to_bool(self.call_function(_mro_dict(container.cls)["__contains__"], [container, item], {}, pc)))
        if isinstance(container, (SBytes, bytes)):
            raise Unsupported("in bytes")
        raise Unsupported(f"in {type(container).__name__}")

    def iterate(self, it, pc):
        """-> list of (cond, item)"""
        if isinstance(it, Undefined):
            raise UndefinedUse('use of an undefined value')
        if isinstance(it, Guarded):
            out = []
            for c, v in it.alts:
                if isinstance(v, Undefined):
                    continue
                out.extend((z3.And(c, self._lb(c2)), x) for c2, x in self.iterate(v, z3.And(pc, c)))
            return out
        if it is None:
            self.raises.append((pc, TypeError))        # 'NoneType' object is not iterable
            return []
        if isinstance(it, SList):
            return list(it.items)
        if isinstance(it, SDict):
            return [(c, k) for c, k, _ in self.sdict_entries(it, pc)]
        if isinstance(it, SBytes):
            return [(TRUE, self.byte_to_int(b)) for b in it.bs]
        if isinstance(it, (bytes, bytearray)):
            return [(TRUE, int(b)) for b in it]
        if isinstance(it, (list, tuple, range, dict, set, frozenset, collections.deque, types.MappingProxyType,
                           type({}.items()), type({}.keys()), type({}.values()), zip, enumerate, map, filter)):
            return [(TRUE, x) for x in it]
        if isinstance(it, type) and issubclass(it, enum.Enum):
            return [(TRUE, x) for x in it]
        if isinstance(it, Obj) and "__iter__" in _mro_dict(it.cls):
            raise Unsupported(f"__iter__ of {it.cls.__name__} (generator)")
        raise Unsupported(f"iterate over {type(it).__name__}")

    # ------------------------------------------------------------------ comprehensions
    def _comp(self, e, fr, pc, emit):
        env = dict(fr.env)
        sub = Frame(env, fr.glb, fr.qualname)

        def rec(gi, cond):
            if gi == len(e.generators):
                emit(sub, cond)
                return
            g = e.generators[gi]
            for c, item in self.iterate(self.ev(g.iter, sub, z3.And(pc, cond)), pc):
                self.assign(g.target, item, sub, pc)
                cc = z3.And(cond, self._lb(c))
                for f in g.ifs:
                    cc = z3.And(cc, self.to_bool(self.ev(f, sub, z3.And(pc, cc))))
                cc = z3.simplify(cc)
                if self.pybool(cc) is False:
                    continue
                rec(gi + 1, cc)
        rec(0, TRUE)

    def ev_ListComp(self, e, fr, pc):
        out = SList()
        self._comp(e, fr, pc, lambda sub, cond: out.items.append((cond, self.ev(e.elt, sub, z3.And(pc, cond)))))
        return out

    ev_GeneratorExp = ev_ListComp

    def ev_SetComp(self, e, fr, pc):
        out = SDict(is_set=True)
        self._comp(e, fr, pc, lambda sub, cond: out.log.append((cond, self.ev(e.elt, sub, z3.And(pc, cond)), True, False)))
        return out

    def ev_DictComp(self, e, fr, pc):
        out = SDict()
        self._comp(e, fr, pc, lambda sub, cond: out.log.append(
            (cond, self.ev(e.key, sub, z3.And(pc, cond)), self.ev(e.value, sub, z3.And(pc, cond)), False)))
        return out


def _mro_dict(cls):
    d = {}
    for k in reversed(cls.__mro__):
        d.update(k.__dict__)
    return d


def _is_generated(f):
    # dataclass-generated dunder methods have no retrievable source
    qn = getattr(f, "__qualname__", "")
    if "__create_fn__" in qn:
        return True
    code = getattr(f, "__code__", None)
    return code is not None and code.co_filename.startswith("<")


def inspect_getattr_static(cls, attr):
    for k in cls.__mro__:
        if attr in k.__dict__:
            return k.__dict__[attr]
    raise AttributeError(attr)


_MUTATORS = {"append", "appendleft", "pop", "popleft", "add", "discard", "remove", "clear", "update",
             "setdefault", "extend", "insert", "popitem"}
