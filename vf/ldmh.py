"""Harness for the Local Dynamic Map VCs (C12, C13, C14): an LDM (dictionary back-end, maintenance, service, IF.LDM.3/4)
in an arbitrary pre-state: a store of up to two records under symbolic identifiers, symbolic registries."""
import threading
import z3
from .calls import make
from .values import Obj, Opaque, SBytes, SDict, SList, Guarded, Undefined
from .interp import TRUE, FALSE
from .facil import logger, Clock

from flexstack.facilities.local_dynamic_map.dictionary_database import DictionaryDataBase
from flexstack.facilities.local_dynamic_map.ldm_maintenance import LDMMaintenance
from flexstack.facilities.local_dynamic_map.ldm_maintenance_reactive import LDMMaintenanceReactive
from flexstack.facilities.local_dynamic_map.ldm_service import LDMService
from flexstack.facilities.local_dynamic_map.ldm_service_reactive import LDMServiceReactive
from flexstack.facilities.local_dynamic_map.if_ldm_3 import InterfaceLDM3
from flexstack.facilities.local_dynamic_map.if_ldm_4 import InterfaceLDM4
from flexstack.facilities.local_dynamic_map import ldm_classes as LC
from flexstack.facilities.local_dynamic_map import ldm_constants as K
from flexstack.utils.time_service import TimeService

TYPES = ["cam", "denm", "vam", "ivim"]          # message-type menu of stored objects (ids 2, 1, 16, 6)
TYPE_ID = {"cam": 2, "denm": 1, "vam": 16, "ivim": 6}


class Rec:
    """one stored record (the dictionary AddDataProviderReq.to_dict produces) with symbolic leaves"""

    def __init__(self, I, tag, body=None, fixed_type=None):
        self.I, self.tag = I, tag
        self.fixed_type = fixed_type
        self.app = I.int_var(f"{tag}_app", 0, 30)
        self.ts = I.int_var(f"{tag}_timestamp", 0, 2 ** 42)
        self.validity = I.int_var(f"{tag}_validity", 0, 10 ** 6)
        self.lat = I.int_var(f"{tag}_lat", -900000000, 900000001)
        self.lon = I.int_var(f"{tag}_lon", -1800000000, 1800000001)
        self.alt = I.int_var(f"{tag}_alt", -100000, 800001)
        self.type = I.int_var(f"{tag}_type", 0, len(TYPES) - 1)
        self.station = I.int_var(f"{tag}_station", 0, 4294967295)
        self.payload = I.int_var(f"{tag}_payload", 0, 65535)
        self.body = body
        self.data_object = self.make_data_object()
        self.location = SDict([(TRUE, "referencePosition", SDict([
            (TRUE, "latitude", self.lat, False), (TRUE, "longitude", self.lon, False),
            (TRUE, "positionConfidenceEllipse", SDict([(TRUE, "semiMajorConfidence", 0, False), (TRUE, "semiMinorConfidence", 0, False),
                                                       (TRUE, "semiMajorOrientation", 0, False)]), False),
            (TRUE, "altitude", SDict([(TRUE, "altitudeValue", self.alt, False), (TRUE, "altitudeConfidence", 0, False)]), False)]), False),
            (TRUE, "referenceArea", SDict([(TRUE, "geometricArea", SDict([(TRUE, "circle", SDict([(TRUE, "radius", 0, False)]), False),
                                                                         (TRUE, "rectangle", None, False), (TRUE, "ellipse", None, False)]), False),
                                           (TRUE, "relevanceArea", SDict([(TRUE, "relevanceDistance", 1, False), (TRUE, "relevanceTrafficDirection", 0, False)]), False)]), False)])
        self.d = SDict([(TRUE, "application_id", self.app, False), (TRUE, "timestamp", self.ts, False), (TRUE, "location", self.location, False),
                        (TRUE, "dataObject", self.data_object, False), (TRUE, "timeValidity", self.validity, False)])

    def make_data_object(self):
        log = [(TRUE, "header", SDict([(TRUE, "protocolVersion", 2, False), (TRUE, "messageId", 2, False), (TRUE, "stationId", self.station, False)]), False)]
        for i, name in enumerate(TYPES):
            if self.fixed_type is not None and name != self.fixed_type:
                continue
            inner = self.body(self, name) if self.body is not None else SDict([(TRUE, "generationDeltaTime", self.payload, False)])
            log.append((TRUE if self.fixed_type is not None else self.type == i, name, inner, False))
        if self.fixed_type is not None:
            self.I.assumptions.append(self.type == TYPES.index(self.fixed_type))
        return SDict(log)

    def vars(self):
        return {t.decl().name(): t for t in (self.app, self.ts, self.validity, self.lat, self.lon, self.alt, self.type, self.station, self.payload)}

    def concrete(self, vals):
        t = self.tag
        return {"application_id": vals[f"{t}_app"], "timestamp": vals[f"{t}_timestamp"],
                "location": {"referencePosition": {"latitude": vals[f"{t}_lat"], "longitude": vals[f"{t}_lon"],
                                                   "positionConfidenceEllipse": {"semiMajorConfidence": 0, "semiMinorConfidence": 0, "semiMajorOrientation": 0},
                                                   "altitude": {"altitudeValue": vals[f"{t}_alt"], "altitudeConfidence": 0}},
                             "referenceArea": {"geometricArea": {"circle": {"radius": 0}, "rectangle": None, "ellipse": None},
                                               "relevanceArea": {"relevanceDistance": 1, "relevanceTrafficDirection": 0}}},
                "dataObject": self.concrete_data_object(vals), "timeValidity": vals[f"{t}_validity"]}

    def concrete_data_object(self, vals):
        t = self.tag
        return {"header": {"protocolVersion": 2, "messageId": 2, "stationId": vals[f"{t}_station"]},
                TYPES[vals[f"{t}_type"]]: {"generationDeltaTime": vals[f"{t}_payload"]}}

    def type_id(self):
        """integer id of this record's message type"""
        r = z3.IntVal(TYPE_ID[TYPES[-1]])
        for i in range(len(TYPES) - 2, -1, -1):
            r = z3.If(self.type == i, TYPE_ID[TYPES[i]], r)
        return r


class Ldm:
    def __init__(self, nrec=2, reactive=False, mode="int", body=None, I=None, fixed_type=None):
        self.I = I = I or make(mode)
        self.clock = Clock(I)
        I.stubs[TimeService.time] = self.clock.read
        self.recs = [Rec(I, f"r{i + 1}", body, fixed_type) for i in range(nrec)]
        self.keys = [I.int_var(f"id{i + 1}", 0, 10 ** 6) for i in range(nrec)]
        self.present = [z3.Bool(f"stored{i + 1}") for i in range(nrec)]
        self.next_id = I.int_var("next_id", 0, 10 ** 6 + 1)
        for i in range(nrec):
            # representation invariant: the ids of STORED records are below the allocator (an empty store has allocator 0: the first object gets id 0)
            I.assumptions.append(z3.Implies(self.present[i], self.keys[i] < self.next_id))
            for j in range(i):
                I.assumptions.append(self.keys[i] > self.keys[j])                  # distinct, insertion (= id) order
        self.store = SDict([(self.present[i], self.keys[i], self.recs[i].d, False) for i in range(nrec)])
        dbf = dict(vars(DictionaryDataBase()))          # every field as the constructor leaves it (a tree may add some), then the symbolic state
        dbf.update(database=self.store, _lock=threading.RLock(), _next_id=self.next_id)
        self.db = Obj(DictionaryDataBase, dbf)
        from unittest import mock
        area = LC.Location.initializer()
        mcls = LDMMaintenanceReactive if reactive else LDMMaintenance
        self.maint = Obj(mcls, dict(logging=logger(I), data_containers=self.db, area_of_maintenance=area, new_data_recieved_flag=0,
                                    last_trash_collection_time=0.0, lock=threading.Lock()))
        self.prov = [I.int_var(f"provider{i + 1}", 0, 30) for i in range(2)]
        self.prov_in = [z3.Bool(f"provider{i + 1}_registered") for i in range(2)]
        self.cons = [I.int_var(f"consumer{i + 1}", 0, 30) for i in range(2)]
        self.cons_in = [z3.Bool(f"consumer{i + 1}_registered") for i in range(2)]
        self.providers = SDict([(self.prov_in[i], self.prov[i], True, False) for i in range(2)], is_set=True)
        self.consumers = SDict([(self.cons_in[i], self.cons[i], True, False) for i in range(2)], is_set=True)
        scls = LDMServiceReactive if reactive else LDMService
        self.subscriptions = SList()
        self.last_checked = SDict()
        self.service = Obj(scls, dict(ldm_maintenance=self.maint, data_provider_its_aid=self.providers, data_consumer_its_aid=self.consumers,
                                      subscriptions=self.subscriptions, last_checked_subscriptions_time=self.last_checked, _lock=threading.RLock(),
                                      last_subscription_time=0.0, lock=threading.Lock()))
        # fields as the constructors set them (the deregistration lock only exists on trees that contain the C16 repair)
        self.if3 = Obj(InterfaceLDM3, dict(logging=logger(I), ldm_service=self.service, _deregistration_lock=threading.Lock()))
        self.if4 = Obj(InterfaceLDM4, dict(logging=logger(I), ldm_service=self.service, _deregistration_lock=threading.Lock()))
        self.n0_store = len(self.store.log)
        self.n0_prov = len(self.providers.log)
        self.n0_cons = len(self.consumers.log)

    # ------------------------------------------------------------ observations
    def pre_store(self):
        return SDict(self.store.log[:self.n0_store])

    def lookup(self, key, post=True):
        d = self.store if post else self.pre_store()
        found, val = self.I.sdict_lookup(d, key)
        return self.I._lb(found), val

    def registered(self, which, x, post=True):
        d = self.providers if which == "provider" else self.consumers
        n0 = self.n0_prov if which == "provider" else self.n0_cons
        if not post:
            d = SDict(d.log[:n0], is_set=True)
        return self.I._lb(self.I.sdict_lookup(d, x)[0])

    def registry_changed(self, which, exempt=None):
        """condition: membership of some id 0..30 differs between pre and post (except `exempt`)"""
        q = z3.Int(self.I.fresh("anyid"))
        c = self.registered(which, q, True) != self.registered(which, q, False)
        if exempt is not None:
            c = z3.And(c, q != exempt)
        return q, c

    def record_unchanged(self, i):
        """record i (if it was stored) is still stored under its id with identical content"""
        f, v = self.lookup(self.keys[i])
        same = z3.And(f, self.I._lb(self.I.equal(v, self.recs[i].d))) if self.I.pybool(f) is not False else FALSE
        return z3.Implies(self.present[i], same)

    def db_next_id(self):
        return self.I.num(self.db.fields["_next_id"])

    def vars(self):
        v = {}
        for r in self.recs:
            v.update(r.vars())
        for i, k in enumerate(self.keys):
            v[f"id{i + 1}"] = k
            v[f"stored{i + 1}"] = self.present[i]
        v["next_id"] = self.next_id
        for i in range(2):
            v[f"provider{i + 1}"] = self.prov[i]
            v[f"provider{i + 1}_registered"] = self.prov_in[i]
            v[f"consumer{i + 1}"] = self.cons[i]
            v[f"consumer{i + 1}_registered"] = self.cons_in[i]
        v.update(self.clock.vars())
        return v

    # ------------------------------------------------------------ the same pre-state on the real classes
    def real(self, vals, reactive=False, now=None):
        """(facility pieces) of a real LDM brought into the model's pre-state"""
        db = DictionaryDataBase()
        for i, r in enumerate(self.recs):
            if vals[f"stored{i + 1}"]:
                db.database[vals[f"id{i + 1}"]] = r.concrete(vals)
        db._next_id = vals["next_id"]
        area = LC.Location.initializer()
        maint = (LDMMaintenanceReactive if reactive else LDMMaintenance)(area, db)
        svc = (LDMServiceReactive if reactive else LDMService)(maint)
        for i in range(2):
            if vals[f"provider{i + 1}_registered"]:
                svc.data_provider_its_aid.add(vals[f"provider{i + 1}"])
            if vals[f"consumer{i + 1}_registered"]:
                svc.data_consumer_its_aid.add(vals[f"consumer{i + 1}"])
        return db, maint, svc, InterfaceLDM3(svc), InterfaceLDM4(svc)

    def patched_clock(self, vals):
        from unittest import mock
        times = [vals[n] for n in sorted(self.clock.vars(), key=lambda s: int(s[3:]))] or [1.7e9]
        return mock.patch.object(TimeService, "time", staticmethod(lambda: times.pop(0) if len(times) > 1 else times[0]))


def snapshot(db, svc):
    import copy
    return copy.deepcopy(db.database), db._next_id, set(svc.data_provider_its_aid), set(svc.data_consumer_its_aid)
