"""ASN.1 conformance oracle: walks the *compiled type tree of the repository's own ASN.1 text* (asn1tools) along a
symbolic message dictionary and returns, for every leaf, the condition under which the value violates its
constraint (INTEGER range, ENUMERATED name, CHOICE shape, SEQUENCE OF size, missing mandatory / unknown member).

The constraints are read at run time from the coder objects of /repo, never typed in."""
import z3
from .values import Obj, Opaque, SBytes, SDict, SList, Guarded, Undefined
from .interp import TRUE, FALSE

_CODERS = {}


def compiled(kind):
    """kind in CAM / VAM / DENM -> (coder object, top-level compiled type)"""
    if kind not in _CODERS:
        if kind == "CAM":
            from flexstack.facilities.ca_basic_service.cam_coder import CAMCoder
            c = CAMCoder()
        elif kind == "VAM":
            from flexstack.facilities.vru_awareness_service.vam_coder import VAMCoder
            c = VAMCoder()
        elif kind == "DENM":
            from flexstack.facilities.decentralized_environmental_notification_service.denm_coder import DENMCoder
            c = DENMCoder()
        else:
            raise KeyError(kind)
        _CODERS[kind] = (c, c.asn_coder.types[kind]._type)
    return _CODERS[kind]


def type_at(kind, *path):
    """compiled sub-type at a member path, e.g. type_at('CAM','cam','camParameters','basicContainer')"""
    t = compiled(kind)[1]
    for p in path:
        t = member(t, p)
    return t


def member(t, name):
    cn = type(t).__name__
    if cn in ("Sequence", "Set"):
        for m, _ in _members(t):
            if m.name == name:
                return m
    if cn == "Choice":
        for m in _choice_members(t):
            if m.name == name:
                return m
    if cn == "SequenceOf" and name == "[]":
        return t.element_type
    raise KeyError(f"{name} in {cn} {getattr(t, 'name', '')}")


def _members(t):
    """(member, is_extension_addition) of a SEQUENCE; addition groups are flattened"""
    out = [(m, False) for m in t.root_members]
    for a in (t.additions or []):
        for m in (a if isinstance(a, list) else [a]):
            if type(m).__name__ == "AdditionGroup" or m.name == "ExtensionAddition":
                out.extend((x, True) for x in getattr(m, "root_members", []))
            else:
                out.append((m, True))
    return out


def _choice_members(t):
    out = list(t.root_index_to_member.values())
    adds = getattr(t, "additions_index_to_member", None) or {}
    out.extend(adds.values())
    return out


def int_range(t):
    return t.minimum, t.maximum


class Conformance:
    def __init__(self, I):
        self.I = I
        self.bad = []          # (condition, path, message)
        self.leaves = 0

    def _add(self, cond, path, msg):
        if self.I.pybool(cond) is False:
            return
        self.bad.append((cond, path, msg))

    def check(self, v, t, pc=TRUE, path=""):
        I = self.I
        if isinstance(v, Guarded):
            for c, x in v.alts:
                if isinstance(x, Undefined):
                    continue
                self.check(x, t, z3.And(pc, c), path)
            return
        cn = type(t).__name__
        if cn == "Recursive":
            return
        if cn in ("Sequence", "Set"):
            if not isinstance(v, (SDict, dict)):
                self._add(pc, path, f"{cn} given as {type(v).__name__}")
                return
            d = I._as_sdict(I.lift_container(v) if isinstance(v, dict) else v)
            names = set()
            for m, is_add in _members(t):
                names.add(m.name)
                found, val = I.sdict_lookup(d, m.name, pc)
                fb = I._lb(found)
                if not (is_add or m.optional or getattr(m, "default", None) is not None or m.has_default()):
                    self._add(z3.And(pc, z3.Not(fb)), f"{path}.{m.name}", "mandatory member missing")
                if I.pybool(fb) is not False:
                    self.check(val, m, z3.And(pc, fb), f"{path}.{m.name}")
            for c, k, val in I.sdict_entries(d, pc):
                if isinstance(k, str) and k not in names:
                    self._add(z3.And(pc, c), f"{path}.{k}", "member unknown to the ASN.1 type (silently dropped by the coder)")
            return
        if cn == "Choice":
            if not (isinstance(v, tuple) and len(v) == 2 and isinstance(v[0], str)):
                self._add(pc, path, f"CHOICE given as {type(v).__name__} instead of (name, value)")
                return
            for m in _choice_members(t):
                if m.name == v[0]:
                    self.check(v[1], m, pc, f"{path}<{v[0]}>")
                    return
            self._add(pc, path, f"unknown CHOICE alternative {v[0]}")
            return
        if cn == "SequenceOf":
            if isinstance(v, (list, tuple)):
                v = SList([(TRUE, I.lift_container(x)) for x in v])
            if not isinstance(v, SList):
                self._add(pc, path, f"SEQUENCE OF given as {type(v).__name__}")
                return
            n = I.len_(v, pc)
            lo, hi = getattr(t, "minimum", None), getattr(t, "maximum", None)
            if lo is not None and not getattr(t, "has_extension_marker", False):
                c = z3.Or(I.num(n) < lo, I.num(n) > hi) if hi is not None else I.num(n) < lo
                self._add(z3.And(pc, I._lb(c) if not isinstance(c, bool) else z3.BoolVal(c)), path, f"SEQUENCE OF size outside {lo}..{hi}")
            for i, (c, x) in enumerate(v.items):
                self.check(x, t.element_type, z3.And(pc, I._lb(c)), f"{path}[{i}]")
            return
        self.leaves += 1
        if cn == "Integer":
            lo, hi = t.minimum, t.maximum
            if isinstance(v, bool) or not isinstance(v, (int, z3.ExprRef)) or isinstance(v, z3.BoolRef) or (isinstance(v, z3.ExprRef) and I.is_float_term(v)):
                self._add(pc, path, f"INTEGER given as {type(v).__name__}")
                return
            if getattr(t, "has_extension_marker", False):
                return
            if isinstance(v, int):
                if (lo is not None and v < lo) or (hi is not None and v > hi):
                    self._add(pc, path, f"value {v} outside {lo}..{hi}")
                return
            x = I.num(v)
            cs = []
            if lo not in (None, "MIN"):
                cs.append(x < lo)
            if hi not in (None, "MAX"):
                cs.append(x > hi)
            if cs:
                self._add(z3.And(pc, z3.Or(*cs)), path, f"outside {lo}..{hi}")
            return
        if cn == "Enumerated":
            names = set(t.root_data_to_index.keys()) if hasattr(t, "root_data_to_index") else set()
            adds = getattr(t, "additions_data_to_index", None) or {}
            names |= set(adds.keys())
            if not isinstance(v, str) or v not in names:
                self._add(pc, path, f"ENUMERATED value {v!r} not among the type's names")
            return
        if cn == "Boolean":
            if not isinstance(v, (bool, z3.BoolRef)):
                self._add(pc, path, f"BOOLEAN given as {type(v).__name__}")
            return
        if cn == "BitString":
            if not (isinstance(v, tuple) and len(v) == 2):
                self._add(pc, path, "BIT STRING must be (bytes, number of bits)")
            return
        if cn == "OctetString":
            if not isinstance(v, (bytes, bytearray, SBytes)):
                self._add(pc, path, f"OCTET STRING given as {type(v).__name__}")
            return
        # other leaf kinds (IA5String, UTF8String, Null, OpenType ...) are not constrained here

    def any_bad(self):
        return z3.Or(*[c for c, _, _ in self.bad]) if self.bad else FALSE

    def describe(self, model):
        out = []
        for c, p, m in self.bad:
            if z3.is_true(model.eval(c, model_completion=True)):
                out.append(f"{p}: {m}")
        return out


def concrete_violations(kind, msg, sub=None):
    """the same oracle on a concrete python message (used by replays): list of 'path: message'"""
    from .calls import make
    I = make("int")
    cf = Conformance(I)
    t = compiled(kind)[1] if sub is None else sub
    cf.check(I.lift_container(msg), t)
    return [f"{p}: {m}" for c, p, m in cf.bad if I.pybool(c) is not False]
