"""C07 - geo-addressed packets are delivered exactly inside the destination area."""
import math
import fractions
import z3
from ..calls import make
from ..values import Obj, EnumSym, SBytes, Guarded, SList
from ..interp import TRUE, FALSE
from ..runner import vc
from .. import symgn as G
from ..gnharness import Harness, sym_request, all_vars, build_real, eval_term, real_router, LOCAL_MID

from flexstack.geonet.router import Router, GNForwardingAlgorithmResponse, EARTH_RADIUS
from flexstack.geonet.mib import MIB
from flexstack.geonet.service_access_point import (Area, GeoBroadcastHST, GeoAnycastHST, HeaderType, PacketTransportType, GNDataRequest,
                                                    ResultCode)
from flexstack.geonet.gn_address import GNAddress, M, ST, MID


def Rr(x):
    fr = fractions.Fraction(x)
    return z3.RealVal(f"{fr.numerator}/{fr.denominator}")


SHAPES = [("circle", GeoBroadcastHST.GEOBROADCAST_CIRCLE), ("rect", GeoBroadcastHST.GEOBROADCAST_RECT), ("elip", GeoBroadcastHST.GEOBROADCAST_ELIP),
          ("circle", GeoAnycastHST.GEOANYCAST_CIRCLE), ("rect", GeoAnycastHST.GEOANYCAST_RECT), ("elip", GeoAnycastHST.GEOANYCAST_ELIP)]
ANGLES_QUICK = [0, 30, 90, 135, 270, 359]
ANGLES_FULL = list(range(0, 360, 15)) + [1, 44, 89, 91, 179, 181, 359]


def spec_F(shape, X, Y, a, b):
    """EN 302 931 clause 5: geometric function on the coordinates (X along the long side / semi-major axis,
    Y across) relative to the centre"""
    if shape == "circle":
        return 1 - (X / a) * (X / a) - (Y / a) * (Y / a)
    if shape == "elip":
        return 1 - (X / a) * (X / a) - (Y / b) * (Y / b)
    fx, fy = 1 - (X / a) * (X / a), 1 - (Y / b) * (Y / b)
    return z3.If(fx < fy, fx, fy)


def py_spec_F(shape, X, Y, a, b):
    if shape == "circle":
        return 1 - (X / a) ** 2 - (Y / a) ** 2
    if shape == "elip":
        return 1 - (X / a) ** 2 - (Y / b) ** 2
    return min(1 - (X / a) ** 2, 1 - (Y / b) ** 2)


def _geom_f(ctx, shape, hst):
    """F for one area sub-type incl. azimuth rotation, on arbitrary projected distances"""
    angles = ANGLES_QUICK if ctx.tier == "quick" else ANGLES_FULL
    if True:
        for ang in angles:
            I = make("int")
            x, y = z3.Real("x_code"), z3.Real("y_code")     # what calculate_distance returns: (-north, east) in metres
            I.stubs[Router.calculate_distance] = lambda it, a_, k, pc, x=x, y=y: (x, y)
            a, b = I.int_var("a", 1, 65535), I.int_var("b", 1, 65535)
            area = Obj(Area, dict(latitude=I.int_var("alat", -900000000, 900000000), longitude=I.int_var("alon", -1800000000, 1800000000),
                                  a=a, b=b, angle=ang))
            lat, lon = I.int_var("lat", -900000000, 900000000), I.int_var("lon", -1800000000, 1800000000)
            r, ll, _ = real_router()
            n0 = len(I.raises)
            f = I.call_function(Router.gn_geometric_function_f, [r, hst, area, lat, lon])
            exc = z3.Or(*[c for c, k in I.raises[n0:]]) if I.raises[n0:] else FALSE
            th = math.radians(ang)
            ct, st = Rr(math.cos(th)), Rr(math.sin(th))
            north, east = -x, y
            X = north * ct + east * st
            Y = -north * st + east * ct
            F = spec_F(shape, X, Y, z3.ToReal(a), z3.ToReal(b))
            tag = f"{hst.name}[angle={ang}]"
            vars_ = {"x_code": x, "y_code": y, "a": a, "b": b}
            band = z3.RealVal("1/1000000")

            def replay(vals, hst=hst, ang=ang, shape=shape):
                from unittest import mock
                rr, _, _ = real_router()
                ar = Area(latitude=0, longitude=0, a=vals["a"], b=vals["b"], angle=ang)
                with mock.patch.object(Router, "calculate_distance", staticmethod(lambda c1, c2: (vals["x_code"], vals["y_code"]))):
                    try:
                        got = rr.gn_geometric_function_f(hst, ar, 0, 0)
                    except Exception as e:
                        return True, f"{hst.name} raised {e!r}"
                n, e_ = -vals["x_code"], vals["y_code"]
                t = math.radians(ang)
                Xp, Yp = n * math.cos(t) + e_ * math.sin(t), -n * math.sin(t) + e_ * math.cos(t)
                want = py_spec_F(shape, Xp, Yp, vals["a"], vals["b"])
                bad = abs(want) > 1e-6 and (got >= 0) != (want >= 0)
                return bad, f"{hst.name} a={vals['a']} b={vals['b']} azimuth={ang} deg, point {n:.3f} m north / {e_:.3f} m east of the centre: F={got:.6g} ({'inside' if got >= 0 else 'outside'}), EN 302 931 gives {want:.6g} ({'inside' if want >= 0 else 'outside'})"
            ctx.witness(f"{tag}-reach-inside", I, z3.And(z3.Not(exc), f > 0, x == 1, y == 2), vars=vars_, validate=lambda v, rp=replay: not rp(v)[0])
            ctx.prove(f"{tag}-no-exception", I, exc, vars=vars_, replay=replay)
            ctx.prove(f"{tag}-inside-iff-F>=0", I, z3.And(z3.Not(exc), z3.Or(F > band, F < -band), (I.to_float(f) >= 0) != (F >= 0)), vars=vars_, replay=replay,
                      desc="sign of the implemented geometric function = sign of EN 302 931's F on the azimuth-rotated coordinates (band |F| <= 1e-6 around the border excluded)")
    ctx.bound(f"six area sub-types x azimuth menu {angles} degrees (cos/sin of the concrete angle as exact rationals of the doubles); projected distances arbitrary reals; "
              "semi-axes 1..65535 m symbolic; real arithmetic; border band |F| <= 1e-6 excluded")
    ctx.stub("Router.calculate_distance returns arbitrary reals (its own formula is VC G2b)")


def _replay_projection_args(vals):
    from unittest import mock
    r, _, _ = real_router()
    seen = []
    area = Area(latitude=vals["alat"], longitude=vals["alon"], a=100, b=50, angle=0)
    with mock.patch.object(Router, "calculate_distance", staticmethod(lambda c1, c2: (seen.append((c1, c2)), (1.0, 1.0))[1])):
        try:
            r.gn_geometric_function_f(GeoBroadcastHST.GEOBROADCAST_ELIP, area, vals["lat"], vals["lon"])
        except Exception as e:          # noqa
            return True, f"raised {e!r}"
    if not seen:
        return True, "the projection was not called"
    (c1, c2) = seen[0]
    want = ((vals["alat"] / 1e7, vals["alon"] / 1e7), (vals["lat"] / 1e7, vals["lon"] / 1e7))
    bad = any(abs(a - b) > 1e-9 for pa, pb in zip((c1, c2), want) for a, b in zip(pa, pb))
    return bad, f"calculate_distance called with {c1}, {c2}; centre and point in degrees are {want[0]}, {want[1]}"


def _mk_geom(shape, hst):
    @vc("C07", f"G2a-geometric-function-{hst.name.lower()}")
    def f(ctx):
        _geom_f(ctx, shape, hst)
    return f


for _shape, _hst in SHAPES:
    _mk_geom(_shape, _hst)


@vc("C07", "G2b-projection")
def projection(ctx):
    """calculate_distance = equirectangular projection; gn_geometric_function_f hands it centre and point in degrees"""
    I = make("int")
    lat1, lon1 = I.float_var("lat1", -90, 90), I.float_var("lon1", -180, 180)
    lat2, lon2 = I.float_var("lat2", -90, 90), I.float_var("lon2", -180, 180)
    out = I.call_function(Router.calculate_distance, [(lat1, lon1), (lat2, lon2)])
    k = Rr(math.pi / 180.0)
    mean = (lat1 * k + lat2 * k) / 2
    c, s = I.trig(mean)
    north = Rr(EARTH_RADIUS) * (lat2 * k - lat1 * k)
    east = Rr(EARTH_RADIUS) * (lon2 * k - lon1 * k) * c
    xs, ys = I.unpack(out, 2)
    vars_ = {"lat1": lat1, "lon1": lon1, "lat2": lat2, "lon2": lon2}

    def replay(vals):
        x, y = Router.calculate_distance((vals["lat1"], vals["lon1"]), (vals["lat2"], vals["lon2"]))
        n = EARTH_RADIUS * math.radians(vals["lat2"] - vals["lat1"])
        e = EARTH_RADIUS * math.radians(vals["lon2"] - vals["lon1"]) * math.cos(math.radians((vals["lat1"] + vals["lat2"]) / 2))
        bad = abs(-x - n) > 1e-6 * max(1, abs(n)) or abs(y - e) > 1e-6 * max(1, abs(e))
        return bad, f"calculate_distance -> (x={x}, y={y}); projection gives north={n}, east={e} (x must be -north, y east)"
    ctx.witness("reach", I, z3.And(xs != 0, ys != 0), vars=vars_)
    ctx.prove("x-is-minus-north-y-is-east", I, z3.Or(I.to_float(xs) != -north, I.to_float(ys) != east), vars=vars_, replay=replay,
              desc="x = -R*dlat, y = R*dlon*cos(mean latitude) (cos uninterpreted, shared with the oracle)")
    ctx.stub("math.cos/sin uninterpreted on the unit circle; math.radians = x * (pi/180 as the exact double)")
    # coordinates handed to the projection
    I2 = make("int")
    seen = []
    I2.stubs[Router.calculate_distance] = lambda it, a_, k_, pc: (seen.append(a_), (z3.Real("xx"), z3.Real("yy")))[1]
    area = Obj(Area, dict(latitude=I2.int_var("alat", -900000000, 900000000), longitude=I2.int_var("alon", -1800000000, 1800000000), a=100, b=50, angle=0))
    lat, lon = I2.int_var("lat", -900000000, 900000000), I2.int_var("lon", -1800000000, 1800000000)
    r, _, _ = real_router()
    I2.call_function(Router.gn_geometric_function_f, [r, GeoBroadcastHST.GEOBROADCAST_ELIP, area, lat, lon])
    (c1, c2), = seen
    bad = z3.Or(I2.to_float(c1[0]) * 10000000 != z3.ToReal(area.fields["latitude"]), I2.to_float(c1[1]) * 10000000 != z3.ToReal(area.fields["longitude"]),
                I2.to_float(c2[0]) * 10000000 != z3.ToReal(lat), I2.to_float(c2[1]) * 10000000 != z3.ToReal(lon))
    ctx.prove("centre-and-point-in-degrees", I2, bad, vars={"alat": area.fields["latitude"], "alon": area.fields["longitude"], "lat": lat, "lon": lon},
              replay=_replay_projection_args,
              desc="signed 1/10 micro-degree integers are converted to degrees and passed as (area centre, receiver position)")
    ctx.bound("all signed WGS-84 coordinates (both hemispheres)")


def area_m2(shape, a, b):
    pi = Rr(math.pi)
    if shape == "circle":
        return pi * a * a
    if shape == "elip":
        return pi * a * b
    return 4 * a * b


@vc("C07", "G3-area-size-control")
def area_size(ctx):
    """requests for areas above itsGnMaxGeoAreaSize are refused, nothing is sent; below they are accepted"""
    # G3a: the size kernel against the EN 302 931 formulas, all semi-axes
    for shape, hst in SHAPES:
        I = make("int")
        a, b = I.int_var("a", 0, 65535), I.int_var("b", 0, 65535)
        area = Obj(Area, dict(latitude=0, longitude=0, a=a, b=b, angle=0))
        sz = I.call_function(Router._compute_area_size_m2, [hst, area])
        want = area_m2(shape, z3.ToReal(a), z3.ToReal(b))
        ctx.witness(f"{hst.name}-size-reach", I, I.to_float(sz) > 1000000, vars={"a": a, "b": b})
        ctx.prove(f"{hst.name}-size-formula", I, I.to_float(sz) != want, vars={"a": a, "b": b},
                  replay=lambda v, hst=hst, shape=shape: (abs(Router._compute_area_size_m2(hst, Area(a=v["a"], b=v["b"])) -
                                                              {"circle": math.pi * v["a"] ** 2, "elip": math.pi * v["a"] * v["b"], "rect": 4.0 * v["a"] * v["b"]}[shape]) > 1e-6,
                                                          f"{hst.name} a={v['a']} b={v['b']}: _compute_area_size_m2 = {Router._compute_area_size_m2(hst, Area(a=v['a'], b=v['b']))}"),
                  desc="area = pi*a^2 (circle), pi*a*b (ellipse), 4*a*b (rectangle)")
    # G3b: the source operation uses it as the standard says (size as an arbitrary real)
    for ht, hst in ((HeaderType.GEOBROADCAST, GeoBroadcastHST.GEOBROADCAST_ELIP), (HeaderType.GEOANYCAST, GeoAnycastHST.GEOANYCAST_CIRCLE)):
        h = Harness(8 * 24 + 128, geom="free", greedy="free", area_size="free")
        I = h.I
        h.add_entry("nb")
        mx = I.int_var("max_km2", 1, 1000)
        mo = I.lift_value(h.R.mib)
        mo.fields["itsGnMaxGeoAreaSize"] = mx
        h.Ro.fields["mib"] = mo
        h.mib = mo
        h.set_sn(I.int_var("sn0", 0, 65534))
        req = sym_request(I, "rq", ht, hst, 2, None)
        meth = "gn_data_request_gbc" if ht == HeaderType.GEOBROADCAST else "gn_data_request_gac"
        conf = h.call(getattr(Router, meth), req)
        size = h.area_sizes[0][2]
        limit = z3.ToReal(I.bv2int(mx)) * 1000000
        too_large = size > limit
        code = conf.fields["result_code"]
        code = code.val if isinstance(code, EnumSym) else I.const(code.value)
        refused = code == I.const(ResultCode.GEOGRAPHICAL_SCOPE_TOO_LARGE.value)
        vars_ = all_vars(h, req)
        tag = hst.name

        def replay(vals, h=h, req=req, meth=meth, size=size, tag=tag):
            R_, ll, got, patches = build_real(h, vals)
            with patches:
                cf = getattr(R_, meth)(G.concretize(req, vals))
            sz = vals[size.decl().name()]
            lim = R_.mib.itsGnMaxGeoAreaSize * 1_000_000
            big = sz > lim
            bad = (big and (cf.result_code != ResultCode.GEOGRAPHICAL_SCOPE_TOO_LARGE or ll.sent)) or ((not big) and cf.result_code == ResultCode.GEOGRAPHICAL_SCOPE_TOO_LARGE)
            return bad, f"{tag}: area {sz} m2, limit {lim} m2 -> {cf.result_code.name}, packets sent {len(ll.sent)}"
        ctx.witness(f"{tag}-reach-refused", I, z3.And(refused, z3.Not(h.exc())), vars=vars_, validate=lambda v, rp=replay: not rp(v)[0])
        ctx.witness(f"{tag}-reach-sent", I, z3.And(h.any_send(), z3.Not(h.exc())), vars=vars_, validate=lambda v, rp=replay: not rp(v)[0])
        ctx.prove(f"{tag}-too-large-refused-and-nothing-sent", I, z3.And(too_large, z3.Not(h.exc()), z3.Or(z3.Not(refused), h.any_send())), vars=vars_, replay=replay,
                  desc="area > itsGnMaxGeoAreaSize km2 => GEOGRAPHICAL_SCOPE_TOO_LARGE and no transmission")
        ctx.prove(f"{tag}-within-limit-not-refused", I, z3.And(z3.Not(too_large), z3.Not(h.exc()), refused), vars=vars_, replay=replay,
                  desc="area <= limit => the request is not refused for its size")
        # the size is computed for the request's own sub-type and area
        (pc0, a0, s0), = h.area_sizes[:1]
        same = z3.And(I._lb(I.equal(a0[0], hst)), a0[1] is req.fields["area"])
        def replay_size_args(vals, h=h, req=req, meth=meth):
            from unittest import mock
            R_, ll, got, patches = build_real(h, vals)
            rq = G.concretize(req, vals)
            seen_ = []
            with patches, mock.patch.object(Router, "_compute_area_size_m2", staticmethod(lambda hst_, area_: (seen_.append((hst_, area_)), 0.0)[1])):
                getattr(R_, meth.__name__)(rq)
            ok_ = bool(seen_) and seen_[0][0] == rq.packet_transport_type.header_subtype and seen_[0][1] == rq.area
            return not ok_, f"area size computed for {seen_[:1]} while the request is {rq.packet_transport_type.header_subtype} {rq.area}"
        ctx.prove(f"{tag}-size-of-the-requested-area", I, z3.Not(same), vars=vars_, replay=replay_size_args)
    ctx.bound("size kernel: semi-axes 0..65535 m symbolic, six sub-types, formulas typed from EN 302 931; source operation: itsGnMaxGeoAreaSize 1..1000 km2 symbolic, "
              "area size an arbitrary non-negative real; real arithmetic")


def _cached_geom(h):
    """geometry stub that returns the same free value for the same (shape, area, position) arguments"""
    cache = {}

    def stub(it, a, k, pc):
        def key(v):
            if isinstance(v, z3.ExprRef):
                return ("t", v.get_id())
            if isinstance(v, Obj):
                return tuple((kk, key(x)) for kk, x in sorted(v.fields.items()))
            if isinstance(v, EnumSym):
                return ("e", v.cls.__name__, v.val.get_id())
            return ("c", repr(v))
        kk = tuple(key(x) for x in a[1:])
        if kk not in cache:
            f = z3.Real(it.fresh("F"))
            cache[kk] = f
            h.F.append((pc, a[1:], f))
        return cache[kk]
    h.I.stubs[Router.gn_geometric_function_f] = stub


@vc("C07", "G4-forwarding-algorithm-selection")
def selection(ctx):
    """Annex D: area forwarding iff ego inside; else discard iff the sender is known, position-accurate and inside; else non-area"""
    h = Harness(8 * 24 + 128, geom="free", greedy="free", area_size="free")
    I = h.I
    _cached_geom(h)
    se_addr = G.sym_gn_addr(I, "se")
    se = h.add_entry("sender", addr=se_addr)
    req = sym_request(I, "rq", HeaderType.GEOBROADCAST, GeoBroadcastHST.GEOBROADCAST_CIRCLE, 0, None)
    with_sender = z3.Bool("sender_given")
    res_a = h.call(Router.gn_forwarding_algorithm_selection, req, se_addr)
    res_n = h.call(Router.gn_forwarding_algorithm_selection, req, None)
    f_ego = h.F[0][2]
    f_se = h.F[1][2] if len(h.F) > 1 else None
    present = [p for a, p, e in h.entries if e is se][0]
    pai = I.to_bool(se.fields["position_vector"].fields["pai"])

    def val(r):
        return r.val if isinstance(r, EnumSym) else I.const(r.value)
    AREA, NON, DISC = (I.const(GNForwardingAlgorithmResponse.AREA_FORWARDING.value), I.const(GNForwardingAlgorithmResponse.NON_AREA_FORWARDING.value),
                       I.const(GNForwardingAlgorithmResponse.DISCARTED.value))
    want_a = z3.If(f_ego >= 0, AREA, z3.If(z3.And(present, pai, f_se >= 0) if f_se is not None else FALSE, DISC, NON))
    want_n = z3.If(f_ego >= 0, AREA, NON)
    vars_ = all_vars(h, req, se_addr)

    def replay(vals):
        R_, ll, got, patches = build_real(h, vals)
        with patches:
            ra = R_.gn_forwarding_algorithm_selection(G.concretize(req, vals), G.concretize(se_addr, vals))
        fe = vals[f_ego.decl().name()]
        fs = vals.get(f_se.decl().name()) if f_se is not None else None
        ent = R_.location_table.get_entry(G.concretize(se_addr, vals))
        want = "AREA_FORWARDING" if fe >= 0 else ("DISCARTED" if ent is not None and ent.position_vector.pai and fs is not None and fs >= 0 else "NON_AREA_FORWARDING")
        return ra.name != want, f"F(ego)={fe}, sender entry={'yes' if ent else 'no'} PAI={ent.position_vector.pai if ent else None} F(sender)={fs}: selected {ra.name}, Annex D says {want}"
    ctx.witness("reach-discard", I, val(res_a) == DISC, vars=vars_, validate=lambda v: not replay(v)[0])
    ctx.prove("annex-D-with-sender", I, val(res_a) != want_a, vars=vars_, replay=replay)
    ctx.prove("annex-D-source-operation", I, val(res_n) != want_n, vars=vars_, replay=replay,
              desc="without a sender (source operation): area forwarding iff ego inside, else non-area")
    ctx.bound("F(ego) and F(sender) arbitrary reals, sender entry present/absent with arbitrary PAI")
    ctx.stub("gn_geometric_function_f returns an arbitrary real per distinct argument tuple; location table = symbolic table")


def _rx_area(ctx, kind, code):
    """delivery decision of the GBC / GAC receivers and forwarder behaviour w.r.t. the area"""
    h = Harness(8 * 24 + 128 + 64, geom="free", greedy="free", area_size="free", ego="sym")
    I = h.I
    _cached_geom(h)
    P = 2
    pkt = G.sym_bytes("f", 12 + 44 + P)
    I.assumptions.append(pkt.bs[0] == 0x11)
    I.assumptions.append(pkt.bs[5] == code)
    so_off = 16
    import ast as _a
    b0 = I.byte_to_int(pkt.bs[so_off])
    so_addr = Obj(GNAddress, dict(m=EnumSym(M, I.binop(_a.BitAnd(), I.binop(_a.RShift(), b0, 7, TRUE), 1, TRUE)),
                                  st=EnumSym(ST, I.binop(_a.BitAnd(), I.binop(_a.RShift(), b0, 2, TRUE), 31, TRUE)),
                                  mid=Obj(MID, dict(mid=SBytes(pkt.bs[so_off + 2: so_off + 8])))))
    so = h.add_entry("so", addr=so_addr, present=TRUE)
    h.add_entry("nb")
    h.call(Router.gn_data_indicate, pkt)
    f_ego = h.F[0][2]
    own = I._lb(I.equal(SBytes(pkt.bs[so_off + 2: so_off + 8]), LOCAL_MID))
    dupc = z3.Or(*h.dup.values()) if h.dup else FALSE
    ok = z3.And(z3.Not(own), z3.Not(dupc), z3.ULE(pkt.bs[3], pkt.bs[10]), z3.Not(h.exc()))
    timers = [(c, t) for c, k, t in I.events if k == "timer.new"]
    fwd = z3.Or(h.any_send(), *[c for c, t in timers])
    size_over = z3.Or(*[z3.And(c, s > z3.ToReal(z3.IntVal(h.R.mib.itsGnMaxGeoAreaSize * 1000000))) for c, a, s in h.area_sizes]) if h.area_sizes else FALSE
    vars_ = all_vars(h)
    vars_["frame"] = pkt
    tag = kind

    def replay(vals):
        from unittest import mock
        R_, ll, got, patches = build_real(h, vals)
        made = []

        class FT:
            def __init__(self, *a, **k):
                made.append(self)
                self.daemon = True

            def start(self):
                pass

            def cancel(self):
                pass
        with patches, mock.patch("flexstack.geonet.router.Timer", FT):
            try:
                R_.gn_data_indicate(vals["frame"])
            except Exception as e:
                return False, f"raised {e!r}"
        fe = vals[f_ego.decl().name()]
        f = vals["frame"]
        valid = f[so_off + 2: so_off + 8] != LOCAL_MID and not R_.location_table.dup_methods and f[3] <= f[10]
        sizes = [vals[s.decl().name()] for c, a, s in h.area_sizes if vals.get("__pc__" + s.decl().name(), True)]
        over = any(s > R_.mib.itsGnMaxGeoAreaSize * 1000000 for s in sizes)
        msgs = []
        if valid and (fe >= 0) != bool(got):
            msgs.append(f"F(ego)={fe} but indications={len(got)}")
        if valid and over and (ll.sent or made):
            msgs.append("area above itsGnMaxGeoAreaSize was forwarded")
        return bool(msgs), f"{tag} frame {f.hex()}: " + "; ".join(msgs)
    ctx.witness(f"{tag}-reach-delivery", I, z3.And(ok, h.any_indication()), vars=vars_, validate=lambda v: not replay(v)[0])
    ctx.prove(f"{tag}-delivered-iff-inside", I, z3.And(ok, h.any_indication() != (f_ego >= 0)), vars=vars_, replay=replay,
              desc="the packet reaches the upper layer exactly when F(ego position) >= 0")
    # the decision is taken on the packet's own area - all five parameters - and the station's own position
    pc0, a0, _f0 = h.F[0]
    ext = 12
    want_area = {"latitude": I.from_bytes([SBytes(pkt.bs[ext + 28: ext + 32]), "big"], {"signed": True}, TRUE),
                 "longitude": I.from_bytes([SBytes(pkt.bs[ext + 32: ext + 36]), "big"], {"signed": True}, TRUE),
                 "a": I.from_bytes([SBytes(pkt.bs[ext + 36: ext + 38]), "big"], {}, TRUE), "b": I.from_bytes([SBytes(pkt.bs[ext + 38: ext + 40]), "big"], {}, TRUE),
                 "angle": I.from_bytes([SBytes(pkt.bs[ext + 40: ext + 42]), "big"], {}, TRUE)}
    area0 = a0[1]
    args_bad = [z3.Not(I._lb(I.equal(area0.fields[k_], v_))) for k_, v_ in want_area.items()] if isinstance(area0, Obj) else [TRUE]
    args_bad += [z3.Not(I._lb(I.equal(a0[2], h.ego.fields["latitude"]))), z3.Not(I._lb(I.equal(a0[3], h.ego.fields["longitude"])))]

    def replay_args(vals):
        from unittest import mock
        from flexstack.geonet.gbc_extended_header import GBCExtendedHeader
        R_, ll, got, patches = build_real(h, vals)
        seen = []
        with patches:
            orig = R_.gn_geometric_function_f
            R_.gn_geometric_function_f = lambda *a: (seen.append(a), orig(*a))[1]
            with mock.patch("flexstack.geonet.router.Timer", lambda *a, **k: mock.Mock()):
                try:
                    R_.gn_data_indicate(vals["frame"])
                except Exception as e:          # noqa
                    return False, f"raised {e!r}"
        if not seen:
            return False, "geometric function not evaluated"
        hdr = GBCExtendedHeader.decode(vals["frame"][12:56])
        _, area, lat, lon = seen[0][-4:]
        ego = R_.ego_position_vector
        want = (hdr.latitude, hdr.longitude, hdr.a, hdr.b, hdr.angle, ego.latitude, ego.longitude)
        gotv = (area.latitude, area.longitude, area.a, area.b, area.angle, lat, lon)
        return gotv != want, f"{tag}: area / position handed to the geometric function {gotv}; packet area and ego position {want}"
    ctx.prove(f"{tag}-decision-taken-on-the-packets-area-and-the-ego-position", I, z3.And(ok, pc0, z3.Or(*args_bad)), vars=vars_, replay=replay_args,
              desc="the geometric function is evaluated for the received area (centre, both distances and the azimuth angle) and the station's own latitude / longitude")
    ctx.prove(f"{tag}-oversized-area-not-forwarded", I, z3.And(ok, size_over, fwd), vars=vars_, replay=replay,
              desc="a packet whose area exceeds itsGnMaxGeoAreaSize is never re-transmitted (delivery inside the area is unaffected)")
    if kind.startswith("gbc"):
        # Annex D in the GBC forwarder: ego outside, sender known + PAI + inside => discard (no transmission)
        f_se = [f for pc, a, f in h.F[1:]]
        pai = I.to_bool(so.fields["position_vector"].fields["pai"])
        scf = (pkt.bs[6] & 0x80) != 0
        has_nb = z3.Or(*[c_ for c_, e_ in h.neighbours.items]) if h.neighbours.items else FALSE
        # store-carry-forward buffering (no neighbour and SCF set) is not implemented by the code: outside the claim
        disc = z3.And(f_ego < 0, pai, z3.Or(has_nb, z3.Not(scf)), z3.And(*[f >= 0 for f in f_se]) if f_se else FALSE)
        ctx.prove(f"{tag}-annex-D-discard-not-forwarded", I, z3.And(ok, disc, fwd) if f_se else FALSE, vars=vars_, replay=lambda v: _replay_disc(h, v, f_ego, so_off),
                  desc="forwarder outside the area whose sender is inside (position accurate) discards the packet")
    ctx.bound(f"{kind}: 58-octet frames, all octets symbolic except version/NH and HT/HST; F values and area size arbitrary reals per distinct argument tuple")


def _replay_disc(h, vals, f_ego, so_off):
    from unittest import mock
    R_, ll, got, patches = build_real(h, vals)
    made = []

    class FT:
        def __init__(self, *a, **k):
            made.append(self)
            self.daemon = True

        def start(self):
            pass

        def cancel(self):
            pass
    with patches, mock.patch("flexstack.geonet.router.Timer", FT):
        try:
            R_.gn_data_indicate(vals["frame"])
        except Exception as e:
            return False, f"raised {e!r}"
    return bool(ll.sent or made), f"Annex D verdict DISCARD (ego outside, sender inside with PAI) but the packet was re-transmitted ({len(ll.sent)} sent, {len(made)} buffered)"


@vc("C07", "G1-delivery-decision-gbc")
def rx_gbc(ctx):
    for kind, code in (("gbc-circle", 0x40), ("gbc-rect", 0x41), ("gbc-elip", 0x42)) if ctx.tier == "thorough" else (("gbc-rect", 0x41),):
        _rx_area(ctx, kind, code)


@vc("C07", "G1-delivery-decision-gac")
def rx_gac(ctx):
    for kind, code in (("gac-circle", 0x30), ("gac-rect", 0x31), ("gac-elip", 0x32)) if ctx.tier == "thorough" else (("gac-elip", 0x32),):
        _rx_area(ctx, kind, code)
