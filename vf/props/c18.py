"""C18 - the VRU clustering state machine stays consistent and never silences a VRU for good.

One-step VCs: every public method of VBSClusteringManager is evaluated from an arbitrary state satisfying the consistency
invariant CL (state, sub-states, cluster data, timers, clock and arguments symbolic).  CL preserved by every step gives the
property over event sequences of any length (induction = hand-written composition)."""
import ast
import z3
from ..calls import make
from ..values import Obj, Opaque, SBytes, SDict, SList, Guarded, Undefined
from ..interp import TRUE, FALSE
from ..runner import vc
from ..facil import logger, cond_or, num_eq, val_eq, val_cmp, path_get, as_num

import flexstack.facilities.vru_awareness_service.vru_clustering as VC
from flexstack.facilities.vru_awareness_service.vru_clustering import (VBSClusteringManager, VBSState, ClusterLeaveReason, ClusterBreakupReason,
                                                                         _JoinSubstate, _LeaveSubstate, _ClusterState, _NearbyVRU, _NearbyCluster)
from flexstack.facilities.vru_awareness_service import vam_constants as VK

STATES = list(VBSState)
JOINS = list(_JoinSubstate)
LEAVES = list(_LeaveSubstate)
LREASONS = list(ClusterLeaveReason)
BREASONS = list(ClusterBreakupReason)


def choice(name, members, allow_none=False):
    ch = z3.Int(name)
    alts = [(ch == i, m) for i, m in enumerate(members)]
    if allow_none:
        alts.append((ch == -1, None))
    rng = z3.And(ch >= (-1 if allow_none else 0), ch < len(members))
    return Guarded(alts), ch, rng


def opt(present, val):
    return Guarded([(present, val), (z3.Not(present), None)])


def is_none(I, v):
    if isinstance(v, Guarded):
        return z3.Or(*[z3.And(c, is_none(I, x)) for c, x in v.alts if not isinstance(x, Undefined)])
    return z3.BoolVal(v is None)


def is_member(I, v, m):
    if isinstance(v, Guarded):
        return z3.Or(*[z3.And(c, is_member(I, x, m)) for c, x in v.alts if not isinstance(x, Undefined)])
    return z3.BoolVal(v is m)


class Mgr:
    """a VBSClusteringManager in an arbitrary state"""

    def __init__(self, I=None):
        self.I = I = I or make("int")
        self.now = I.float_var("now", 1.0e9, 2.0e9)
        self.reads = 0
        real = VBSClusteringManager(1)
        f = dict(vars(real))
        tf = Opaque("time_fn")
        I.stubs[id(tf)] = lambda it, name, a, k, pc: self.now
        f["_time_fn"] = tf
        self.own = I.int_var("own_station_id", 0, 4294967295)
        f["_own_station_id"] = self.own
        self.state, self.state_ch, r1 = choice("state", STATES)
        self.join, self.join_ch, r2 = choice("join_substate", JOINS)
        self.leave, self.leave_ch, r3 = choice("leave_substate", LEAVES)
        jr, self.jr_ch, r4 = choice("join_leave_reason", LREASONS, True)
        lr, self.lr_ch, r5 = choice("leave_reason", LREASONS, True)
        br, self.br_ch, r6 = choice("breakup_reason", BREASONS, True)
        I.assumptions += [r1, r2, r3, r4, r5, r6]
        t = lambda n: I.float_var(n, 0.9e9, 2.0e9)
        b = lambda n: z3.Bool(n)
        self.v = dict(
            has_cluster=b("has_cluster"), cluster_id=I.int_var("cluster_id", -3, 300), cardinality=I.int_var("cardinality", -3, 300),
            radius=I.float_var("radius", 0, 1000), breaking=b("breaking_up"), breakup_started=t("breakup_started"),
            has_joined=b("has_joined_cluster_id"), joined=I.int_var("joined_cluster_id", 0, 255),
            has_leader=b("has_leader_station_id"), leader=I.int_var("leader_station_id", 0, 4294967295),
            has_last_leader=b("has_last_leader_vam_time"), last_leader=t("last_leader_vam_time"),
            has_target=b("has_join_target"), target=I.int_var("join_target_cluster_id", 0, 255),
            has_join_started=b("has_join_started"), join_started=t("join_started"),
            has_jl_started=b("has_join_leave_started"), jl_started=t("join_leave_started"),
            has_leave_started=b("has_leave_started"), leave_started=t("leave_started"),
            has_leave_cid=b("has_leave_cluster_id"), leave_cid=I.int_var("leave_cluster_id", 0, 255),
            nearby_vru=b("has_nearby_vru"), nearby_vru_id=I.int_var("nearby_vru_id", 0, 4294967295), nearby_vru_seen=t("nearby_vru_last_seen"),
            nearby_cluster=b("has_nearby_cluster"), nearby_cluster_id=I.int_var("nearby_cluster_id", 0, 255), nearby_cluster_seen=t("nearby_cluster_last_seen"),
            seen_cid=b("has_seen_cluster_id"), seen_cluster_id=I.int_var("seen_cluster_id", 0, 255), seen_time=t("seen_cluster_id_time"))
        v = self.v
        for k in ("breakup_started", "last_leader", "join_started", "jl_started", "leave_started", "nearby_vru_seen", "nearby_cluster_seen", "seen_time"):
            I.assumptions.append(v[k] <= self.now)                 # timestamps were taken from the (monotone) clock
        self.cluster = Obj(_ClusterState, dict(cluster_id=v["cluster_id"], cardinality=v["cardinality"], profiles=SDict([(TRUE, "pedestrian", True, False)], is_set=True),
                                               radius=v["radius"], breakup_started=opt(v["breaking"], v["breakup_started"]), breakup_reason=br,
                                               pending_members=SDict(is_set=True)))
        nv = Obj(_NearbyVRU, dict(station_id=v["nearby_vru_id"], lat=I.float_var("nv_lat", -90, 90), lon=I.float_var("nv_lon", -180, 180), speed=I.float_var("nv_speed", 0, 50),
                                  heading=I.float_var("nv_heading", 0, 360), last_seen=v["nearby_vru_seen"]))
        nc = Obj(_NearbyCluster, dict(cluster_id=v["nearby_cluster_id"], leader_station_id=I.int_var("nc_leader", 0, 4294967295), cardinality=I.int_var("nc_card", 1, 255),
                                      lat=I.float_var("nc_lat", -90, 90), lon=I.float_var("nc_lon", -180, 180), speed=I.float_var("nc_speed", 0, 50),
                                      heading=I.float_var("nc_heading", 0, 360), bounding_box_radius=None, last_seen=v["nearby_cluster_seen"]))
        f.update(_state=self.state, _cluster=opt(v["has_cluster"], self.cluster), _joined_cluster_id=opt(v["has_joined"], v["joined"]),
                 _leader_station_id=opt(v["has_leader"], v["leader"]), _last_leader_vam_time=opt(v["has_last_leader"], v["last_leader"]),
                 _join_substate=self.join, _join_target_cluster_id=opt(v["has_target"], v["target"]), _join_started=opt(v["has_join_started"], v["join_started"]),
                 _join_leave_reason=jr, _join_leave_started=opt(v["has_jl_started"], v["jl_started"]), _leave_substate=self.leave, _leave_reason=lr,
                 _leave_cluster_id=opt(v["has_leave_cid"], v["leave_cid"]), _leave_started=opt(v["has_leave_started"], v["leave_started"]),
                 _nearby_vrus=SDict([(v["nearby_vru"], v["nearby_vru_id"], nv, False)]),
                 _nearby_clusters=SDict([(v["nearby_cluster"], v["nearby_cluster_id"], nc, False)]),
                 _seen_cluster_ids=SDict([(v["seen_cid"], v["seen_cluster_id"], v["seen_time"], False)]))
        self.o = Obj(VBSClusteringManager, f)
        I.stubs[VC._haversine_distance] = self._hav
        self.havs = []
        import random
        self.rnd = []
        I.stubs[random.randint] = self._rand
        lg = VC.logger
        I.stubs[id(lg)] = lambda it, name, a, k, pc: None
        self.pre_inv = self.inv(pre=True)

    def _hav(self, it, a, k, pc):
        d = z3.Real(it.fresh("distance_m"))
        it.assumptions.append(d >= 0)
        self.havs.append(d)
        return d

    def _rand(self, it, a, k, pc):
        r = it.int_var(f"random{len(self.rnd)}")
        it.assumptions.append(z3.And(r >= it.num(a[0]), r <= it.num(a[1])))
        self.rnd.append(r)
        return r

    # ---------------------------------------------------------------- state predicates (on the current fields of the object)
    def st(self, member):
        return is_member(self.I, self.o.fields["_state"], member)

    def js(self, member):
        return is_member(self.I, self.o.fields["_join_substate"], member)

    def ls(self, member):
        return is_member(self.I, self.o.fields["_leave_substate"], member)

    def none(self, field):
        return is_none(self.I, self.o.fields[field])

    def cluster_field(self, name):
        """value of a field of the current own-cluster object (guarded)"""
        c = self.o.fields["_cluster"]
        alts = c.alts if isinstance(c, Guarded) else [(TRUE, c)]
        out = []
        for cnd, x in alts:
            if isinstance(x, Obj):
                out.append((cnd, x.fields[name]))
        return Guarded(out) if out else None

    def inv(self, pre=False):
        I = self.I
        has_cluster = z3.Not(self.none("_cluster"))
        cid, card = self.cluster_field("cluster_id"), self.cluster_field("cardinality")
        cl_ok = z3.And(val_cmp(I, ast.GtE, cid, 1), val_cmp(I, ast.LtE, cid, 255), val_cmp(I, ast.GtE, card, 1)) if cid is not None else FALSE
        leader = self.st(VBSState.VRU_ACTIVE_CLUSTER_LEADER)
        passive = self.st(VBSState.VRU_PASSIVE)
        i1 = z3.And(leader == has_cluster, z3.Implies(has_cluster, cl_ok))
        i2 = z3.And(*[passive == z3.Not(self.none(f)) for f in ("_joined_cluster_id", "_leader_station_id", "_last_leader_vam_time")])
        i3 = z3.And(z3.Implies(z3.Or(self.js(_JoinSubstate.NOTIFY), self.js(_JoinSubstate.WAITING)),
                               z3.And(z3.Not(self.none("_join_started")), z3.Not(self.none("_join_target_cluster_id")))),
                    z3.Implies(z3.Or(self.js(_JoinSubstate.CANCELLED), self.js(_JoinSubstate.FAILED)), z3.Not(self.none("_join_leave_started"))),
                    z3.Implies(self.ls(_LeaveSubstate.NOTIFY), z3.Not(self.none("_leave_started"))))
        idle = self.st(VBSState.VRU_IDLE)
        i4 = z3.And(z3.Implies(idle, z3.And(self.js(_JoinSubstate.NONE), self.ls(_LeaveSubstate.NONE))), self.js(_JoinSubstate.JOINED) == passive)
        return {"leader-iff-own-cluster-1..255-cardinality>=1": i1, "passive-iff-joined-cluster+leader+armed-timer": i2, "sub-state-timers-armed": i3,
                "idle-has-no-cluster-relationship+joined-iff-passive": i4}

    def vars(self):
        v = {"now": self.now, "own_station_id": self.own, "state": self.state_ch, "join_substate": self.join_ch, "leave_substate": self.leave_ch,
             "join_leave_reason": self.jr_ch, "leave_reason": self.lr_ch, "breakup_reason": self.br_ch}
        for k, t in self.v.items():
            v[t.decl().name()] = t
        for d in self.havs:
            v[d.decl().name()] = d
        for r in self.rnd:
            v[r.decl().name()] = r
        return v

    # ---------------------------------------------------------------- the same state on a real manager
    def real(self, vals):
        clock = {"t": vals["now"]}
        m = VBSClusteringManager(vals["own_station_id"], time_fn=lambda: clock["t"])
        pick = lambda lst, i: lst[i] if 0 <= i < len(lst) else None
        m._state = STATES[vals["state"]]
        m._join_substate = JOINS[vals["join_substate"]]
        m._leave_substate = LEAVES[vals["leave_substate"]]
        m._join_leave_reason = pick(LREASONS, vals["join_leave_reason"])
        m._leave_reason = pick(LREASONS, vals["leave_reason"])
        if vals["has_cluster"]:
            m._cluster = _ClusterState(cluster_id=vals["cluster_id"], cardinality=vals["cardinality"], profiles={"pedestrian"}, radius=vals["radius"],
                                       breakup_started=vals["breakup_started"] if vals["breaking_up"] else None, breakup_reason=pick(BREASONS, vals["breakup_reason"]))
        g = lambda flag, key: vals[key] if vals[flag] else None
        m._joined_cluster_id = g("has_joined_cluster_id", "joined_cluster_id")
        m._leader_station_id = g("has_leader_station_id", "leader_station_id")
        m._last_leader_vam_time = g("has_last_leader_vam_time", "last_leader_vam_time")
        m._join_target_cluster_id = g("has_join_target", "join_target_cluster_id")
        m._join_started = g("has_join_started", "join_started")
        m._join_leave_started = g("has_join_leave_started", "join_leave_started")
        m._leave_started = g("has_leave_started", "leave_started")
        m._leave_cluster_id = g("has_leave_cluster_id", "leave_cluster_id")
        if vals["has_nearby_vru"]:
            m._nearby_vrus[vals["nearby_vru_id"]] = _NearbyVRU(vals["nearby_vru_id"], 0.0, 0.0, 0.0, 0.0, vals["nearby_vru_last_seen"])
        if vals["has_nearby_cluster"]:
            m._nearby_clusters[vals["nearby_cluster_id"]] = _NearbyCluster(vals["nearby_cluster_id"], 5, 1, 0.0, 0.0, 0.0, 0.0, None, vals["nearby_cluster_last_seen"])
        if vals["has_seen_cluster_id"]:
            m._seen_cluster_ids[vals["seen_cluster_id"]] = vals["seen_cluster_id_time"]
        return m, clock


def real_inv(m):
    """CL on a real manager: list of violated parts"""
    bad = []
    leader, passive = m._state is VBSState.VRU_ACTIVE_CLUSTER_LEADER, m._state is VBSState.VRU_PASSIVE
    if leader != (m._cluster is not None) or (m._cluster is not None and not (1 <= m._cluster.cluster_id <= 255 and m._cluster.cardinality >= 1)):
        bad.append(f"state {m._state.value} with own cluster {m._cluster}")
    for f in ("_joined_cluster_id", "_leader_station_id", "_last_leader_vam_time"):
        if passive != (getattr(m, f) is not None):
            bad.append(f"state {m._state.value} with {f}={getattr(m, f)}")
    if m._join_substate in (_JoinSubstate.NOTIFY, _JoinSubstate.WAITING) and (m._join_started is None or m._join_target_cluster_id is None):
        bad.append(f"join sub-state {m._join_substate.value} without start time / target")
    if m._join_substate in (_JoinSubstate.CANCELLED, _JoinSubstate.FAILED) and m._join_leave_started is None:
        bad.append(f"join sub-state {m._join_substate.value} without leave-notification start time")
    if m._leave_substate is _LeaveSubstate.NOTIFY and m._leave_started is None:
        bad.append("leave notification without start time")
    if m._state is VBSState.VRU_IDLE and (m._join_substate is not _JoinSubstate.NONE or m._leave_substate is not _LeaveSubstate.NONE):
        bad.append(f"VRU_IDLE with join sub-state {m._join_substate.value} / leave sub-state {m._leave_substate.value}")
    if (m._join_substate is _JoinSubstate.JOINED) != passive:
        bad.append(f"state {m._state.value} with join sub-state {m._join_substate.value}")
    return bad


def vam_dict(I, tag="rx"):
    """a decoded VAM in the shape the UPER decoder produces (CHOICE = (name, value) tuple), containers optionally present"""
    v = dict(sender=I.int_var(f"{tag}_sender", 0, 4294967295), lat=I.int_var(f"{tag}_lat", -900000000, 900000001), lon=I.int_var(f"{tag}_lon", -1800000000, 1800000001),
             has_hf=z3.Bool(f"{tag}_has_hf"), speed=I.int_var(f"{tag}_speed", 0, 16383), heading=I.int_var(f"{tag}_heading", 0, 3601),
             has_info=z3.Bool(f"{tag}_has_cluster_info"), has_cid=z3.Bool(f"{tag}_has_cluster_id"), cid=I.int_var(f"{tag}_cluster_id", 0, 255),
             has_bbox=z3.Bool(f"{tag}_has_bounding_box"), radius=I.int_var(f"{tag}_radius", 0, 4095), card=I.int_var(f"{tag}_cardinality", 0, 255),
             has_op=z3.Bool(f"{tag}_has_cluster_operation"), has_join=z3.Bool(f"{tag}_has_join_info"), join_cid=I.int_var(f"{tag}_join_cluster_id", 0, 255),
             has_leave=z3.Bool(f"{tag}_has_leave_info"), leave_cid=I.int_var(f"{tag}_leave_cluster_id", 0, 255),
             has_breakup=z3.Bool(f"{tag}_has_breakup_info"), breakup_cpm=z3.Bool(f"{tag}_breakup_reason_is_cpm"))
    bbox = ("circular", SDict([(TRUE, "radius", v["radius"], False)]))
    info = SDict([(TRUE, "vruClusterInformation", SDict([(v["has_cid"], "clusterId", v["cid"], False), (v["has_bbox"], "clusterBoundingBoxShape", bbox, False),
                                                          (TRUE, "clusterCardinalitySize", v["card"], False)]), False)])
    reason = Guarded([(v["breakup_cpm"], "receptionOfCpmContainingCluster"), (z3.Not(v["breakup_cpm"]), "clusteringPurposeCompleted")])
    op = SDict([(v["has_join"], "clusterJoinInfo", SDict([(TRUE, "clusterId", v["join_cid"], False), (TRUE, "joinTime", 4, False)]), False),
                (v["has_leave"], "clusterLeaveInfo", SDict([(TRUE, "clusterId", v["leave_cid"], False), (TRUE, "clusterLeaveReason", "notProvided", False)]), False),
                (v["has_breakup"], "clusterBreakupInfo", SDict([(TRUE, "clusterBreakupReason", reason, False), (TRUE, "breakupTime", 4, False)]), False)])
    params = SDict([(TRUE, "basicContainer", SDict([(TRUE, "stationType", 1, False),
                                                    (TRUE, "referencePosition", SDict([(TRUE, "latitude", v["lat"], False), (TRUE, "longitude", v["lon"], False)]), False)]), False),
                    (v["has_hf"], "vruHighFrequencyContainer", SDict([(TRUE, "speed", SDict([(TRUE, "speedValue", v["speed"], False)]), False),
                                                                      (TRUE, "heading", SDict([(TRUE, "value", v["heading"], False)]), False)]), False),
                    (v["has_info"], "vruClusterInformationContainer", info, False), (v["has_op"], "vruClusterOperationContainer", op, False)])
    d = SDict([(TRUE, "header", SDict([(TRUE, "protocolVersion", 3, False), (TRUE, "messageId", 16, False), (TRUE, "stationId", v["sender"], False)]), False),
               (TRUE, "vam", SDict([(TRUE, "generationDeltaTime", 0, False), (TRUE, "vamParameters", params, False)]), False)])
    return d, v


def real_vam(vals, tag="rx"):
    g = lambda k: vals[f"{tag}_{k}"]
    params = {"basicContainer": {"stationType": 1, "referencePosition": {"latitude": g("lat"), "longitude": g("lon")}}}
    if g("has_hf"):
        params["vruHighFrequencyContainer"] = {"speed": {"speedValue": g("speed")}, "heading": {"value": g("heading")}}
    if g("has_cluster_info"):
        ci = {"clusterCardinalitySize": g("cardinality")}
        if g("has_cluster_id"):
            ci["clusterId"] = g("cluster_id")
        if g("has_bounding_box"):
            ci["clusterBoundingBoxShape"] = ("circular", {"radius": g("radius")})
        params["vruClusterInformationContainer"] = {"vruClusterInformation": ci}
    if g("has_cluster_operation"):
        op = {}
        if g("has_join_info"):
            op["clusterJoinInfo"] = {"clusterId": g("join_cluster_id"), "joinTime": 4}
        if g("has_leave_info"):
            op["clusterLeaveInfo"] = {"clusterId": g("leave_cluster_id"), "clusterLeaveReason": "notProvided"}
        if g("has_breakup_info"):
            op["clusterBreakupInfo"] = {"clusterBreakupReason": "receptionOfCpmContainingCluster" if g("breakup_reason_is_cpm") else "clusteringPurposeCompleted", "breakupTime": 4}
        params["vruClusterOperationContainer"] = op
    return {"header": {"protocolVersion": 3, "messageId": 16, "stationId": g("sender")}, "vam": {"generationDeltaTime": 0, "vamParameters": params}}


# ---------------------------------------------------------------------------------------------- the event alphabet
def events(I):
    """name -> (call on the symbolic manager, call on the real manager, extra vars)"""
    lat, lon = I.float_var("own_lat", -90, 90), I.float_var("own_lon", -180, 180)
    spd, hdg = I.float_var("own_speed", 0, 50), I.float_var("own_heading", 0, 360)
    jc = I.int_var("arg_cluster_id", 0, 255)
    lr, lr_ch, lr_rng = choice("arg_leave_reason", LREASONS)
    br, br_ch, br_rng = choice("arg_breakup_reason", BREASONS)
    I.assumptions += [lr_rng, br_rng]
    vam, vv = vam_dict(I)
    pos = dict(own_lat=lat, own_lon=lon, own_speed=spd, own_heading=hdg)
    C = VBSClusteringManager
    return {
        "set_vru_role_on": (lambda o: I.call_function(C.set_vru_role_on, [o]), lambda m, v: m.set_vru_role_on(), {}),
        "set_vru_role_off": (lambda o: I.call_function(C.set_vru_role_off, [o]), lambda m, v: m.set_vru_role_off(), {}),
        "try_create_cluster": (lambda o: I.call_function(C.try_create_cluster, [o, lat, lon]), lambda m, v: m.try_create_cluster(v["own_lat"], v["own_lon"]), pos),
        "initiate_join": (lambda o: I.call_function(C.initiate_join, [o, jc]), lambda m, v: m.initiate_join(v["arg_cluster_id"]), {"arg_cluster_id": jc}),
        "cancel_join": (lambda o: I.call_function(C.cancel_join, [o]), lambda m, v: m.cancel_join(), {}),
        "confirm_join_failed": (lambda o: I.call_function(C.confirm_join_failed, [o]), lambda m, v: m.confirm_join_failed(), {}),
        "trigger_leave_cluster": (lambda o: I.call_function(C.trigger_leave_cluster, [o, lr]), lambda m, v: m.trigger_leave_cluster(LREASONS[v["arg_leave_reason"]]),
                                  {"arg_leave_reason": lr_ch}),
        "trigger_breakup_cluster": (lambda o: I.call_function(C.trigger_breakup_cluster, [o, br]),
                                    lambda m, v: m.trigger_breakup_cluster(BREASONS[v["arg_breakup_reason"]]), {"arg_breakup_reason": br_ch}),
        "update": (lambda o: I.call_function(C.update, [o, lat, lon, spd, hdg]), lambda m, v: m.update(v["own_lat"], v["own_lon"], v["own_speed"], v["own_heading"]), pos),
        "on_received_vam": (lambda o: I.call_function(C.on_received_vam, [o, vam]), lambda m, v: m.on_received_vam(real_vam(v)),
                            {t.decl().name(): t for t in vv.values()}),
    }, vv


def patched_env(h, vals):
    """haversine / random values of the model for the real run"""
    from unittest import mock
    import contextlib
    havs = [vals[d.decl().name()] for d in h.havs]
    rnds = [vals[r.decl().name()] for r in h.rnd]
    st = contextlib.ExitStack()
    st.enter_context(mock.patch.object(VC, "_haversine_distance", lambda *a: havs.pop(0) if len(havs) > 1 else (havs[0] if havs else 0.0)))
    import random
    st.enter_context(mock.patch.object(random, "randint", lambda a, b: rnds.pop(0) if len(rnds) > 1 else (rnds[0] if rnds else a)))
    return st


# ---------------------------------------------------------------------------------------------- Z1 invariant preserved
@vc("C18", "Z1-consistency-preserved-by-every-event")
def invariant(ctx):
    names = ["set_vru_role_on", "set_vru_role_off", "try_create_cluster", "initiate_join", "cancel_join", "confirm_join_failed", "trigger_leave_cluster",
             "trigger_breakup_cluster", "update", "on_received_vam"]
    for name in names:
        h = Mgr()
        I = h.I
        ev, vv = events(I)
        sym, realf, extra = ev[name]
        pre = z3.And(*h.pre_inv.values())
        sym(h.o)
        exc = cond_or(c for c, _ in I.raises)
        post = h.inv()
        vars_ = h.vars()
        vars_.update(extra)

        def replay(vals, h=h, realf=realf, name=name):
            m, clock = h.real(vals)
            before = real_inv(m)
            if before:
                return False, "pre-state violates CL: " + "; ".join(before)
            try:
                with patched_env(h, vals):
                    realf(m, vals)
            except Exception as e:
                return True, f"{name} raised {type(e).__name__}: {e}"
            after = real_inv(m)
            return bool(after), f"after {name}: " + ("; ".join(after) or "CL holds")
        ctx.witness(f"{name}-reach", I, z3.And(pre, z3.Not(exc)), vars=vars_, validate=lambda v, rp=replay: not rp(v)[0], good=z3.And(*post.values()))
        ctx.prove(f"{name}-no-exception", I, z3.And(pre, exc), vars=vars_, replay=replay,
                  desc=f"{name} raises from no consistent state")
        for label, cond in post.items():
            ctx.prove(f"{name}-keeps-{label}", I, z3.And(pre, z3.Not(exc), z3.Not(cond)), vars=vars_, replay=replay)
    ctx.bound("arbitrary state satisfying CL: VBS state, join / leave sub-states, reasons, own cluster (id, cardinality, radius, breakup), joined cluster / leader / timer, all "
              "timestamps <= now, one nearby VRU, one nearby cluster, one recently seen cluster id; arbitrary arguments; received VAM in decoder shape with every container optional")
    ctx.stub("time_fn returns the symbolic clock; haversine distance free non-negative real; random.randint arbitrary in range; logger ignored")


# ---------------------------------------------------------------------------------------------- Z2 transmission gate
@vc("C18", "Z2-transmission-suppressed-only-passive-or-idle")
def gate(ctx):
    h = Mgr()
    I = h.I
    r = I.call_function(VBSClusteringManager.should_transmit_vam, [h.o])
    tx = I.to_bool(r)
    pre = z3.And(*h.pre_inv.values())
    vars_ = h.vars()

    def replay(vals):
        m, clock = h.real(vals)
        t = m.should_transmit_vam()
        want = not (m._state is VBSState.VRU_IDLE or (m._state is VBSState.VRU_PASSIVE and m._leave_substate is not _LeaveSubstate.NOTIFY))
        return t != want, f"state {m._state.value}, leave sub-state {m._leave_substate.value}: should_transmit_vam() = {t}"
    idle, passive = h.st(VBSState.VRU_IDLE), h.st(VBSState.VRU_PASSIVE)
    ctx.witness("reach-suppressed", I, z3.And(pre, z3.Not(tx)), vars=vars_, validate=lambda v: not replay(v)[0])
    ctx.prove("suppressed-only-while-idle-or-passive", I, z3.And(pre, z3.Not(tx), z3.Not(z3.Or(idle, passive))), vars=vars_, replay=replay,
              desc="individual VAM transmission is suppressed only in VRU_IDLE or VRU_PASSIVE")
    ctx.prove("standalone-and-leader-always-transmit", I, z3.And(pre, z3.Or(h.st(VBSState.VRU_ACTIVE_STANDALONE), h.st(VBSState.VRU_ACTIVE_CLUSTER_LEADER)), z3.Not(tx)),
              vars=vars_, replay=replay)
    ctx.prove("passive-transmits-only-leave-notifications", I, z3.And(pre, passive, tx != h.ls(_LeaveSubstate.NOTIFY)), vars=vars_, replay=replay)
    ctx.prove("idle-never-transmits", I, z3.And(pre, idle, tx), vars=vars_, replay=replay)


# ---------------------------------------------------------------------------------------------- Z3 a passive VRU is released
@vc("C18", "Z3-passive-released-when-leader-silent-or-breaks-up")
def release(ctx):
    # (a) leader silent for timeClusterContinuity at update()
    h = Mgr()
    I = h.I
    ev, vv = events(I)
    pre = z3.And(*h.pre_inv.values(), h.st(VBSState.VRU_PASSIVE))
    silent = h.now - h.v["last_leader"] >= VK.TIME_CLUSTER_CONTINUITY
    old_joined = h.v["joined"]
    ev["update"][0](h.o)
    tx = I.to_bool(I.call_function(VBSClusteringManager.should_transmit_vam, [h.o]))
    op = I.call_function(VBSClusteringManager.get_cluster_operation_container, [h.o])
    exc = cond_or(c for c, _ in I.raises)
    vars_ = h.vars()
    vars_.update(ev["update"][2])

    def replay(vals):
        m, clock = h.real(vals)
        if real_inv(m) or m._state is not VBSState.VRU_PASSIVE:
            return False, "pre-state not a consistent passive state"
        was = m._joined_cluster_id
        sil = vals["now"] - m._last_leader_vam_time >= VK.TIME_CLUSTER_CONTINUITY
        m.update(vals["own_lat"], vals["own_lon"], vals["own_speed"], vals["own_heading"])
        c = m.get_cluster_operation_container()
        bad = []
        if sil:
            if m._state is not VBSState.VRU_ACTIVE_STANDALONE or not m.should_transmit_vam():
                bad.append(f"leader silent >= {VK.TIME_CLUSTER_CONTINUITY} s but state {m._state.value}, transmitting={m.should_transmit_vam()}")
            li = (c or {}).get("clusterLeaveInfo")
            if not li or li.get("clusterId") != was or li.get("clusterLeaveReason") != "clusterLeaderLost":
                bad.append(f"leave notification {li} after leaving cluster {was} (leader lost)")
        elif m._state is not VBSState.VRU_PASSIVE:
            bad.append(f"left the cluster although the leader was heard {vals['now'] - vals['last_leader_vam_time']} s ago")
        return bool(bad), "; ".join(bad) or "as required"
    ctx.witness("silent-leader-reach", I, z3.And(pre, silent, z3.Not(exc)), vars=vars_, validate=lambda v: not replay(v)[0])
    ctx.prove("silent-leader-no-exception", I, z3.And(pre, exc), vars=vars_, replay=replay)
    ctx.prove("silent-leader-standalone-and-transmitting-after-update", I, z3.And(pre, silent, z3.Or(z3.Not(h.st(VBSState.VRU_ACTIVE_STANDALONE)), z3.Not(tx))), vars=vars_, replay=replay,
              desc="a passive VRU whose leader has been silent for timeClusterContinuity is stand-alone and transmitting again after the next update()")
    ctx.prove("heard-leader-stays-passive", I, z3.And(pre, z3.Not(silent), z3.Not(h.st(VBSState.VRU_PASSIVE))), vars=vars_, replay=replay)
    n0 = len(I.raises)
    li_id = path_get(I, op, "clusterLeaveInfo", "clusterId")
    li_reason = path_get(I, op, "clusterLeaveInfo", "clusterLeaveReason")
    del I.raises[n0:]
    ctx.prove("silent-leader-leave-notification-names-the-cluster-left", I,
              z3.And(pre, silent, z3.Or(z3.Not(num_eq(I, li_id, old_joined)), z3.Not(_str_is(I, li_reason, "clusterLeaderLost")))), vars=vars_, replay=replay,
              desc="the leave notification that follows carries the identifier of the cluster that was left and the reason clusterLeaderLost")

    # (b) break-up announced by the leader, (c) commanded leave
    for kind in ("breakup-from-leader", "commanded-leave"):
        h = Mgr()
        I = h.I
        ev, vv = events(I)
        pre = z3.And(*h.pre_inv.values(), h.st(VBSState.VRU_PASSIVE))
        old_joined = h.v["joined"]
        if kind == "breakup-from-leader":
            trig = z3.And(vv["sender"] == h.v["leader"], vv["has_op"], vv["has_breakup"], z3.Not(vv["breakup_cpm"]))
            ev["on_received_vam"][0](h.o)
            extra = ev["on_received_vam"][2]
        else:
            trig = TRUE
            ev["trigger_leave_cluster"][0](h.o)
            extra = ev["trigger_leave_cluster"][2]
        tx = I.to_bool(I.call_function(VBSClusteringManager.should_transmit_vam, [h.o]))
        op = I.call_function(VBSClusteringManager.get_cluster_operation_container, [h.o])
        exc = cond_or(c for c, _ in I.raises)
        vars_ = h.vars()
        vars_.update(extra)

        def replay2(vals, h=h, kind=kind):
            m, clock = h.real(vals)
            if real_inv(m) or m._state is not VBSState.VRU_PASSIVE:
                return False, "pre-state not a consistent passive state"
            was = m._joined_cluster_id
            if kind == "breakup-from-leader":
                v = real_vam(vals)
                hit = vals["rx_sender"] == m._leader_station_id and vals["rx_has_cluster_operation"] and vals["rx_has_breakup_info"] and not vals["rx_breakup_reason_is_cpm"]
                m.on_received_vam(v)
            else:
                hit = True
                m.trigger_leave_cluster(LREASONS[vals["arg_leave_reason"]])
            if not hit:
                return False, "not the triggering case"
            c = m.get_cluster_operation_container()
            li = (c or {}).get("clusterLeaveInfo")
            bad = []
            if m._state is not VBSState.VRU_ACTIVE_STANDALONE or not m.should_transmit_vam():
                bad.append(f"{kind}: state {m._state.value}, transmitting={m.should_transmit_vam()}")
            if not li or li.get("clusterId") != was:
                bad.append(f"{kind}: leave notification {li} after leaving cluster {was}")
            return bool(bad), "; ".join(bad) or "as required"
        ctx.witness(f"{kind}-reach", I, z3.And(pre, trig, z3.Not(exc)), vars=vars_, validate=lambda v, rp=replay2: not rp(v)[0])
        ctx.prove(f"{kind}-no-exception", I, z3.And(pre, exc), vars=vars_, replay=replay2)
        ctx.prove(f"{kind}-standalone-and-transmitting", I, z3.And(pre, trig, z3.Or(z3.Not(h.st(VBSState.VRU_ACTIVE_STANDALONE)), z3.Not(tx))), vars=vars_, replay=replay2,
                  desc="after the leader announced break-up (or a commanded leave) the passive VRU is stand-alone and transmitting at once")
        n0 = len(I.raises)
        li_id = path_get(I, op, "clusterLeaveInfo", "clusterId")
        del I.raises[n0:]
        ctx.prove(f"{kind}-leave-notification-names-the-cluster-left", I, z3.And(pre, trig, z3.Not(num_eq(I, li_id, old_joined))), vars=vars_, replay=replay2)
    ctx.bound("arbitrary consistent passive state; clock and last-leader time symbolic; break-up VAM in decoder shape from any sender")


def _str_is(I, v, s):
    if isinstance(v, Guarded):
        return z3.Or(*[z3.And(c, _str_is(I, x, s)) for c, x in v.alts if not isinstance(x, Undefined)])
    return z3.BoolVal(v == s)


# ---------------------------------------------------------------------------------------------- Z4 notification durations
@vc("C18", "Z4-notification-durations")
def durations(ctx):
    cases = [
        ("join-notification", VBSState.VRU_ACTIVE_STANDALONE, lambda h: h.js(_JoinSubstate.NOTIFY), "join_started", VK.TIME_CLUSTER_JOIN_NOTIFICATION,
         lambda h: h.js(_JoinSubstate.WAITING), lambda h: h.js(_JoinSubstate.NOTIFY)),
        ("join-waiting", VBSState.VRU_ACTIVE_STANDALONE, lambda h: h.js(_JoinSubstate.WAITING), "join_started", VK.TIME_CLUSTER_JOIN_SUCCESS,
         lambda h: h.js(_JoinSubstate.FAILED), lambda h: h.js(_JoinSubstate.WAITING)),
        ("cancelled-join-leave-notification", VBSState.VRU_ACTIVE_STANDALONE, lambda h: h.js(_JoinSubstate.CANCELLED), "jl_started", VK.TIME_CLUSTER_LEAVE_NOTIFICATION,
         lambda h: h.js(_JoinSubstate.NONE), lambda h: h.js(_JoinSubstate.CANCELLED)),
        ("failed-join-leave-notification", VBSState.VRU_ACTIVE_STANDALONE, lambda h: h.js(_JoinSubstate.FAILED), "jl_started", VK.TIME_CLUSTER_LEAVE_NOTIFICATION,
         lambda h: h.js(_JoinSubstate.NONE), lambda h: h.js(_JoinSubstate.FAILED)),
        ("leave-notification", VBSState.VRU_ACTIVE_STANDALONE, lambda h: h.ls(_LeaveSubstate.NOTIFY), "leave_started", VK.TIME_CLUSTER_LEAVE_NOTIFICATION,
         lambda h: h.ls(_LeaveSubstate.NONE), lambda h: h.ls(_LeaveSubstate.NOTIFY)),
        ("breakup-warning", VBSState.VRU_ACTIVE_CLUSTER_LEADER, lambda h: h.v["breaking"], "breakup_started", VK.TIME_CLUSTER_BREAKUP_WARNING,
         lambda h: h.st(VBSState.VRU_ACTIVE_STANDALONE), lambda h: h.st(VBSState.VRU_ACTIVE_CLUSTER_LEADER)),
    ]
    for name, state, phase, started, dur, ended, still in cases:
        h = Mgr()
        I = h.I
        ev, vv = events(I)
        pre = z3.And(*h.pre_inv.values(), h.st(state), phase(h))
        elapsed = h.now - h.v[started] >= dur
        ev["update"][0](h.o)
        exc = cond_or(c for c, _ in I.raises)
        vars_ = h.vars()
        vars_.update(ev["update"][2])

        def replay(vals, h=h, name=name, started=started, dur=dur, state=state):
            m, clock = h.real(vals)
            if real_inv(m):
                return False, "inconsistent pre-state"
            key = {"join_started": "_join_started", "jl_started": "_join_leave_started", "leave_started": "_leave_started"}.get(started)
            t0 = m._cluster.breakup_started if started == "breakup_started" else getattr(m, key)
            before = (m._state, m._join_substate, m._leave_substate)
            m.update(vals["own_lat"], vals["own_lon"], vals["own_speed"], vals["own_heading"])
            after = (m._state, m._join_substate, m._leave_substate)
            el = vals["now"] - t0 >= dur
            # the phase under test is the join sub-state, the leave sub-state or the leader state, depending on which timer runs
            idx = {"join_started": 1, "jl_started": 1, "leave_started": 2, "breakup_started": 0}[started]
            changed = after[idx] != before[idx]
            # the phase under test must end iff its duration has elapsed
            return (el and not changed) or (not el and changed and name != "leave-notification" and name != "join-notification" and False), \
                f"{name}: started {vals['now'] - t0:.3f} s ago (duration {dur} s): {[x.value for x in before]} -> {[x.value for x in after]}"
        def replay_early(vals, h=h, name=name, started=started, dur=dur):
            """real manager in the model's state: before the duration has elapsed update() must leave the phase running"""
            m, clock = h.real(vals)
            if real_inv(m):
                return False, "inconsistent pre-state"
            key = {"join_started": "_join_started", "jl_started": "_join_leave_started", "leave_started": "_leave_started"}.get(started)
            t0 = m._cluster.breakup_started if started == "breakup_started" else getattr(m, key)
            before = (m._state, m._join_substate, m._leave_substate)
            m.update(vals["own_lat"], vals["own_lon"], vals["own_speed"], vals["own_heading"])
            after = (m._state, m._join_substate, m._leave_substate)
            early = vals["now"] - t0 < dur
            idx = {"join_started": 1, "jl_started": 1, "leave_started": 2, "breakup_started": 0}[started]
            return early and after[idx] != before[idx], f"{name}: started {vals['now'] - t0:.3f} s ago (duration {dur} s): {[x.value for x in before]} -> {[x.value for x in after]}"
        ctx.witness(f"{name}-reach-ended", I, z3.And(pre, elapsed, z3.Not(exc)), vars=vars_)
        ctx.prove(f"{name}-no-exception", I, z3.And(pre, exc), vars=vars_, replay=replay)
        ctx.prove(f"{name}-ends-when-duration-elapsed", I, z3.And(pre, elapsed, z3.Not(ended(h))), vars=vars_, replay=replay,
                  desc=f"{name}: at the first update() at or after {dur} s the phase is over")
        ctx.prove(f"{name}-lasts-its-duration", I, z3.And(pre, z3.Not(elapsed), z3.Not(still(h))), vars=vars_,
                  replay=lambda vals, rp=replay_early: rp(vals),
                  desc=f"{name}: before {dur} s have elapsed update() leaves the phase running")
    ctx.bound("each notification / waiting phase from an arbitrary consistent state in that phase; start time and clock symbolic reals")


# ---------------------------------------------------------------------------------------------- Z5 a join towards an advertised cluster completes
@vc("C18", "Z5-join-completes-on-leader-vam")
def join_completes(ctx):
    h = Mgr()
    I = h.I
    ev, vv = events(I)
    waiting = z3.And(*h.pre_inv.values(), h.st(VBSState.VRU_ACTIVE_STANDALONE), h.js(_JoinSubstate.WAITING))
    # a cluster information container without clusterId stands for the identifier 0 ("cluster without identifier")
    advert = z3.And(vv["has_info"], z3.Or(z3.And(vv["has_cid"], vv["cid"] == h.v["target"]), z3.And(z3.Not(vv["has_cid"]), h.v["target"] == 0)))
    ev["on_received_vam"][0](h.o)
    exc = cond_or(c for c, _ in I.raises)
    vars_ = h.vars()
    vars_.update(ev["on_received_vam"][2])
    f = h.o.fields

    def replay(vals):
        m, clock = h.real(vals)
        if real_inv(m) or m._state is not VBSState.VRU_ACTIVE_STANDALONE or m._join_substate is not _JoinSubstate.WAITING:
            return False, "pre-state is not a consistent join-waiting state"
        tgt = m._join_target_cluster_id
        ad = vals["rx_has_cluster_info"] and ((vals["rx_has_cluster_id"] and vals["rx_cluster_id"] == tgt) or (not vals["rx_has_cluster_id"] and tgt == 0))
        m.on_received_vam(real_vam(vals))
        ok = m._state is VBSState.VRU_PASSIVE and m._joined_cluster_id == tgt and m._leader_station_id == vals["rx_sender"] and m._last_leader_vam_time == vals["now"]
        if ad and not (vals["rx_has_cluster_operation"] and vals["rx_has_breakup_info"]):
            return not ok, f"waiting to join cluster {tgt}; leader VAM (decoder shape, bounding box present={vals['rx_has_bounding_box']}) advertising it was received: state {m._state.value}, joined {m._joined_cluster_id}, leader {m._leader_station_id}"
        return (not ad) and m._state is VBSState.VRU_PASSIVE, f"became passive without an advertisement of cluster {tgt}"
    ctx.witness("reach-advertised-with-bounding-box", I, z3.And(waiting, advert, vv["has_bbox"], z3.Not(exc)), vars=vars_)
    ctx.prove("no-exception", I, z3.And(waiting, exc), vars=vars_, replay=replay)
    done = z3.And(h.st(VBSState.VRU_PASSIVE), num_eq(I, f["_joined_cluster_id"], h.v["target"]), num_eq(I, f["_leader_station_id"], vv["sender"]),
                  z3.Not(h.none("_last_leader_vam_time")))
    no_breakup = z3.Not(z3.And(vv["has_op"], vv["has_breakup"]))      # a VAM that also announces break-up makes the new member leave again at once
    ctx.prove("join-completes-on-advertisement", I, z3.And(waiting, advert, no_breakup, z3.Not(done)), vars=vars_, replay=replay,
              desc="WAITING on cluster c and a VAM advertising c arrives (CHOICE values as the decoder yields them) => passive, joined to c, leader = sender, timer armed")
    ctx.prove("no-join-without-advertisement", I, z3.And(waiting, z3.Not(advert), h.st(VBSState.VRU_PASSIVE)), vars=vars_, replay=replay)
    ctx.bound("arbitrary consistent join-waiting state; received VAM with every optional container / member present or absent, bounding box as ('circular', {...})")


# ---------------------------------------------------------------------------------------------- Z6 timers are armed at the transition, by the right event
@vc("C18", "Z6-timers-armed-at-the-transition")
def timers(ctx):
    def fnum(I, v, x):
        """condition: real/int value v (possibly guarded) equals the real term x"""
        if isinstance(v, Guarded):
            return z3.Or(*[z3.And(c, fnum(I, y, x)) for c, y in v.alts if not isinstance(y, Undefined)])
        if v is None:
            return FALSE
        return I.to_float(v) == x
    cases = []
    # (name, event, pre-condition builder, trigger builder, field, expected builder, description)
    cases.append(("leader-heartbeat", "on_received_vam", lambda h, vv: h.st(VBSState.VRU_PASSIVE),
                  lambda h, vv: z3.And(vv["sender"] == h.v["leader"], z3.Not(z3.And(vv["has_op"], vv["has_breakup"]))), "_last_leader_vam_time", lambda h: h.now,
                  "a VAM from the leader station re-arms the leader-lost timer"))
    cases.append(("no-heartbeat-from-others", "on_received_vam", lambda h, vv: h.st(VBSState.VRU_PASSIVE),
                  lambda h, vv: z3.And(vv["sender"] != h.v["leader"], z3.Not(z3.And(vv["has_op"], vv["has_breakup"]))), "_last_leader_vam_time", lambda h: h.v["last_leader"],
                  "a VAM from any other station (also one advertising the same cluster id) leaves the leader-lost timer alone"))
    cases.append(("join-complete-arms-leader-timer", "on_received_vam", lambda h, vv: z3.And(h.st(VBSState.VRU_ACTIVE_STANDALONE), h.js(_JoinSubstate.WAITING)),
                  lambda h, vv: z3.And(vv["has_info"], vv["has_cid"], vv["cid"] == h.v["target"], z3.Not(z3.And(vv["has_op"], vv["has_breakup"]))),
                  "_last_leader_vam_time", lambda h: h.now, "completing a join arms the leader-lost timer now"))
    cases.append(("waiting-phase-starts-at-the-transition", "update", lambda h, vv: z3.And(h.st(VBSState.VRU_ACTIVE_STANDALONE), h.js(_JoinSubstate.NOTIFY)),
                  lambda h, vv: h.now - h.v["join_started"] >= VK.TIME_CLUSTER_JOIN_NOTIFICATION, "_join_started", lambda h: h.now,
                  "the join-success window (timeClusterJoinSuccess) is counted from the update() that ended the notification phase"))
    cases.append(("join-notification-starts-at-initiate", "initiate_join", lambda h, vv: z3.And(h.st(VBSState.VRU_ACTIVE_STANDALONE), h.js(_JoinSubstate.NONE)),
                  lambda h, vv: TRUE, "_join_started", lambda h: h.now, "initiate_join starts the notification phase now"))
    cases.append(("cancel-starts-leave-notification", "cancel_join", lambda h, vv: z3.Or(h.js(_JoinSubstate.NOTIFY), h.js(_JoinSubstate.WAITING)),
                  lambda h, vv: TRUE, "_join_leave_started", lambda h: h.now, "cancel_join starts the leave notification now"))
    cases.append(("failed-join-starts-leave-notification", "confirm_join_failed", lambda h, vv: h.js(_JoinSubstate.WAITING),
                  lambda h, vv: TRUE, "_join_leave_started", lambda h: h.now, "confirm_join_failed starts the leave notification now"))
    cases.append(("leave-starts-leave-notification", "trigger_leave_cluster", lambda h, vv: h.st(VBSState.VRU_PASSIVE),
                  lambda h, vv: TRUE, "_leave_started", lambda h: h.now, "leaving a cluster starts the leave notification now"))
    for name, evname, pre_f, trig_f, field, exp_f, desc in cases:
        h = Mgr()
        I = h.I
        ev, vv = events(I)
        pre = z3.And(*h.pre_inv.values(), pre_f(h, vv))
        trig = trig_f(h, vv)
        ev[evname][0](h.o)
        exc = cond_or(c for c, _ in I.raises)
        vars_ = h.vars()
        vars_.update(ev[evname][2])
        attr = field

        def replay(vals, h=h, evname=evname, attr=attr, name=name, ev=ev):
            m, clock = h.real(vals)
            if real_inv(m):
                return False, "inconsistent pre-state"
            before = getattr(m, attr)
            with patched_env(h, vals):
                ev[evname][1](m, vals)
            after = getattr(m, attr)
            want_now = name not in ("no-heartbeat-from-others",)
            bad = (after != vals["now"]) if want_now else (after != before)
            return bad, f"{name}: {attr} {before} -> {after} at clock {vals['now']}"
        ctx.witness(f"{name}-reach", I, z3.And(pre, trig, z3.Not(exc)), vars=vars_)
        ctx.prove(f"{name}", I, z3.And(pre, trig, z3.Not(exc), z3.Not(fnum(I, h.o.fields[field], exp_f(h)))), vars=vars_, replay=replay, desc=desc)
    # break-up warning starts now
    h = Mgr()
    I = h.I
    ev, vv = events(I)
    pre = z3.And(*h.pre_inv.values(), h.st(VBSState.VRU_ACTIVE_CLUSTER_LEADER), z3.Not(h.v["breaking"]))
    ev["trigger_breakup_cluster"][0](h.o)
    vars_ = h.vars()
    vars_.update(ev["trigger_breakup_cluster"][2])
    bs = h.cluster.fields["breakup_started"]

    def replay_b(vals):
        m, clock = h.real(vals)
        if real_inv(m) or m._cluster is None:
            return False, "inconsistent pre-state"
        m.trigger_breakup_cluster(BREASONS[vals["arg_breakup_reason"]])
        return m._cluster.breakup_started != vals["now"], f"breakup_started = {m._cluster.breakup_started} at clock {vals['now']}"
    ctx.witness("breakup-warning-reach", I, pre, vars=vars_)
    ctx.prove("breakup-warning-starts-at-trigger", I, z3.And(pre, z3.Not(fnum(I, bs, h.now))), vars=vars_, replay=replay_b)
    ctx.bound("each arming event from an arbitrary consistent state in which it applies")


# ---------------------------------------------------------------------------------------------- Z7 what the cluster state machine hands out is sent
@vc("C18", "Z7-vam-carries-the-cluster-containers")
def vam_containers(ctx):
    """VAMTransmissionManagement.send_next_vam: the VAM handed to the coder carries the cluster information container iff the state machine provides
    one and the cluster operation container iff it provides one - independently (a leader in break-up warning provides both; its members learn the
    break-up only from the operation container)"""
    import threading
    from flexstack.facilities.vru_awareness_service.vam_transmission_management import VAMTransmissionManagement, VAMMessage
    from flexstack.utils.time_service import TimeService
    I = make("int")
    I.stubs[TimeService.time] = lambda it, a, k, pc: it.float_var("now", 1.6e9, 2.3e9)
    has_info, has_op = z3.Bool("state_machine_provides_information_container"), z3.Bool("state_machine_provides_operation_container")
    info, op = Opaque("cluster-information-container"), Opaque("cluster-operation-container")
    cm = Opaque("clustering_manager")
    I.stubs[id(cm)] = lambda it, name, a, k, pc: {"get_cluster_information_container": Guarded([(has_info, info), (z3.Not(has_info), None)]),
                                                  "get_cluster_operation_container": Guarded([(has_op, op), (z3.Not(has_op), None)])}[name]
    I.stubs[VAMTransmissionManagement._attach_lf_container_if_due] = lambda it, a, k, pc: None
    encoded = []
    coder = Opaque("coder")

    def enc(it, name, a, k, pc):
        # the structure as it is at the moment of the call (later writes must not count)
        p = path_get(it, a[0], "vam", "vamParameters", pc=pc)
        encoded.append((pc, it._lb(it.sdict_lookup(p, "vruClusterInformationContainer")[0]), it._lb(it.sdict_lookup(p, "vruClusterOperationContainer")[0]),
                        it.sdict_lookup(p, "vruClusterInformationContainer")[1], it.sdict_lookup(p, "vruClusterOperationContainer")[1]))
        return b"\x00"
    I.stubs[id(coder)] = enc
    btp = Opaque("btp_router")
    I.stubs[id(btp)] = lambda it, name, a, k, pc: None
    hf = SDict([(TRUE, "speed", SDict([(TRUE, "speedValue", 100, False)]), False), (TRUE, "heading", SDict([(TRUE, "value", 900, False)]), False)])
    params = SDict([(TRUE, "basicContainer", SDict([(TRUE, "referencePosition", SDict([(TRUE, "latitude", 413000000, False), (TRUE, "longitude", 21000000, False)]), False)]), False),
                    (TRUE, "vruHighFrequencyContainer", hf, False)])
    vam = Obj(VAMMessage, dict(vam=SDict([(TRUE, "header", SDict([(TRUE, "stationId", 7, False)]), False),
                                          (TRUE, "vam", SDict([(TRUE, "generationDeltaTime", 5, False), (TRUE, "vamParameters", params, False)]), False)])))
    o = Obj(VAMTransmissionManagement, dict(logging=logger(I), clustering_manager=cm, vru_basic_service_ldm=None, vam_coder=coder, btp_router=btp,
                                            last_vam_info_lock=threading.Lock(), last_vam_generation_delta_time=None, last_sent_position=None,
                                            last_vam_speed=None, last_vam_heading=None, is_first_vam=True))
    I.call_function(VAMTransmissionManagement.send_next_vam, [o, vam])
    exc = cond_or(c for c, _ in I.raises)
    vars_ = {"state_machine_provides_information_container": has_info, "state_machine_provides_operation_container": has_op}

    def replay(vals):
        from unittest import mock
        cm_ = mock.Mock()
        cm_.get_cluster_information_container.return_value = {"vruClusterInformation": {"clusterId": 9}} if vals["state_machine_provides_information_container"] else None
        cm_.get_cluster_operation_container.return_value = {"clusterBreakupInfo": {"clusterBreakupReason": 0, "breakupTime": 3}} if vals["state_machine_provides_operation_container"] else None
        coder_ = mock.Mock()
        seen = []
        coder_.encode.side_effect = lambda d: (seen.append(dict(d["vam"]["vamParameters"])), b"\x00")[1]
        m = VAMTransmissionManagement(mock.Mock(), coder_, mock.Mock(), None, None)
        m.vam_coder, m.clustering_manager = coder_, cm_
        v = VAMMessage()
        try:
            m.send_next_vam(v)
        except Exception as e:          # noqa
            return True, f"send_next_vam raised {type(e).__name__}: {e}"
        if len(seen) != 1:
            return True, f"{len(seen)} VAMs handed to the coder"
        gi, go = "vruClusterInformationContainer" in seen[0], "vruClusterOperationContainer" in seen[0]
        wi, wo = bool(vals["state_machine_provides_information_container"]), bool(vals["state_machine_provides_operation_container"])
        return (gi, go) != (wi, wo), f"state machine provides information={wi} operation={wo}; the VAM handed to the coder carries information={gi} operation={go}"
    ctx.witness("containers-reach-both", I, z3.And(z3.Not(exc), has_info, has_op, *[c for c, *_ in encoded]), vars=vars_, validate=lambda v: not replay(v)[0])
    ctx.prove("containers-no-exception", I, exc, vars=vars_, replay=replay)
    bad = [z3.And(c, z3.Or(gi != has_info, go != has_op, z3.And(has_info, z3.BoolVal(vi is not info) if not isinstance(vi, Guarded) else z3.Not(z3.Or(*[cc for cc, x in vi.alts if x is info]))),
                           z3.And(has_op, z3.BoolVal(vo is not op) if not isinstance(vo, Guarded) else z3.Not(z3.Or(*[cc for cc, x in vo.alts if x is op])))))
           for c, gi, go, vi, vo in encoded]
    ctx.prove("containers-sent-iff-provided", I, z3.Or(*bad) if bad else TRUE, vars=vars_, replay=replay,
              desc="information container present iff provided, operation container present iff provided (all four combinations), each being the object the state machine returned")
    ctx.bound("one VAM; the two containers are opaque objects (their content is C11's subject); LF container attachment stubbed (C10 W4)")
    ctx.stub("clustering manager returns the container or None per a free Boolean each; coder records the parameters at the call; BTP router, LDM absent")

