"""C20 - packet lifetime and hop budget on the wire honour the request."""
import z3
from ..calls import make
from ..values import Obj, SBytes
from ..runner import vc

from flexstack.geonet.basic_header import BasicHeader, LT, LTbase, BasicNH
from flexstack.geonet.mib import MIB

BASE_MS = {0: 50, 1: 1000, 2: 10000, 3: 100000}


def table_ms(mult, base):
    """EN 302 636-4-1 9.6.4: LT = multiplier * base (typed in from the standard, not from the code)"""
    return z3.If(base == 0, mult * 50, z3.If(base == 1, mult * 1000, z3.If(base == 2, mult * 10000, mult * 100000)))


def real_quantise(v):
    lt = LT().set_value_in_millis(v)
    return lt.multiplier, lt.base.value, lt.get_value_in_millis()


def best_representable(v):
    best = 0
    for b in BASE_MS.values():
        m = min(v // b, 63)
        best = max(best, m * b)
    return best


@vc("C20", "L1-L3-quantiser")
def quantiser(ctx):
    """LT.set_value_in_millis over every requested lifetime 0..7 000 000 ms (one symbolic integer)"""
    I = make("int")
    v = I.int_var("v", 0, 7000000)
    lt = I.call_function(LT.set_value_in_millis, [LT(), v])
    got = I.call_function(LT.get_value_in_millis, [lt])
    mult, base = lt.fields["multiplier"], lt.fields["base"].val
    ctx.bound("requested lifetime: every integer 0..7 000 000 ms (single symbolic Int)")
    ctx.bound("value / 50 % 64 is evaluated over the reals; its agreement with binary64 is the separate lemma VC L-fp-lemma")
    exc = z3.Or(*[c for c, _ in I.raises]) if I.raises else z3.BoolVal(False)

    def replay_with(pred):
        def rp(vals):
            m, b, g = real_quantise(vals["v"])
            return pred(vals["v"], m, b, g), f"set_value_in_millis({vals['v']}) -> multiplier={m} base={b} = {g} ms; largest representable <= request is {best_representable(vals['v'])} ms"
        return rp

    def validate(vals):
        m, b, g = real_quantise(vals["v"])
        return True

    w = ctx.witness("reach", I, z3.And(v >= 50, got > 0), vars={"v": v})
    # translator validation on concrete points (end points, decade borders, seeded points)
    import random
    rnd = random.Random(ctx.seed)
    pts = [0, 1, 49, 50, 99, 100, 499, 500, 999, 1000, 1050, 9999, 10000, 63000, 99999, 100000, 110000, 630000,
           999999, 1000000, 6300000, 7000000] + [rnd.randrange(0, 7000001) for _ in range(40)]
    pairs = []
    for p in pts:
        s = z3.Solver(); s.add(*I.assumptions); s.add(v == p); assert s.check() == z3.sat
        mdl = s.model()
        enc = (mdl.eval(mult, model_completion=True).as_long(), mdl.eval(base, model_completion=True).as_long())
        pairs.append((real_quantise(p)[:2], enc))
    ctx.validate("translator-points", pairs)

    ctx.prove("no-exception", I, exc, vars={"v": v}, replay=lambda vals: (_raises(lambda: real_quantise(vals["v"])), "raises"),
              desc="set_value_in_millis raises for no requested value")
    ctx.prove("multiplier-in-6-bits", I, z3.Or(mult < 0, mult > 63), vars={"v": v},
              replay=replay_with(lambda v_, m, b, g: not 0 <= m <= 63), desc="multiplier fits the 6-bit field")
    ctx.prove("L1-never-exceeds-request", I, got > v, vars={"v": v},
              replay=replay_with(lambda v_, m, b, g: g > v_), desc="encoded lifetime <= requested lifetime")
    ctx.prove("L3-nonzero-from-50ms", I, z3.And(v >= 50, got == 0), vars={"v": v},
              replay=replay_with(lambda v_, m, b, g: v_ >= 50 and g == 0), desc="requested >= 50 ms => encoded lifetime > 0")
    m2, b2 = z3.Ints("m2 b2")
    rep = table_ms(m2, b2)
    ctx.prove("L2-largest-representable", I, z3.And(m2 >= 0, m2 <= 63, b2 >= 0, b2 <= 3, rep <= v, rep > got),
              vars={"v": v, "m2": m2, "b2": b2},
              replay=replay_with(lambda v_, m, b, g: best_representable(v_) > g),
              desc="no representable value lies strictly between the encoded and the requested lifetime")
    ctx.prove("get-matches-table", I, got != table_ms(mult, base), vars={"v": v},
              replay=replay_with(lambda v_, m, b, g: g != m * BASE_MS[b]), desc="get_value_in_millis = multiplier*base of the standard's table")


def _raises(f):
    try:
        f()
    except Exception:
        return True
    return False


@vc("C20", "L4-codes")
def codes(ctx):
    """all 256 lifetime codes: decode = table value; encode(decode(c)) = c; seconds view"""
    I = make("bv", 64)
    c = I.int_var("code", 0, 255)
    word = c << 8                                  # LT octet inside the 32-bit basic header word
    I.mag[word.get_id()] = 16
    word = word | I.const(1 << 28) | I.const(1 << 24)
    I.mag[word.get_id()] = 30
    bh = I.call_function(BasicHeader.decode_from_int, [word])
    lt = bh.fields["lt"]
    ms = I.call_function(LT.get_value_in_millis, [lt])
    sec = I.call_function(LT.get_value_in_seconds, [lt])
    back = I.call_function(LT.encode_to_int, [lt])
    mult, base = z3.LShR(c, 2), c & 3
    spec = z3.If(base == 0, mult * 50, z3.If(base == 1, mult * 1000, z3.If(base == 2, mult * 10000, mult * 100000)))
    ctx.bound("all 256 values of the LT octet (one symbolic 8-bit value)")

    def rp(pred):
        def f(vals):
            code = vals["code"]
            b = BasicHeader.decode_from_int((1 << 28) | (1 << 24) | (code << 8))
            g = b.lt.get_value_in_millis()
            e = b.lt.encode_to_int()
            return pred(code, g, e, b.lt.get_value_in_seconds()), f"code {code}: decoded {g} ms, re-encoded {e}"
        return f
    ctx.witness("reach", I, ms > 0, vars={"code": c},
                validate=lambda vals: BasicHeader.decode_from_int((1 << 28) | (1 << 24) | (vals["code"] << 8)).lt.get_value_in_millis() > 0)
    exc = z3.Or(*[cnd for cnd, _ in I.raises]) if I.raises else z3.BoolVal(False)
    ctx.prove("decode-no-exception", I, exc, vars={"code": c}, replay=rp(lambda *a: False))
    ctx.prove("decode-table", I, ms != spec, vars={"code": c},
              replay=rp(lambda code, g, e, s: g != (code >> 2) * BASE_MS[code & 3]), desc="decoded lifetime = Multiplier*Base (9.6.4)")
    ctx.prove("encode-decode-id", I, back != c, vars={"code": c}, replay=rp(lambda code, g, e, s: e != code),
              desc="encode_to_int(decode(code)) == code")
    ctx.prove("seconds-floor", I, z3.Or(sec * 1000 > ms, sec * 1000 + 1000 <= ms), vars={"code": c},
              replay=rp(lambda code, g, e, s: not (s * 1000 <= g < s * 1000 + 1000)), desc="get_value_in_seconds = floor(ms/1000): never above the wire value")


@vc("C20", "L-fp-lemma", tiers=("thorough",))
def fp_lemma(ctx):
    """binary64 lemma behind L1-L3 where the code uses float division: for every integer v below 2^23,
    trunc(fl(fl(v/d) mod 64)) == (v div d) mod 64  (QF_BVFP, decided on every run)"""
    import inspect
    src = inspect.getsource(LT.set_value_in_millis)
    uses_float_div = " / " in src
    for d in (50, 1000, 10000, 100000):
        v = z3.BitVec(f"v{d}", 32)
        x = z3.fpSignedToFP(z3.RNE(), v, z3.Float64())
        q = z3.fpDiv(z3.RNE(), x, z3.FPVal(float(d), z3.Float64()))
        r = z3.fpRem(q, z3.FPVal(64.0, z3.Float64()))
        r = z3.If(z3.fpLT(r, z3.FPVal(0.0, z3.Float64())), z3.fpAdd(z3.RNE(), r, z3.FPVal(64.0, z3.Float64())), r)
        t = z3.fpToSBV(z3.RTZ(), r, z3.BitVecSort(32))
        ref = z3.URem(z3.UDiv(v, z3.BitVecVal(d, 32)), z3.BitVecVal(64, 32))
        ctx.prove(f"fl-div-{d}", None, z3.And(z3.ULT(v, 1 << 23), t != ref), vars={"v": v},
                  replay=lambda vals, d=d: (int(vals["v"] / d % 64) != (vals["v"] // d) % 64, f"int({vals['v']}/{d}%64)"),
                  desc=f"float kernel int(v/{d}%64) equals integer (v//{d})%64 for all v < 2^23")
    ctx.witness("reach", None, z3.BoolVal(True))
    ctx.bound("lemma range v < 2^23 = 8 388 608 ms (covers the 7 000 000 ms of L1-L3)" + ("" if uses_float_div else "; current source uses no float division (lemma kept for regression)"))
