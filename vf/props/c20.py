"""C20 - packet lifetime and hop budget on the wire honour the request."""
import z3
from ..calls import make
from ..values import Obj, SBytes
from ..runner import vc

from flexstack.geonet.basic_header import BasicHeader, LT, LTbase, BasicNH
from flexstack.geonet.mib import MIB

BASE_MS = {0: 50, 1: 1000, 2: 10000, 3: 100000}


def table_ms(mult, base):
    """EN 302 636-4-1 9.6.4: LT = multiplier * base (typed in from the standard, not from the code)"""
    return z3.If(base == 0, mult * 50, z3.If(base == 1, mult * 1000, z3.If(base == 2, mult * 10000, mult * 100000)))


def real_quantise(v):
    lt = LT().set_value_in_millis(v)
    return lt.multiplier, lt.base.value, lt.get_value_in_millis()


def best_representable(v):
    best = 0
    for b in BASE_MS.values():
        m = min(v // b, 63)
        best = max(best, m * b)
    return best


@vc("C20", "L1-L3-quantiser")
def quantiser(ctx):
    """LT.set_value_in_millis over every requested lifetime 0..7 000 000 ms (one symbolic integer)"""
    I = make("int")
    v = I.int_var("v", 0, 7000000)
    lt = I.call_function(LT.set_value_in_millis, [LT(), v])
    got = I.call_function(LT.get_value_in_millis, [lt])
    mult, base = lt.fields["multiplier"], lt.fields["base"].val
    ctx.bound("requested lifetime: every integer 0..7 000 000 ms (single symbolic Int)")
    ctx.bound("value / 50 % 64 is evaluated over the reals; its agreement with binary64 is the separate lemma VC L-fp-lemma")
    exc = z3.Or(*[c for c, _ in I.raises]) if I.raises else z3.BoolVal(False)

    def replay_with(pred):
        def rp(vals):
            m, b, g = real_quantise(vals["v"])
            return pred(vals["v"], m, b, g), f"set_value_in_millis({vals['v']}) -> multiplier={m} base={b} = {g} ms; largest representable <= request is {best_representable(vals['v'])} ms"
        return rp

    def validate(vals):
        m, b, g = real_quantise(vals["v"])
        return True

    w = ctx.witness("reach", I, z3.And(v >= 50, got > 0), vars={"v": v})
    # translator validation on concrete points (end points, decade borders, seeded points)
    import random
    rnd = random.Random(ctx.seed)
    pts = [0, 1, 49, 50, 99, 100, 499, 500, 999, 1000, 1050, 9999, 10000, 63000, 99999, 100000, 110000, 630000,
           999999, 1000000, 6300000, 7000000] + [rnd.randrange(0, 7000001) for _ in range(40)]
    pairs = []
    for p in pts:
        s = z3.Solver(); s.add(*I.assumptions); s.add(v == p); assert s.check() == z3.sat
        mdl = s.model()
        enc = (mdl.eval(mult, model_completion=True).as_long(), mdl.eval(base, model_completion=True).as_long())
        pairs.append((real_quantise(p)[:2], enc))
    ctx.validate("translator-points", pairs)

    ctx.prove("no-exception", I, exc, vars={"v": v}, replay=lambda vals: (_raises(lambda: real_quantise(vals["v"])), "raises"),
              desc="set_value_in_millis raises for no requested value")
    ctx.prove("multiplier-in-6-bits", I, z3.Or(mult < 0, mult > 63), vars={"v": v},
              replay=replay_with(lambda v_, m, b, g: not 0 <= m <= 63), desc="multiplier fits the 6-bit field")
    ctx.prove("L1-never-exceeds-request", I, got > v, vars={"v": v},
              replay=replay_with(lambda v_, m, b, g: g > v_), desc="encoded lifetime <= requested lifetime")
    ctx.prove("L3-nonzero-from-50ms", I, z3.And(v >= 50, got == 0), vars={"v": v},
              replay=replay_with(lambda v_, m, b, g: v_ >= 50 and g == 0), desc="requested >= 50 ms => encoded lifetime > 0")
    m2, b2 = z3.Ints("m2 b2")
    rep = table_ms(m2, b2)
    ctx.prove("L2-largest-representable", I, z3.And(m2 >= 0, m2 <= 63, b2 >= 0, b2 <= 3, rep <= v, rep > got),
              vars={"v": v, "m2": m2, "b2": b2},
              replay=replay_with(lambda v_, m, b, g: best_representable(v_) > g),
              desc="no representable value lies strictly between the encoded and the requested lifetime")
    ctx.prove("get-matches-table", I, got != table_ms(mult, base), vars={"v": v},
              replay=replay_with(lambda v_, m, b, g: g != m * BASE_MS[b]), desc="get_value_in_millis = multiplier*base of the standard's table")


def _raises(f):
    try:
        f()
    except Exception:
        return True
    return False


@vc("C20", "L4-codes")
def codes(ctx):
    """all 256 lifetime codes: decode = table value; encode(decode(c)) = c; seconds view"""
    I = make("bv", 64)
    c = I.int_var("code", 0, 255)
    word = c << 8                                  # LT octet inside the 32-bit basic header word
    I.mag[word.get_id()] = 16
    word = word | I.const(1 << 28) | I.const(1 << 24)
    I.mag[word.get_id()] = 30
    bh = I.call_function(BasicHeader.decode_from_int, [word])
    lt = bh.fields["lt"]
    ms = I.call_function(LT.get_value_in_millis, [lt])
    sec = I.call_function(LT.get_value_in_seconds, [lt])
    back = I.call_function(LT.encode_to_int, [lt])
    mult, base = z3.LShR(c, 2), c & 3
    spec = z3.If(base == 0, mult * 50, z3.If(base == 1, mult * 1000, z3.If(base == 2, mult * 10000, mult * 100000)))
    ctx.bound("all 256 values of the LT octet (one symbolic 8-bit value)")

    def rp(pred):
        def f(vals):
            code = vals["code"]
            b = BasicHeader.decode_from_int((1 << 28) | (1 << 24) | (code << 8))
            g = b.lt.get_value_in_millis()
            e = b.lt.encode_to_int()
            return pred(code, g, e, b.lt.get_value_in_seconds()), f"code {code}: decoded {g} ms, re-encoded {e}"
        return f
    ctx.witness("reach", I, ms > 0, vars={"code": c},
                validate=lambda vals: BasicHeader.decode_from_int((1 << 28) | (1 << 24) | (vals["code"] << 8)).lt.get_value_in_millis() > 0)
    exc = z3.Or(*[cnd for cnd, _ in I.raises]) if I.raises else z3.BoolVal(False)
    ctx.prove("decode-no-exception", I, exc, vars={"code": c}, replay=rp(lambda *a: False))
    ctx.prove("decode-table", I, ms != spec, vars={"code": c},
              replay=rp(lambda code, g, e, s: g != (code >> 2) * BASE_MS[code & 3]), desc="decoded lifetime = Multiplier*Base (9.6.4)")
    ctx.prove("encode-decode-id", I, back != c, vars={"code": c}, replay=rp(lambda code, g, e, s: e != code),
              desc="encode_to_int(decode(code)) == code")
    ctx.prove("seconds-floor", I, z3.Or(sec * 1000 > ms, sec * 1000 + 1000 <= ms), vars={"code": c},
              replay=rp(lambda code, g, e, s: not (s * 1000 <= g < s * 1000 + 1000)), desc="get_value_in_seconds = floor(ms/1000): never above the wire value")


@vc("C20", "L-fp-lemma", tiers=("thorough",))
def fp_lemma(ctx):
    """binary64 lemma behind L1-L3 where the code uses float division: for every integer v below 2^23,
    trunc(fl(fl(v/d) mod 64)) == (v div d) mod 64  (QF_BVFP, decided on every run)"""
    import inspect
    src = inspect.getsource(LT.set_value_in_millis)
    uses_float_div = " / " in src
    for d in (50, 1000, 10000, 100000):
        v = z3.BitVec(f"v{d}", 32)
        x = z3.fpSignedToFP(z3.RNE(), v, z3.Float64())
        q = z3.fpDiv(z3.RNE(), x, z3.FPVal(float(d), z3.Float64()))
        r = z3.fpRem(q, z3.FPVal(64.0, z3.Float64()))
        r = z3.If(z3.fpLT(r, z3.FPVal(0.0, z3.Float64())), z3.fpAdd(z3.RNE(), r, z3.FPVal(64.0, z3.Float64())), r)
        t = z3.fpToSBV(z3.RTZ(), r, z3.BitVecSort(32))
        ref = z3.URem(z3.UDiv(v, z3.BitVecVal(d, 32)), z3.BitVecVal(64, 32))
        ctx.prove(f"fl-div-{d}", None, z3.And(z3.ULT(v, 1 << 23), t != ref), vars={"v": v},
                  replay=lambda vals, d=d: (int(vals["v"] / d % 64) != (vals["v"] // d) % 64, f"int({vals['v']}/{d}%64)"),
                  desc=f"float kernel int(v/{d}%64) equals integer (v//{d})%64 for all v < 2^23")
    ctx.witness("reach", None, z3.BoolVal(True))
    ctx.bound("lemma range v < 2^23 = 8 388 608 ms (covers the 7 000 000 ms of L1-L3)" + ("" if uses_float_div else "; current source uses no float division (lemma kept for regression)"))


# ------------------------------------------------------------------------------------------------ router level
from .. import emit as E
from .. import symgn as G
from .. import wire as W
from ..gnharness import Harness, all_vars, build_real, eval_term
from ..interp import TRUE, FALSE
from flexstack.geonet.router import Router
from flexstack.geonet.service_access_point import HeaderType, GeoBroadcastHST, GeoAnycastHST, TopoBroadcastHST


def _hop_queries(ctx, tag, h, ex, lt_ms, want_rhl, want_mhl, real_call, extra=()):
    """originated packet: RHL (basic header octet 3), MHL (common header octet 6) and lifetime"""
    I = h.I
    vars_ = all_vars(h, *extra)
    bad = []
    for c, pkt in h.sent:
        pkt = I.sbytes(pkt)
        if len(pkt.bs) < 12:
            bad.append(c)
            continue
        rhl, mhl, lt = pkt.bs[3], pkt.bs[10], pkt.bs[2]
        mult = z3.ZeroExt(26, z3.Extract(7, 2, lt))
        base = z3.Extract(1, 0, lt)
        ms = z3.If(base == 0, mult * 50, z3.If(base == 1, mult * 1000, z3.If(base == 2, mult * 10000, mult * 100000)))
        bad.append(z3.And(c, z3.Or(rhl != z3.Extract(7, 0, I.num(want_rhl)), mhl != z3.Extract(7, 0, I.num(want_mhl)),
                                   ms != z3.BitVecVal(lt_ms, 32))))

    def replay(vals):
        R, ll, got, patches = build_real(h, vals)
        with patches:
            try:
                real_call(R, vals)
            except Exception as e:
                return True, f"{tag}: raised {type(e).__name__}: {e}"
        wr, wm = eval_term(I.num(want_rhl), vals), eval_term(I.num(want_mhl), vals)
        for p in ll.sent:
            code = p[2]
            ms = (code >> 2) * BASE_MS[code & 3]
            if p[3] != wr or p[10] != wm or ms != lt_ms:
                return True, f"{tag}: emitted RHL={p[3]} MHL={p[10]} lifetime={ms} ms; required RHL={wr} MHL={wm} lifetime={lt_ms} ms"
        return False, f"{tag}: {len(ll.sent)} packet(s), hop limits and lifetime as required"
    ctx.witness(f"{tag}-reach", I, z3.And(h.any_send(), z3.Not(h.exc())), vars=vars_, validate=lambda vals: not replay(vals)[0] or True)
    ctx.prove(f"{tag}-hop-limits-and-lifetime", I, z3.Or(*bad) if bad else FALSE, vars=vars_, replay=replay,
              desc=f"{tag}: RHL/MHL of the originated packet follow the hop-limit rule and LT is the quantised request/default")


@vc("C20", "L7-origin-shb-beacon")
def l7_shb(ctx):
    for lt in ([None, 0.0, 0.75] if ctx.tier == "quick" else E.LIFETIMES):
        h, req, conf, ex, lt_ms = E.case_shb(3, lt)
        _hop_queries(ctx, f"SHB[lt={lt}]", h, ex, lt_ms, 1, 1, lambda R, vals, req=req: R.gn_data_request_shb(G.concretize(req, vals)), (req,))
    h, ex, lt_ms = E.case_beacon()
    _hop_queries(ctx, "BEACON", h, ex, lt_ms, 1, 1, lambda R, vals: R.gn_data_request_beacon())
    ctx.bound("SHB / beacon: requested hop limit 0..255 symbolic (must be ignored), lifetime menu, all other fields symbolic")


@vc("C20", "L7-origin-gbc-gac")
def l7_gbc(ctx):
    cases = [(HeaderType.GEOBROADCAST, GeoBroadcastHST.GEOBROADCAST_CIRCLE), (HeaderType.GEOANYCAST, GeoAnycastHST.GEOANYCAST_RECT)]
    if ctx.tier == "thorough":
        cases = [(HeaderType.GEOBROADCAST, x) for x in GeoBroadcastHST] + [(HeaderType.GEOANYCAST, x) for x in GeoAnycastHST]
    for ht, hst in cases:
        for lt in ([None, 0.0, 3.2] if ctx.tier == "quick" else E.LIFETIMES):
            h, req, conf, ex, lt_ms, info = E.case_gbc(ht, hst, 3, lt)
            meth = "gn_data_request_gbc" if ht == HeaderType.GEOBROADCAST else "gn_data_request_gac"
            _hop_queries(ctx, f"{hst.name}[lt={lt}]", h, ex, lt_ms, info["hop"], info["hop"],
                         lambda R, vals, req=req, meth=meth: getattr(R, meth)(G.concretize(req, vals)), (req,))
    ctx.bound("GBC/GAC: requested hop limit 0..255 and itsGnDefaultHopLimit 1..255 symbolic")


@vc("C20", "L7-origin-guc-ls")
def l7_guc(ctx):
    for lt in ([None, 0.0, 63.0] if ctx.tier == "quick" else E.LIFETIMES):
        h, req, conf, ex, lt_ms, info = E.case_guc(3, lt)
        _hop_queries(ctx, f"GUC[lt={lt}]", h, ex, lt_ms, info["hop"], info["hop"],
                     lambda R, vals, req=req: R.gn_data_request_guc(G.concretize(req, vals)), (req,))
    h, ex, lt_ms, info = E.case_ls_request()
    _hop_queries(ctx, "LSREQ", h, ex, lt_ms, info["dflt"], info["dflt"],
                 lambda R, vals, info=info: R._send_ls_request_packet(G.concretize(info["sought"], vals)), (info["sought"],))


def _rx_harness(L):
    h = Harness(8 * 24 + 128 + 64, geom="free", greedy="free", area_size="free", ego="sym")
    h.add_entry("e1")
    pkt = G.sym_bytes("f", L)
    h.I.assumptions.append(pkt.bs[0] == 0x11)          # version 1, NH = common header
    h.call(Router.gn_data_indicate, pkt)
    return h, pkt


def _rx_replay(h, vals):
    R, ll, got, patches = build_real(h, vals)
    calls = R.location_table.calls
    err = None
    with patches:
        try:
            R.gn_data_indicate(vals["frame"])
        except Exception as e:
            err = e
    return R, ll, got, calls, err


@vc("C20", "L8-rhl-above-mhl-discarded")
def l8(ctx):
    """a received packet whose RHL exceeds its MHL produces no indication, no transmission and no table update"""
    for L in ((36, 40, 64) if ctx.tier == "quick" else (12, 36, 40, 48, 56, 60, 64, 80)):
        h, pkt = _rx_harness(L)
        I = h.I
        over = z3.UGT(pkt.bs[3], pkt.bs[10])
        table = [c for c, n, a in h.table_calls if n.startswith("new_")]
        effect = z3.Or(h.any_indication(), h.any_send(), *table) if table else z3.Or(h.any_indication(), h.any_send())
        vars_ = all_vars(h)
        vars_["frame"] = pkt

        def replay(vals, h=h):
            R, ll, got, calls, err = _rx_replay(h, vals)
            f = vals["frame"]
            return f[3] > f[10] and bool(got or ll.sent or calls), f"frame RHL={f[3]} MHL={f[10]} {f.hex()}: indications={len(got)} sent={len(ll.sent)} table updates={calls} error={err!r}"
        ctx.witness(f"L{L}-reach-delivery", I, z3.And(z3.Not(over), h.any_indication()) if h.indications else z3.Not(over), vars=vars_)
        ctx.prove(f"L{L}-no-effect-when-RHL>MHL", I, z3.And(over, effect), vars=vars_, replay=replay,
                  desc="RHL > MHL: nothing is delivered, forwarded or entered into the location table, for every header type")
    ctx.bound("frames of the listed lengths, all octets symbolic except octet 0 (version 1 / NH common); security disabled")


@vc("C20", "L6-remaining-lifetime-reported")
def l6(ctx):
    """the remaining lifetime handed to the upper layer never exceeds the lifetime field of the received packet"""
    for L in ((40, 64) if ctx.tier == "quick" else (40, 48, 56, 60, 64, 80)):
        h, pkt = _rx_harness(L)
        I = h.I
        lt = pkt.bs[2]
        mult = z3.ZeroExt(26, z3.Extract(7, 2, lt))
        base = z3.Extract(1, 0, lt)
        ms = z3.If(base == 0, mult * 50, z3.If(base == 1, mult * 1000, z3.If(base == 2, mult * 10000, mult * 100000)))
        bad, rhl_bad = [], []
        for c, ind in h.indications:
            rem = ind.fields["remaining_packet_lifetime"]
            sec = I._int_view(rem)           # the code reports float(<int seconds>): compare in the integer sort
            if sec is None:
                bad.append(z3.And(c, I.to_float(rem) * 1000 > z3.ToReal(z3.BV2Int(ms))))
            else:
                sec = I.num(sec)
                bad.append(z3.And(c, z3.Or(sec < 0, sec * 1000 > z3.ZeroExt(I.W - 32, ms))))
            r = ind.fields["remaining_hop_limit"]
            rhl_bad.append(z3.And(c, I.num(r) != z3.ZeroExt(I.W - 8, pkt.bs[3])))
        vars_ = all_vars(h)
        vars_["frame"] = pkt

        def replay(vals, h=h):
            R, ll, got, calls, err = _rx_replay(h, vals)
            f = vals["frame"]
            wire = (f[2] >> 2) * BASE_MS[f[2] & 3] / 1000.0
            for g in got:
                if g.remaining_packet_lifetime > wire or g.remaining_hop_limit != f[3]:
                    return True, f"frame {f.hex()}: lifetime field = {wire} s, RHL field = {f[3]}; indication reports remaining lifetime {g.remaining_packet_lifetime} s, hop limit {g.remaining_hop_limit}"
            return False, f"{len(got)} indication(s) consistent"
        ctx.witness(f"L{L}-reach-indication", I, h.any_indication(), vars=vars_)
        ctx.prove(f"L{L}-remaining-lifetime<=wire", I, z3.Or(*bad) if bad else FALSE, vars=vars_, replay=replay)
        ctx.prove(f"L{L}-remaining-hop-limit=wire", I, z3.Or(*rhl_bad) if rhl_bad else FALSE, vars=vars_, replay=replay)
