"""C02 - emitted packets and header codecs conform to the ETSI wire formats."""
import z3
from ..calls import make
from ..values import Obj, EnumSym, SBytes, Guarded
from ..runner import vc
from .. import wire as W
from .. import symgn as G

from flexstack.geonet.gn_address import GNAddress, M, ST, MID
from flexstack.geonet.position_vector import LongPositionVector, ShortPositionVector, TST
from flexstack.geonet.basic_header import BasicHeader, LT, LTbase, BasicNH
from flexstack.geonet.common_header import CommonHeader
from flexstack.geonet.service_access_point import (CommonNH, HeaderType, HeaderSubType, TrafficClass, GeoBroadcastHST,
                                                    GeoAnycastHST, TopoBroadcastHST, LocationServiceHST)
from flexstack.geonet.gbc_extended_header import GBCExtendedHeader
from flexstack.geonet.tsb_extended_header import TSBExtendedHeader
from flexstack.geonet.guc_extended_header import GUCExtendedHeader
from flexstack.geonet.ls_extended_header import LSRequestExtendedHeader, LSReplyExtendedHeader
from flexstack.btp.btp_header import BTPAHeader, BTPBHeader


def exc_of(I, n0=0):
    r = I.raises[n0:]
    return z3.Or(*[c for c, _ in r]) if r else z3.BoolVal(False)


def real_fields(obj, layout):
    out = {}
    for path, off, bits, kind in W.flat(layout):
        if kind != "z":
            out[path] = W.real_get(obj, path)
    return out


def encode_vc(ctx, tag, layout, mk_sym, enc_fn, real_enc):
    nbits = W.total_bits(layout)
    I = make("bv", nbits + 64)
    obj = mk_sym(I, "x")
    out = I.call_function(enc_fn, [obj])
    spec, ok = W.spec_pack(I, obj, layout)
    vars_ = G.vars_of(I, obj)
    ctx.bound(f"{tag}: every field over its full bit width (signed fields over their two's-complement range) in one query")

    def replay(vals):
        conc = G.concretize(obj, vals)
        want = W.ref_pack(real_fields(conc, layout), layout)
        try:
            got = real_enc(conc)
        except Exception as e:
            return True, f"{tag} encode of {conc} raised {type(e).__name__}: {e}; standard says {want.hex()}"
        return got != want, f"{tag} encode of {conc} = {bytes(got).hex()} ; standard says {want.hex()}"

    def validate(vals):
        conc = G.concretize(obj, vals)
        return bytes(real_enc(conc)) == W.ref_pack(real_fields(conc, layout), layout)
    ctx.witness(f"{tag}-enc-reach", I, z3.And(ok, z3.Not(exc_of(I))), vars=vars_, validate=validate)
    ctx.prove(f"{tag}-enc-no-exception", I, z3.And(ok, exc_of(I)), vars=vars_, replay=replay,
              desc=f"{tag}: encoder raises for no representable field values")
    if isinstance(out, SBytes):
        ctx.prove(f"{tag}-enc-layout", I, z3.And(ok, z3.Not(exc_of(I)), W.bits_of_bytes(out) != spec), vars=vars_, replay=replay,
                  desc=f"{tag}: encoded octets equal the clause-9 layout")
    else:
        ctx.inconclusive(f"{tag}-enc-layout", f"encoder returned {type(out).__name__}, not bytes")


def decode_vc(ctx, tag, layout, dec_fn, real_dec, pre_fn=None, skip=()):
    nbits = W.total_bits(layout)
    I = make("bv", nbits + 64)
    data = G.sym_bytes("d", nbits // 8)
    dec = I.call_function(dec_fn, [data])
    wire = W.bits_of_bytes(data)
    pre = pre_fn(wire) if pre_fn else z3.BoolVal(True)
    eqs = W.spec_unpack_eq(I, dec, wire, layout, skip=skip)
    vars_ = {"data": data}
    ctx.bound(f"{tag}: all 2^{nbits} byte strings of the header length whose enumerated fields are defined")

    def replay(vals):
        d = vals["data"]
        want = W.ref_unpack(d, layout)
        try:
            got = real_dec(d)
        except Exception as e:
            return True, f"{tag} decode of {d.hex()} raised {type(e).__name__}: {e}"
        bad = {p: (W.real_get(got, p), want[p]) for p, off, b, k in W.flat(layout) if k != "z" and p not in skip and W.real_get(got, p) != want[p]}
        return bool(bad), f"{tag} decode of {d.hex()}: fields (decoded, standard) differ: {bad}"

    def validate(vals):
        return not replay(vals)[0]
    ctx.witness(f"{tag}-dec-reach", I, z3.And(pre, z3.Not(exc_of(I))), vars=vars_, validate=validate)
    ctx.prove(f"{tag}-dec-no-exception", I, z3.And(pre, exc_of(I)), vars=vars_, replay=replay,
              desc=f"{tag}: decoder accepts every conformant header")
    ctx.prove(f"{tag}-dec-fields", I, z3.And(pre, z3.Not(exc_of(I)), z3.Or(*[z3.Not(e) for _, e in eqs])), vars=vars_, replay=replay,
              desc=f"{tag}: every decoded field equals the wire value (signed fields sign-extended)")


def addr_pre(prefix):
    return {prefix + "m": M, prefix + "st": ST}


def lpv_enums(prefix=""):
    return addr_pre(prefix + "gn_addr.")


# ------------------------------------------------------------------------------------------------ codecs
@vc("C02", "basic-header")
def basic(ctx):
    encode_vc(ctx, "BASIC", W.BASIC, G.sym_basic, BasicHeader.encode_to_bytes, lambda o: o.encode_to_bytes())
    decode_vc(ctx, "BASIC", W.BASIC, BasicHeader.decode_from_bytes, BasicHeader.decode_from_bytes,
              pre_fn=lambda w: W.enum_valid(w, W.BASIC, {"nh": BasicNH, "lt.base": LTbase}))


@vc("C02", "traffic-class")
def tc(ctx):
    encode_vc(ctx, "TC", W.TC, G.sym_tc, TrafficClass.encode_to_bytes, lambda o: o.encode_to_bytes())
    decode_vc(ctx, "TC", W.TC, TrafficClass.decode_from_bytes, TrafficClass.decode_from_bytes)


def common_pre(w):
    ht = W.wire_field(w, W.COMMON, "ht")
    hst = W.wire_field(w, W.COMMON, "hst")
    nh = W.wire_field(w, W.COMMON, "nh")
    fl = W.wire_field(w, W.COMMON, "flags")
    hst_ok = z3.If(z3.Or(ht == 4, ht == 3), z3.ULE(hst, 2), z3.If(z3.Or(ht == 5, ht == 6), z3.ULE(hst, 1), hst == 0))
    return z3.And(z3.ULE(nh, 3), z3.ULE(ht, 6), hst_ok, (fl & 0x7F) == 0)


@vc("C02", "common-header")
def common(ctx):
    for ht in HeaderType:
        encode_vc(ctx, f"COMMON[{ht.name}]", W.COMMON, lambda I, n, ht=ht: G.sym_common(I, n, ht),
                  CommonHeader.encode_to_bytes, lambda o: o.encode_to_bytes())
    decode_vc(ctx, "COMMON", W.COMMON, CommonHeader.decode_from_bytes, CommonHeader.decode_from_bytes, pre_fn=common_pre)


@vc("C02", "gn-address")
def gnaddr(ctx):
    encode_vc(ctx, "GN_ADDR", W.GN_ADDR, G.sym_gn_addr, GNAddress.encode, lambda o: o.encode())
    decode_vc(ctx, "GN_ADDR", W.GN_ADDR, GNAddress.decode, GNAddress.decode,
              pre_fn=lambda w: W.enum_valid(w, W.GN_ADDR, addr_pre("")))


@vc("C02", "long-position-vector")
def lpv(ctx):
    encode_vc(ctx, "LPV", W.LPV, G.sym_lpv, LongPositionVector.encode, lambda o: o.encode())
    decode_vc(ctx, "LPV", W.LPV, LongPositionVector.decode, LongPositionVector.decode,
              pre_fn=lambda w: W.enum_valid(w, W.LPV, lpv_enums()))


@vc("C02", "short-position-vector")
def spv(ctx):
    encode_vc(ctx, "SPV", W.SPV, G.sym_spv, ShortPositionVector.encode, lambda o: o.encode())
    decode_vc(ctx, "SPV", W.SPV, ShortPositionVector.decode, ShortPositionVector.decode,
              pre_fn=lambda w: W.enum_valid(w, W.SPV, lpv_enums()))


@vc("C02", "gbc-extended-header")
def gbc(ctx):
    encode_vc(ctx, "GBC", W.GBC, G.sym_gbc, GBCExtendedHeader.encode, lambda o: o.encode())
    decode_vc(ctx, "GBC", W.GBC, GBCExtendedHeader.decode, GBCExtendedHeader.decode,
              pre_fn=lambda w: W.enum_valid(w, W.GBC, lpv_enums("so_pv.")))


@vc("C02", "tsb-extended-header")
def tsb(ctx):
    encode_vc(ctx, "TSB", W.TSB, G.sym_tsb, TSBExtendedHeader.encode, lambda o: o.encode())
    decode_vc(ctx, "TSB", W.TSB, TSBExtendedHeader.decode, TSBExtendedHeader.decode,
              pre_fn=lambda w: W.enum_valid(w, W.TSB, lpv_enums("so_pv.")))


@vc("C02", "guc-extended-header")
def guc(ctx):
    encode_vc(ctx, "GUC", W.GUC, G.sym_guc, GUCExtendedHeader.encode, lambda o: o.encode())
    decode_vc(ctx, "GUC", W.GUC, GUCExtendedHeader.decode, GUCExtendedHeader.decode,
              pre_fn=lambda w: W.enum_valid(w, W.GUC, {**lpv_enums("so_pv."), **lpv_enums("de_pv.")}))


@vc("C02", "ls-extended-headers")
def ls(ctx):
    encode_vc(ctx, "LSREQ", W.LSREQ, G.sym_lsreq, LSRequestExtendedHeader.encode, lambda o: o.encode())
    decode_vc(ctx, "LSREQ", W.LSREQ, LSRequestExtendedHeader.decode, LSRequestExtendedHeader.decode,
              pre_fn=lambda w: W.enum_valid(w, W.LSREQ, {**lpv_enums("so_pv."), **addr_pre("request_gn_addr.")}))
    encode_vc(ctx, "LSREP", W.LSREP, lambda I, n: G.sym_guc(I, n, cls=LSReplyExtendedHeader), LSReplyExtendedHeader.encode, lambda o: o.encode())
    decode_vc(ctx, "LSREP", W.LSREP, LSReplyExtendedHeader.decode, LSReplyExtendedHeader.decode,
              pre_fn=lambda w: W.enum_valid(w, W.LSREP, {**lpv_enums("so_pv."), **lpv_enums("de_pv.")}))


@vc("C02", "btp-headers")
def btp(ctx):
    def mk_a(I, n):
        return Obj(BTPAHeader, dict(destination_port=I.int_var(n + "_dp", 0, 65535), source_port=I.int_var(n + "_sp", 0, 65535)))

    def mk_b(I, n):
        return Obj(BTPBHeader, dict(destination_port=I.int_var(n + "_dp", 0, 65535), destination_port_info=I.int_var(n + "_dpi", 0, 65535)))
    encode_vc(ctx, "BTPA", W.BTPA, mk_a, BTPAHeader.encode, lambda o: o.encode())
    decode_vc(ctx, "BTPA", W.BTPA, BTPAHeader.decode, BTPAHeader.decode)
    encode_vc(ctx, "BTPB", W.BTPB, mk_b, BTPBHeader.encode, lambda o: o.encode())
    decode_vc(ctx, "BTPB", W.BTPB, BTPBHeader.decode, BTPBHeader.decode)


# ------------------------------------------------------------------------------------------------ emitted packets
from .. import emit as E
from ..gnharness import all_vars, build_real, eval_term
from flexstack.geonet.router import Router
from flexstack.geonet.mib import GnIsMobile


def _lt_ok(pkt, lt_ms):
    code = pkt[2]
    return (code >> 2) * E.BASE_MS[code & 3] == lt_ms


def emit_queries(ctx, tag, h, ex, lt_ms, real_call, extra_objs=()):
    """common part of every emit VC: each send event carries exactly the expected packet"""
    I = h.I
    vars_ = all_vars(h, *extra_objs)
    okrep = z3.And(*ex.ok) if ex.ok else z3.BoolVal(True)
    bad = []
    for c, pkt in h.sent:
        if not isinstance(pkt, SBytes):
            pkt = I.sbytes(pkt)
        bad.append(z3.And(c, ex.mismatch(pkt, lt_ms)))
    sent_any = h.any_send()

    def run_real(vals):
        R, ll, got, patches = build_real(h, vals)
        with patches:
            try:
                real_call(R, vals)
            except Exception as e:
                return None, f"raised {type(e).__name__}: {e}"
        return ll.sent, None

    def replay(vals):
        sent, err = run_real(vals)
        if err:
            return True, f"{tag}: source operation {err}"
        want = b"".join(eval_term(bv, vals).to_bytes(bv.size() // 8, "big") for _, bv in ex.segs)
        for p in sent:
            same = len(p) == len(want) and p[:2] == want[:2] and p[3:] == want[3:] and _lt_ok(p, lt_ms)
            if not same:
                return True, f"{tag}: emitted {ex.describe(p) if len(p) == len(want) else p.hex()} ; standard prescribes {ex.describe(want)} with lifetime {lt_ms} ms"
        return False, f"{tag}: {len(sent)} packet(s) emitted, all conformant"

    def validate(vals):
        # translator validation: the packet computed by the encoding under the model == the real packet
        sent, err = run_real(vals)
        if err is not None:
            return False
        sym = [bytes(eval_term(b, vals) if isinstance(b, z3.ExprRef) else b for b in I.sbytes(p).bs)
               for c, p in h.sent if eval_term(c, vals)]
        return sent == sym
    ctx.witness(f"{tag}-emit-reach", I, z3.And(sent_any, okrep, z3.Not(h.exc())), vars=vars_, validate=validate)
    ctx.prove(f"{tag}-emit-no-exception", I, z3.And(okrep, h.exc()), vars=vars_,
              replay=lambda vals: (run_real(vals)[1] is not None, f"{tag}: {run_real(vals)[1]}"),
              desc=f"{tag}: the source operation raises for no request inside the field ranges")
    ctx.prove(f"{tag}-emit-octets", I, z3.And(okrep, z3.Or(*bad)) if bad else z3.BoolVal(False), vars=vars_, replay=replay,
              desc=f"{tag}: every emitted packet is octet for octet basic|common|extended|payload of EN 302 636-4-1 clause 9")
    ctx.bound(f"{tag}: payload lengths {{0,1,5}} octets (all octets symbolic), lifetimes from the menu {E.LIFETIMES}, "
              "all other request / ego-PV / MIB-hop-limit / sequence-number values symbolic over their full ranges")
    ctx.stub("LinkLayer.send records the packet; location table replaced by a symbolic table (one arbitrary neighbour, "
             "arbitrary destination entry); gn_geometric_function_f / gn_greedy_forwarding / _compute_area_size_m2 return arbitrary values")


def _lifetimes(ctx):
    return E.LIFETIMES if ctx.tier == "thorough" else [None, 0.75]


def _lengths(ctx):
    return (0, 1, 5, 64) if ctx.tier == "thorough" else (5,)


@vc("C02", "emit-shb")
def emit_shb(ctx):
    for mobile in GnIsMobile:
        for L in _lengths(ctx):
            for lt in _lifetimes(ctx):
                h, req, conf, ex, lt_ms = E.case_shb(L, lt, mobile)
                emit_queries(ctx, f"SHB[{mobile.name},L={L},lt={lt}]", h, ex, lt_ms,
                             lambda R, vals, req=req: R.gn_data_request_shb(G.concretize(req, vals)), extra_objs=(req,))


@vc("C02", "emit-beacon")
def emit_beacon(ctx):
    for mobile in GnIsMobile:
        h, ex, lt_ms = E.case_beacon(mobile)
        emit_queries(ctx, f"BEACON[{mobile.name}]", h, ex, lt_ms, lambda R, vals: R.gn_data_request_beacon())


def _emit_area(ctx, ht, hst):
    for L in _lengths(ctx)[:2]:
        for lt in _lifetimes(ctx)[:3]:
            h, req, conf, ex, lt_ms, info = E.case_gbc(ht, hst, L, lt)
            meth = "gn_data_request_gbc" if ht.name == "GEOBROADCAST" else "gn_data_request_gac"
            emit_queries(ctx, f"{hst.name}[L={L},lt={lt}]", h, ex, lt_ms,
                         lambda R, vals, req=req, meth=meth: getattr(R, meth)(G.concretize(req, vals)), extra_objs=(req,))


def _mk_area_vc(ht, hst):
    @vc("C02", f"emit-{hst.name.lower()}")
    def f(ctx):
        _emit_area(ctx, ht, hst)
    return f


for _ht, _hsts in ((HeaderType.GEOBROADCAST, GeoBroadcastHST), (HeaderType.GEOANYCAST, GeoAnycastHST)):
    for _hst in _hsts:
        _mk_area_vc(_ht, _hst)


@vc("C02", "emit-guc")
def emit_guc(ctx):
    for L in _lengths(ctx)[:2]:
        for lt in _lifetimes(ctx)[:2]:
            h, req, conf, ex, lt_ms, info = E.case_guc(L, lt)
            emit_queries(ctx, f"GUC[L={L},lt={lt}]", h, ex, lt_ms,
                         lambda R, vals, req=req: R.gn_data_request_guc(G.concretize(req, vals)), extra_objs=(req,))


@vc("C02", "emit-ls-request")
def emit_lsreq(ctx):
    for mobile in GnIsMobile:
        h, ex, lt_ms, info = E.case_ls_request(mobile)
        emit_queries(ctx, f"LSREQ[{mobile.name}]", h, ex, lt_ms,
                     lambda R, vals, info=info: R._send_ls_request_packet(G.concretize(info["sought"], vals)), extra_objs=(info["sought"],))


@vc("C02", "emit-btp-sdu")
def emit_btp(ctx):
    """the GN SDU a BTP request turns into: BTP-A/B header | payload, with the GN length = number of SDU octets (the PL field)"""
    from . import c01
    for t in (CommonNH.BTP_A, CommonNH.BTP_B):
        for L in ((0, 5) if ctx.tier == "quick" else (0, 1, 5, 64, 1400)):
            c01._btp_request(ctx, t, L)
    ctx.bound("BTP-A/BTP-B, payload lengths {0,5} (quick) / {0,1,5,64,1400} (thorough), every 16-bit port / port info")


@vc("C02", "emit-ls-reply")
def emit_lsrep(ctx):
    """the LS reply a station emits when it is the sought station of a received LS request: every octet from its own MIB / position and the
    requester's stored position vector - nothing echoed from the request's headers"""
    from ..gnharness import Harness
    from ..interp import TRUE
    for mobile in GnIsMobile:
        h = Harness(8 * 24 + 128 + 64, itsGnIsMobile=mobile)
        I = h.I
        dflt = E.sym_hop_default(I)
        mo = I.lift_value(h.R.mib)
        mo.fields["itsGnDefaultHopLimit"] = dflt
        h.Ro.fields["mib"] = mo
        h.mib = mo
        sn0 = I.int_var("sn0", 0, 65534)
        h.set_sn(sn0)
        requester = G.sym_gn_addr(I, "requester")
        ent = h.add_entry("rq", addr=requester, present=z3.BoolVal(True))
        # the received LS request: arbitrary source position vector of the requester, sought address = this station, arbitrary common-header octets
        so_pv = G.sym_lpv(I, "rq_so")
        so_pv.fields["gn_addr"] = requester
        hdr = Obj(LSRequestExtendedHeader, dict(sn=I.int_var("rq_sn", 0, 65535), reserved=0, so_pv=so_pv, request_gn_addr=h.R.mib.itsGnLocalGnAddr))
        I.stubs[LSRequestExtendedHeader.decode] = lambda it, a, k, pc, hdr=hdr: hdr
        rx_flags = I.int_var("received_flags", 0, 255)
        rx_common = Obj(CommonHeader, dict(nh=CommonNH.ANY, reserved=0, ht=HeaderType.LS, hst=LocationServiceHST.LS_REQUEST, tc=TrafficClass(), flags=rx_flags, pl=0,
                                           mhl=I.int_var("received_mhl", 1, 255), reserved2=0))
        rx_basic = I.lift_value(BasicHeader())
        h.call(Router.gn_data_indicate_ls_request, SBytes([z3.BitVecVal(0, 8)] * 36), rx_common, rx_basic)
        sn = z3.If(sn0 + 1 == I.const(65535), I.const(0), sn0 + 1)
        I.mag[sn.get_id()] = 16
        ex = E.Expect(I)
        ex.add_layout("basic", E.basic_vals(dflt), W.BASIC)
        ex.add_layout("common", E.common_vals(0, 6, 1, None, mobile.value, 0, dflt), W.COMMON)
        ev = {"sn": sn, "reserved": 0}
        ev.update({"so_pv." + k: v for k, v in E.vals_from_obj(h.ego, W.LPV).items()})
        ev.update({"de_pv." + k: v for k, v in E.vals_from_obj(ent.fields["position_vector"], W.SPV).items()})
        ex.add_layout("lsrep", ev, W.LSREP)

        def real_call(R, vals, hdr=hdr, rx_common=rx_common):
            from unittest import mock
            import flexstack.geonet.router as RM
            ch = G.concretize(rx_common, vals)
            with mock.patch.object(RM.LSRequestExtendedHeader, "decode", classmethod(lambda cls, b: G.concretize(hdr, vals))):
                return R.gn_data_indicate_ls_request(bytes(36), ch, BasicHeader())
        emit_queries(ctx, f"LSREP[{mobile.name}]", h, ex, E.lifetime_ms(h, None), real_call, extra_objs=(hdr, rx_common, ent))
    ctx.bound("LS request addressed to this station from an arbitrary known requester; the request's common-header flags and hop limit arbitrary")
