"""C14 - LDM subscriptions notify exactly the matching data, at the requested cadence.

One-step VCs from an arbitrary LDM state (store of two records, two subscriptions of different consumers with symbolic
notification interval / multiplicity / last-notification time, symbolic clock): subscription validation, one attendance
pass, unsubscription, the reactive trigger.  Histories follow by induction (hand-written composition)."""
import ast
import z3
from ..values import Obj, Opaque, SBytes, SDict, SList, Guarded, Undefined
from ..interp import TRUE, FALSE
from ..runner import vc
from ..facil import cond_or, num_eq, val_eq, path_get, as_num
from ..ldmh import Ldm, Rec, TYPES, TYPE_ID, snapshot
from .c12 import enum_is, path_field
from .c13 import body, QRec, spec_match, py_match, member, CO

from flexstack.facilities.local_dynamic_map.ldm_service import LDMService
from flexstack.facilities.local_dynamic_map.ldm_service_reactive import LDMServiceReactive
from flexstack.facilities.local_dynamic_map.if_ldm_4 import InterfaceLDM4
from flexstack.facilities.local_dynamic_map import ldm_classes as LC
from flexstack.facilities.local_dynamic_map import ldm_constants as K
from flexstack.utils.time_service import TimeService, ITS_EPOCH, ELAPSED_SECONDS

SR = LC.SubscribeDataobjectsResult


def install_hash(I):
    """hash(request): an uninterpreted function of the request's field values, injective on the applications that occur
    (python hashes a frozen dataclass over its field tuple; collisions, probability 2^-61, are outside the claim)"""
    import enum
    apps = []       # (function name, z3 result, argument terms)

    def code(x):
        return z3.IntVal(abs(__import__("zlib").crc32(repr(x).encode())) + 1000)

    def leaves(v):
        if isinstance(v, z3.BoolRef):
            return [z3.If(v, 1, 0)]
        if isinstance(v, z3.ExprRef):
            return [I.num(v)]
        if isinstance(v, bool):
            return [z3.IntVal(int(v))]
        if isinstance(v, int):
            return [z3.IntVal(v)]
        if v is None:
            return [z3.IntVal(-7)]
        if isinstance(v, enum.Enum):
            return [code(v)]
        if isinstance(v, Obj):
            out = [code(v.cls.__name__)]
            for k in v.fields:
                out += leaves(v.fields[k])
            return out
        if isinstance(v, Guarded):
            alts = [(c, leaves(x)) for c, x in v.alts if not isinstance(x, Undefined)]
            n = max(len(l) for _, l in alts)
            out = []
            for i in range(n):
                t = z3.IntVal(-9)
                for c, l in reversed(alts):
                    t = z3.If(c, l[i] if i < len(l) else z3.IntVal(-9), t)
                out.append(t)
            return out
        if isinstance(v, tuple):
            out = [z3.IntVal(len(v) + 50)]
            for x in v:
                out += leaves(x)
            if len(v) <= 4 and all(isinstance(x, (int, z3.ExprRef)) for x in v):
                out += [z3.IntVal(-9)] * (4 - len(v))          # fixed arity for short scalar tuples (merged alternatives are padded the same way)
            return out
        return [code(getattr(v, "__name__", None) or repr(type(v)))]

    def h(it, a, k, pc):
        if isinstance(a[0], Guarded):
            # one application per alternative: alternatives of different shape must not be padded into one argument vector
            alts = [(c, h(it, [x], k, pc)) for c, x in a[0].alts if not isinstance(x, Undefined)]
            r = alts[-1][1]
            for c, x in reversed(alts[:-1]):
                r = z3.If(c, x, r)
            return r
        args = leaves(a[0])
        name = f"H{len(args)}"
        f = z3.Function(name, *([z3.IntSort()] * len(args)), z3.IntSort())
        r = f(*args)
        for n2, r2, args2 in apps:
            if n2 == name:
                it.assumptions.append(z3.Implies(r == r2, z3.And(*[x == y for x, y in zip(args, args2)])))
            else:
                it.assumptions.append(r != r2)
        apps.append((name, r, args))
        return r
    I.stubs[hash] = h
    return apps


class Sub:
    """one stored subscription with symbolic interval / multiplicity / last notification"""

    def __init__(self, h, tag, app, types, flt=None, order=None):
        I = h.I
        self.tag = tag
        self.calls = []

        def cb(resp):          # identity only; the engine calls the recorder below
            raise AssertionError("never executed")
        cb.__name__ = f"callback_{tag}"
        self.cb = cb
        I.stubs[cb] = lambda it, a, k, pc: self.calls.append((pc, a[0]))
        self.app = app
        self.types = types
        self.has_notify = z3.Bool(f"{tag}_has_notify_time")
        self.notify = I.int_var(f"{tag}_notify_ms", 0, 4398046511103)
        self.has_mult = z3.Bool(f"{tag}_has_multiplicity")
        self.mult = I.int_var(f"{tag}_multiplicity", 0, 255)
        self.has_last = z3.Bool(f"{tag}_has_last_notification")
        self.last = I.int_var(f"{tag}_last_notification_its", 0, 2 ** 42)
        self.flt, self.order = flt, order
        self.req = Obj(LC.SubscribeDataobjectsReq, dict(
            application_id=app, data_object_type=types, priority=None, filter=flt,
            notify_time=Guarded([(self.has_notify, Obj(LC.TimestampIts, dict(timestamp_its=self.notify))), (z3.Not(self.has_notify), None)]),
            multiplicity=Guarded([(self.has_mult, self.mult), (z3.Not(self.has_mult), None)]), order=order))
        self.info = Obj(LC.SubscriptionInfo, dict(subscription_request=self.req, callback=cb))

    def vars(self):
        return {x.decl().name(): x for x in (self.has_notify, self.notify, self.has_mult, self.mult, self.has_last, self.last)}


def num_ge(I, v, x):
    from ..facil import val_cmp
    return val_cmp(I, ast.GtE, v, x)


def num_le(I, v, x):
    from ..facil import val_cmp
    return val_cmp(I, ast.LtE, v, x)


def mk_filter(I, st):
    if st is None:
        return None, None
    path, op, ref = st
    return Obj(LC.Filter, dict(filter_statement_1=Obj(LC.FilterStatement, dict(attribute=path, operator=op, ref_value=ref)), logical_operator=None,
                               filter_statement_2=None)), (path, op, ref)


def its_of(now):
    return (z3.ToInt(now) - ITS_EPOCH + ELAPSED_SECONDS) * 1000


# ---------------------------------------------------------------------------------------------- U2 attendance
def _attendance(ctx, tag, with_filter, with_order, fixed_type=None, reentrant=False):
    h = Ldm(body=body, fixed_type=fixed_type)
    for r in h.recs:
        r.__class__ = QRec
    I = h.I
    install_hash(I)
    ref = I.int_var("ref", 0, 4294967295)
    flt, st = mk_filter(I, ("header.stationId", CO.GREATER_THAN_OR_EQUAL, ref)) if with_filter else (None, None)
    ASC, DESC = LC.OrderingDirection.ASCENDING, LC.OrderingDirection.DESCENDING
    order_spec = [("generationDeltaTime", DESC)] if with_order is True else (with_order or [])
    order = tuple(Obj(LC.OrderTupleValue, dict(attribute=at, ordering_direction=d)) for at, d in order_spec) if order_spec else None
    a = Sub(h, "subA", h.cons[0], (2,), flt, order)           # consumer 1 subscribed to CAMs
    b = Sub(h, "subB", h.cons[1], (1,), None, None)            # consumer 2 subscribed to DENMs
    I.assumptions.append(h.cons[0] != h.cons[1])
    dereg = z3.Bool("subA_callback_deregisters_consumer2") if reentrant else None
    if reentrant:
        # a notification callback may call back into the LDM (IF.LDM.4 is what a consumer holds): here the callback of the first
        # subscription deregisters the consumer of the second one through the real LDMService.del_data_consumer_its_aid
        def cb_a(it, args, k, pc):
            a.calls.append((pc, args[0]))
            it.call_function(LDMService.del_data_consumer_its_aid, [h.service, h.cons[1]], pc=z3.And(it._lb(pc), dereg))
        I.stubs[a.cb] = cb_a
    h.subscriptions.items.extend([(TRUE, a.info), (TRUE, b.info)])
    for s in (a, b):
        h.last_checked.log.append((s.has_last, s.info, Obj(LC.TimestampIts, dict(timestamp_its=s.last)), False))
    I.call_function(LDMService.attend_subscriptions, [h.service])
    exc = cond_or(c for c, _ in I.raises)
    vars_ = h.vars()
    vars_["ref"] = ref
    if reentrant:
        vars_["subA_callback_deregisters_consumer2"] = dereg
    for s in (a, b):
        vars_.update(s.vars())
    reads = h.clock.reads
    # every subscription reads the clock when it is processed: judge 'interval elapsed' against its own reading (monotone clock)
    def matching(s, r):
        m = z3.And(z3.Or(*[r.type_id() == t for t in s.types]))
        if s is a and st is not None:
            m = z3.And(m, spec_match(r, *st))
        return m

    def n_match(s):
        return sum([z3.If(z3.And(h.present[i], matching(s, r)), 1, 0) for i, r in enumerate(h.recs)])

    def replay(vals):
        from unittest import mock
        db, maint, svc, if3, if4 = h.real(vals)
        got = {"subA": [], "subB": []}
        subs = {}
        for s, ty, fl, od in ((a, (2,), None if not with_filter else LC.Filter(LC.FilterStatement("header.stationId", CO.GREATER_THAN_OR_EQUAL, vals["ref"])),
                               None if not with_order else tuple(LC.OrderTupleValue(at, d) for at, d in order_spec)),
                              (b, (1,), None, None)):
            t = s.tag
            rq = LC.SubscribeDataobjectsReq(vals["consumer1" if s is a else "consumer2"], ty, None, fl,
                                            LC.TimestampIts(vals[f"{t}_notify_ms"]) if vals[f"{t}_has_notify_time"] else None,
                                            vals[f"{t}_multiplicity"] if vals[f"{t}_has_multiplicity"] else None, od)
            def cb_real(resp, t=t):
                got[t].append(resp)
                if reentrant and t == "subA" and vals["subA_callback_deregisters_consumer2"]:
                    svc.del_data_consumer_its_aid(vals["consumer2"])
            info = LC.SubscriptionInfo(rq, cb_real)
            subs[t] = info
            svc.subscriptions.append(info)
            if vals[f"{t}_has_last_notification"]:
                svc.last_checked_subscriptions_time[info] = LC.TimestampIts(vals[f"{t}_last_notification_its"])
        times = [vals[n] for n in sorted(h.clock.vars(), key=lambda x: int(x[3:]))] or [1.7e9]
        seen = []

        def tm():
            v = times.pop(0) if len(times) > 1 else times[0]
            seen.append(v)
            return v
        with mock.patch.object(TimeService, "time", staticmethod(tm)):
            svc.attend_subscriptions()
        bad = []
        lo, hi = (min(seen), max(seen)) if seen else (times[0], times[0])
        its_lo, its_hi = [(int(x) - ITS_EPOCH + ELAPSED_SECONDS) * 1000 for x in (lo, hi)]
        for s, ty in ((a, (2,)), (b, (1,))):
            t = s.tag
            names = [K.DATA_OBJECT_TYPE_ID[x] for x in ty]
            m = [v for k_, v in sorted(db.database.items()) if any(n in v["dataObject"] for n in names)
                 and (s is not a or not with_filter or py_match(v["dataObject"], "header.stationId", CO.GREATER_THAN_OR_EQUAL, vals["ref"]))]
            registered = (vals["consumer1"] if s is a else vals["consumer2"]) in svc.data_consumer_its_aid
            mult_ok = (not vals[f"{t}_has_multiplicity"]) or len(m) >= vals[f"{t}_multiplicity"]
            last = vals[f"{t}_last_notification_its"] if vals[f"{t}_has_last_notification"] else None
            nt = vals[f"{t}_notify_ms"] if vals[f"{t}_has_notify_time"] else None
            must = bool(m) and mult_ok and registered and (nt is None or last is None and nt == 0 or (last is not None and last + nt <= its_lo))
            may = bool(m) and mult_ok and registered and (nt is None or (last if last is not None else its_hi) + nt <= its_hi)
            n = len(got[t])
            if n > 1 or (n == 1 and not may) or (n == 0 and must):
                bad.append(f"{t}: {n} notification(s); {len(m)} matching object(s), multiplicity {vals[f'{t}_multiplicity'] if vals[f'{t}_has_multiplicity'] else None}, "
                           f"consumer registered={registered}, last notification {last}, interval {nt} ms, ITS clock {its_lo}..{its_hi}")
            for resp in got[t]:
                objs = list(resp.data_objects)
                if sorted(map(repr, objs)) != sorted(map(repr, m)):
                    bad.append(f"{t}: notified {len(objs)} object(s), {len(m)} match")
                if s is a and with_order:
                    def kf(o):
                        v = {"generationDeltaTime": o["dataObject"]["cam"]["generationDeltaTime"],
                             "stationType": o["dataObject"]["cam"]["camParameters"]["basicContainer"]["stationType"]}
                        return tuple(v[at] if d == ASC else -v[at] for at, d in order_spec)
                    keys = [kf(o) for o in objs]
                    if keys != sorted(keys):
                        bad.append(f"{t}: objects not in the requested order {[(at, str(d)) for at, d in order_spec]}: keys {keys}")
            lc_after = svc.last_checked_subscriptions_time.get(subs[t])
            if n == 1 and (lc_after is None or not its_lo <= lc_after.timestamp_its <= its_hi):
                bad.append(f"{t}: notified at ITS time {its_lo}..{its_hi} but the stored last-notification time is {lc_after}")
            if n == 0 and registered and last is not None and (lc_after is None or lc_after.timestamp_its != last):
                bad.append(f"{t}: not notified but the stored last-notification time moved from {last} to {lc_after}")
            if registered and subs[t] not in svc.subscriptions:
                bad.append(f"{t}: subscription of a registered consumer was dropped by the attendance")
        return bool(bad), f"{tag}: " + ("; ".join(bad) or "as the subscription model")
    ctx.witness(f"{tag}-reach-notified", I, z3.And(z3.Not(exc), cond_or(c for c, _ in a.calls), h.present[0], h.present[1]), vars=vars_)
    ctx.prove(f"{tag}-no-exception", I, exc, vars=vars_, replay=replay)
    now_lo, now_hi = its_of(reads[0][1]), its_of(reads[-1][1])
    if reentrant:
        ctx.witness(f"{tag}-reach-deregistered-from-a-callback", I,
                    z3.And(z3.Not(exc), dereg, cond_or(c for c, _ in a.calls), h.registered("consumer", b.app, post=False),
                           z3.Not(h.registered("consumer", b.app, post=True)), n_match(b) >= 1, z3.Not(b.has_notify), z3.Not(b.has_mult)),
                    vars=vars_, validate=lambda v: not replay(v)[0])
    for s in (a, b):
        called = cond_or(c for c, _ in s.calls)
        reg = h.registered("consumer", s.app, post=False)
        if reentrant and s is b:
            # registered when its turn comes: the first subscription's callback ran before (subscriptions are attended in stored order)
            reg = z3.And(reg, z3.Not(z3.And(dereg, cond_or(c for c, _ in a.calls))))
        nm = n_match(s)
        enough = z3.And(nm >= 1, z3.Or(z3.Not(s.has_mult), nm >= s.mult))
        # interval: never notified before -> the subscription time is 'now' (first check) so only a zero interval passes
        elapsed_must = z3.Or(z3.Not(s.has_notify), z3.And(s.has_last, s.last + s.notify <= now_lo), z3.And(z3.Not(s.has_last), s.notify == 0))
        elapsed_may = z3.Or(z3.Not(s.has_notify), z3.And(s.has_last, s.last + s.notify <= now_hi), z3.And(z3.Not(s.has_last), s.notify == 0))
        two = [z3.And(s.calls[i][0], s.calls[j][0]) for i in range(len(s.calls)) for j in range(i)]
        ctx.prove(f"{tag}-{s.tag}-at-most-one-notification-per-attendance", I, z3.Or(*two) if two else FALSE, vars=vars_, replay=replay)
        ctx.prove(f"{tag}-{s.tag}-notified-when-due", I, z3.And(reg, enough, elapsed_must, z3.Not(called)), vars=vars_, replay=replay,
                  desc="matching data >= multiplicity and the interval has passed (second-resolution ITS clock) => the callback is invoked by this attendance")
        ctx.prove(f"{tag}-{s.tag}-not-notified-otherwise", I, z3.And(called, z3.Not(z3.And(enough, elapsed_may))), vars=vars_, replay=replay,
                  desc="no notification without enough matching objects or before the interval has passed")
        ctx.prove(f"{tag}-{s.tag}-not-notified-after-deregistration", I, z3.And(called, z3.Not(reg)), vars=vars_, replay=replay,
                  desc="a consumer that has been deregistered is not notified again")
        bad = []
        for c, resp in s.calls:
            objs = path_field(resp, "data_objects")
            for i, r in enumerate(h.recs):
                bad.append(z3.And(c, member(I, objs, r.d) != z3.And(h.present[i], matching(s, r))))
            bad.append(z3.And(c, z3.Not(enum_is(I, path_field(resp, "result"), LC.RequestedDataObjectsResult.SUCCEED))))
            bad.append(z3.And(c, z3.Not(num_eq(I, path_field(resp, "application_id"), s.app))))
            if s is a and with_order and isinstance(objs, (SList, Guarded)):
                lst = objs
                if isinstance(lst, SList):
                    n0 = len(I.raises)

                    def leafk(x, at, cc):
                        cam = path_get(I, x, "dataObject", "cam", pc=cc)
                        return path_get(I, cam, "generationDeltaTime", pc=cc) if at == "generationDeltaTime" else path_get(I, cam, "camParameters", "basicContainer", "stationType", pc=cc)
                    ks = [(I._lb(cc), [as_num(I, leafk(x, at, I._lb(cc))) for at, d in order_spec]) for cc, x in lst.items]
                    del I.raises[n0:]
                    for p in range(len(ks)):
                        for q in range(p + 1, len(ks)):
                            wrong = FALSE          # q strictly before p in the requested lexicographic order
                            for j, (at, d) in reversed(list(enumerate(order_spec))):
                                x_, y_ = ks[q][1][j], ks[p][1][j]
                                before = (x_ < y_) if d == ASC else (x_ > y_)
                                wrong = z3.Or(before, z3.And(x_ == y_, wrong))
                            bad.append(z3.And(c, ks[p][0], ks[q][0], wrong))
        ctx.prove(f"{tag}-{s.tag}-notified-objects-are-exactly-the-matching-ones-in-order", I, z3.Or(*bad) if bad else FALSE, vars=vars_, replay=replay)
        # bookkeeping
        f, lc = I.sdict_lookup(h.last_checked, s.info)
        n0 = len(I.raises)
        lcv = lc.fields["timestamp_its"] if isinstance(lc, Obj) else path_field(lc, "timestamp_its") if isinstance(lc, Guarded) else None
        del I.raises[n0:]
        if lcv is not None:
            upd_bad = z3.Or(z3.And(called, z3.Or(z3.Not(I._lb(f)), z3.Not(z3.And(num_ge(I, lcv, now_lo), num_le(I, lcv, now_hi))))),
                            z3.And(z3.Not(called), s.has_last, reg, z3.Or(z3.Not(I._lb(f)), z3.Not(num_eq(I, lcv, s.last)))))
            ctx.prove(f"{tag}-{s.tag}-last-notification-time-is-now-iff-notified", I, upd_bad, vars=vars_, replay=replay,
                      desc="the time of the last notification becomes the current (second-resolution) time when the callback was invoked and stays otherwise: the next interval is counted from the notification")
        present_after = I._lb(I.contains(h.subscriptions, s.info))
        ctx.prove(f"{tag}-{s.tag}-registered-consumers-subscription-kept", I, z3.And(reg, z3.Not(present_after)), vars=vars_, replay=replay,
                  desc="an attendance pass never drops the subscription of a registered consumer")
    ctx.bound("store of two records of arbitrary type / content; two subscriptions (CAM with optional filter+order, DENM plain) of two different consumers, each registered or not; "
              "interval 0..2^42 ms or none, multiplicity 0..255 or none, last notification time present or not; real-valued non-decreasing clock")
    ctx.stub("hash(request) -> injective integer per request object; callbacks record their argument")


@vc("C14", "U2-attendance-plain")
def attendance_plain(ctx):
    _attendance(ctx, "plain", False, False)


@vc("C14", "U2-attendance-callback-deregisters-a-consumer")
def attendance_reentrant(ctx):
    """the notification callback of the first subscription deregisters the consumer of the second one (a call back into the LDM from
    inside the attendance pass): the second one is not notified by this pass any more"""
    _attendance(ctx, "reentrant", False, False, reentrant=True)
    ctx.bound("re-entrancy: one callback (of the subscription stored first) that may deregister the other consumer; callbacks that subscribe / "
              "unsubscribe / add data from inside the pass are outside the claim")


@vc("C14", "U2-attendance-filter-order")
def attendance_filter(ctx):
    _attendance(ctx, "filter+order", True, True)


@vc("C14", "U2-attendance-two-order-tuples")
def attendance_two_orders(ctx):
    A, D = LC.OrderingDirection.ASCENDING, LC.OrderingDirection.DESCENDING
    _attendance(ctx, "order[stationType asc, gdt desc]", False, [("stationType", A), ("generationDeltaTime", D)], fixed_type="cam")
    if ctx.tier == "thorough":
        _attendance(ctx, "order[stationType desc, gdt desc]", True, [("stationType", D), ("generationDeltaTime", D)], fixed_type="cam")
    ctx.bound("two order tuples: both stored records are CAMs (content symbolic)")


# ---------------------------------------------------------------------------------------------- U1 validation
@vc("C14", "U1-subscription-validation")
def validation(ctx):
    menus = [((2,), "valid"), ((2, 99), "unknown-type")]
    for types, ttag in menus:
        h = Ldm()
        I = h.I
        ids = install_hash(I)
        app = I.int_var("app", 0, 30)
        has_prio, prio = z3.Bool("has_priority"), I.int_var("priority", -5, 300)
        has_nt, nt = z3.Bool("has_notify_time"), I.int_var("notify_ms", -5, 4398046511110)
        has_m, mult = z3.Bool("has_multiplicity"), I.int_var("multiplicity", -5, 300)
        req = Obj(LC.SubscribeDataobjectsReq, dict(application_id=app, data_object_type=types,
                                                   priority=Guarded([(has_prio, prio), (z3.Not(has_prio), None)]), filter=None,
                                                   notify_time=Guarded([(has_nt, Obj(LC.TimestampIts, dict(timestamp_its=nt))), (z3.Not(has_nt), None)]),
                                                   multiplicity=Guarded([(has_m, mult), (z3.Not(has_m), None)]), order=None))

        def cb(resp):
            raise AssertionError
        calls = []
        I.stubs[cb] = lambda it, a, k, pc: calls.append(pc)
        # one subscription already stored (must stay untouched)
        other = Sub(h, "other", h.cons[1], (1,))
        h.subscriptions.items.append((TRUE, other.info))
        resp = I.call_function(InterfaceLDM4.subscribe_data_consumer, [h.if4, req, cb])
        exc = cond_or(c for c, _ in I.raises)
        reg = h.registered("consumer", app, post=False)
        ok_t = z3.BoolVal(all(t in K.DATA_OBJECT_TYPE_ID for t in types))
        ok_p = z3.Or(z3.Not(has_prio), z3.And(prio >= 0, prio <= 255))
        ok_n = z3.Or(z3.Not(has_nt), z3.And(nt >= 0, nt <= 4398046511103))
        ok_m = z3.Or(z3.Not(has_m), z3.And(mult >= 0, mult <= 255))
        want = [(z3.Not(reg), SR.INVALID_ITSA_ID), (z3.Not(ok_t), SR.INVALID_DATA_OBJECT_TYPE), (z3.Not(ok_p), SR.INVALID_PRIORITY),
                (z3.Not(ok_n), SR.INVALID_NOTIFICATION_INTERVAL), (z3.Not(ok_m), SR.INVALID_MULTIPLICITY)]
        res = path_field(resp, "result")
        vars_ = h.vars()
        vars_.update(app=app, has_priority=has_prio, priority=prio, has_notify_time=has_nt, notify_ms=nt, has_multiplicity=has_m, multiplicity=mult)
        vars_.update(other.vars())
        tag = f"subscribe[{ttag}]"

        def replay(vals, types=types):
            db, maint, svc, if3, if4 = h.real(vals)
            pre = LC.SubscriptionInfo(LC.SubscribeDataobjectsReq(vals["consumer2"], (1,)), lambda r: None)
            svc.subscriptions.append(pre)
            rq = LC.SubscribeDataobjectsReq(vals["app"], types, vals["priority"] if vals["has_priority"] else None, None,
                                            LC.TimestampIts(vals["notify_ms"]) if vals["has_notify_time"] else None,
                                            vals["multiplicity"] if vals["has_multiplicity"] else None, None)
            with h.patched_clock(vals):
                r = if4.subscribe_data_consumer(rq, lambda x: None)
            checks = [(vals["app"] not in svc.data_consumer_its_aid, SR.INVALID_ITSA_ID), (not all(t in K.DATA_OBJECT_TYPE_ID for t in types), SR.INVALID_DATA_OBJECT_TYPE),
                      (vals["has_priority"] and not 0 <= vals["priority"] <= 255, SR.INVALID_PRIORITY),
                      (vals["has_notify_time"] and not 0 <= vals["notify_ms"] <= 4398046511103, SR.INVALID_NOTIFICATION_INTERVAL),
                      (vals["has_multiplicity"] and not 0 <= vals["multiplicity"] <= 255, SR.INVALID_MULTIPLICITY)]
            exp = next((code for cnd, code in checks if cnd), SR.SUCCESSFUL)
            stored = [s_ for s_ in svc.subscriptions if s_ is not pre]
            bad = r.result != exp or (len(stored) == 1) != (exp == SR.SUCCESSFUL) or pre not in svc.subscriptions
            return bad, f"{tag}: result {r.result!s}, expected {exp!s}; subscriptions stored for the request: {len(stored)}"
        ctx.witness(f"{tag}-reach", I, z3.And(z3.Not(exc), reg), vars=vars_)
        ctx.prove(f"{tag}-no-exception", I, exc, vars=vars_, replay=replay)
        prior = FALSE
        allok = TRUE
        for cnd, code in want:
            ctx.prove(f"{tag}-{code!s}", I, z3.And(z3.Not(prior), cnd, z3.Not(enum_is(I, res, code))), vars=vars_, replay=replay,
                      desc=f"request failing the '{code!s}' check (and none of the earlier ones) is refused with that result code")
            prior = z3.Or(prior, cnd)
            allok = z3.And(allok, z3.Not(cnd))
        succ = enum_is(I, res, SR.SUCCESSFUL)
        ctx.prove(f"{tag}-successful-iff-all-checks-pass", I, succ != allok, vars=vars_, replay=replay)
        stored_new = z3.Or(*[z3.And(I._lb(c), z3.BoolVal(isinstance(x, Obj) and x.fields.get("subscription_request") is req)) for c, x in h.subscriptions.items]) \
            if h.subscriptions.items else FALSE
        ctx.prove(f"{tag}-stored-iff-successful", I, stored_new != allok, vars=vars_, replay=replay,
                  desc="a subscription is stored exactly when the request is accepted; a refused request has no effect")
        ctx.prove(f"{tag}-existing-subscription-untouched", I, z3.Not(I._lb(I.contains(h.subscriptions, other.info))), vars=vars_, replay=replay)
        if ids:
            hv = ids[-1][1]
            ctx.prove(f"{tag}-returns-subscription-id", I, z3.And(allok, z3.Not(num_eq(I, path_field(resp, "subscription_id"), hv))), vars=vars_, replay=replay)
        q, c = h.registry_changed("consumer")
        v2 = dict(vars_)
        v2["changed_id"] = q
        ctx.prove(f"{tag}-registry-untouched", I, z3.And(q >= 0, q <= 30, c), vars=v2, replay=replay)
    ctx.bound("application id 0..30 registered or not; priority / interval / multiplicity present or absent with values inside and outside their valid ranges; types valid and with an unknown id")


# ---------------------------------------------------------------------------------------------- U3 unsubscribe
@vc("C14", "U3-unsubscribe")
def unsubscribe(ctx):
    h = Ldm()
    I = h.I
    ids = install_hash(I)
    I.assumptions.append(h.cons[0] != h.cons[1])
    a = Sub(h, "subA", h.cons[0], (2,))
    b = Sub(h, "subB", h.cons[1], (1,))
    a2 = Sub(h, "subA2", h.cons[0], (2,))                    # same request content as subA, other callback (LDMFactory subscribes twice)
    a2.req = a.req
    a2.info = Obj(LC.SubscriptionInfo, dict(subscription_request=a.req, callback=a2.cb))
    has_a2 = z3.Bool("second_callback_on_same_request")
    h.subscriptions.items.extend([(TRUE, a.info), (has_a2, a2.info), (TRUE, b.info)])
    for s in (a, a2, b):
        h.last_checked.log.append((s.has_last if s is not a2 else z3.And(has_a2, s.has_last), s.info, Obj(LC.TimestampIts, dict(timestamp_its=s.last)), False))
    app = I.int_var("app", 0, 30)
    sid = I.int_var("subscription_id", -2 ** 61, 2 ** 61)
    # hash values of the two stored requests
    ha = I.call_function(lambda x: hash(x), [a.req]) if False else None
    ha = I.stubs[hash](I, [a.req], {}, TRUE)
    hb = I.stubs[hash](I, [b.req], {}, TRUE)
    resp = I.call_function(InterfaceLDM4.unsubscribe_data_consumer, [h.if4, Obj(LC.UnsubscribeDataConsumerReq, dict(application_id=app, subscription_id=sid))])
    exc = cond_or(c for c, _ in I.raises)
    reg = h.registered("consumer", app, post=False)
    vars_ = h.vars()
    vars_.update(app=app, subscription_id=sid, hash_subA=ha, hash_subB=hb, second_callback_on_same_request=has_a2)
    for s in (a, a2, b):
        vars_.update(s.vars())
    ack = path_field(resp, "result") if "result" in getattr(resp, "fields", {"result": 0}) else path_field(resp, "ack")
    inA, inA2, inB = [I._lb(I.contains(h.subscriptions, s.info)) for s in (a, a2, b)]

    def replay(vals):
        db, maint, svc, if3, if4 = h.real(vals)
        ra = LC.SubscribeDataobjectsReq(vals["consumer1"], (2,))
        rb = LC.SubscribeDataobjectsReq(vals["consumer2"], (1,))
        ia, ia2, ib = LC.SubscriptionInfo(ra, lambda r: None), LC.SubscriptionInfo(ra, lambda r: None), LC.SubscriptionInfo(rb, lambda r: None)
        svc.subscriptions.append(ia)
        if vals["second_callback_on_same_request"]:
            svc.subscriptions.append(ia2)
        svc.subscriptions.append(ib)
        for i_ in svc.subscriptions:
            svc.last_checked_subscriptions_time[i_] = LC.TimestampIts(5)
        which = vals["subscription_id"]
        target = hash(ra) if which == vals["hash_subA"] else hash(rb) if which == vals["hash_subB"] else 123456789
        r = if4.unsubscribe_data_consumer(LC.UnsubscribeDataConsumerReq(vals["app"], target))
        isreg = vals["app"] in svc.data_consumer_its_aid
        hitA, hitB = isreg and target == hash(ra), isreg and target == hash(rb)
        bad = []
        if (ia in svc.subscriptions) == hitA or (vals["second_callback_on_same_request"] and (ia2 in svc.subscriptions) == hitA):
            bad.append(f"subscriptions of request A still stored: {[x in svc.subscriptions for x in (ia, ia2)]} after unsubscribe hit={hitA}")
        if (ib in svc.subscriptions) == hitB:
            bad.append(f"subscription B stored={ib in svc.subscriptions} after unsubscribe hit={hitB}")
        if (int(r.result) == 0) != (hitA or hitB):
            bad.append(f"ack {int(r.result)} for hit={hitA or hitB}")
        left = [x for x in (ia, ia2, ib) if x in svc.last_checked_subscriptions_time and x not in svc.subscriptions]
        if left:
            bad.append("last-notification entries of removed subscriptions remain")
        return bool(bad), "unsubscribe: " + ("; ".join(bad) or "as the subscription model")
    ctx.prove("unsubscribe-no-exception", I, exc, vars=vars_, replay=replay)
    hitA, hitB = z3.And(reg, sid == ha), z3.And(reg, sid == hb)
    good = z3.Not(z3.Or(z3.And(hitA, z3.Or(inA, z3.And(has_a2, inA2))), z3.And(hitB, inB),
                        z3.And(z3.Not(hitA), z3.Or(z3.Not(inA), z3.And(has_a2, z3.Not(inA2)))), z3.And(z3.Not(hitB), z3.Not(inB))))
    ctx.witness("unsubscribe-reach-removed", I, z3.And(z3.Not(exc), reg, sid == ha, has_a2), vars=vars_, validate=lambda v: not replay(v)[0], good=good)
    ctx.prove("unsubscribe-removes-every-subscription-with-that-id", I, z3.Or(z3.And(hitA, z3.Or(inA, z3.And(has_a2, inA2))), z3.And(hitB, inB)), vars=vars_, replay=replay,
              desc="after an acknowledged unsubscription no subscription with that identifier remains (also when two callbacks share one request)")
    ctx.prove("unsubscribe-leaves-other-subscriptions", I, z3.Or(z3.And(z3.Not(hitA), z3.Or(z3.Not(inA), z3.And(has_a2, z3.Not(inA2)))), z3.And(z3.Not(hitB), z3.Not(inB))),
              vars=vars_, replay=replay, desc="subscriptions with another identifier, or any subscription when the requester is not registered, stay")
    ctx.prove("unsubscribe-ack", I, enum_is(I, ack, LC.UnsubscribeDataConsumerAck(0)) != z3.Or(hitA, hitB), vars=vars_, replay=replay)
    stale = []
    for s, present in ((a, inA), (a2, z3.And(has_a2, inA2)), (b, inB)):
        f, _ = I.sdict_lookup(h.last_checked, s.info)
        stale.append(z3.And(I._lb(f), z3.Not(present)))
    ctx.prove("unsubscribe-drops-last-notification-entry", I, z3.Or(*stale), vars=vars_, replay=replay)
    q, c = h.registry_changed("consumer")
    v2 = dict(vars_)
    v2["changed_id"] = q
    ctx.prove("unsubscribe-registry-untouched", I, z3.And(q >= 0, q <= 30, c), vars=v2, replay=replay)
    ctx.bound("three stored subscriptions (two callbacks on one request + one of another consumer); requester registered or not; identifier arbitrary (either stored id or none)")


# ---------------------------------------------------------------------------------------------- U4 reactive trigger
@vc("C14", "U4-reactive-trigger")
def reactive(ctx):
    import time as _time
    h = Ldm(reactive=True)
    I = h.I
    mono = []

    def monotonic(it, a, k, pc):
        t = it.float_var(f"monotonic{len(mono)}", 0, 10 ** 6)
        if mono:
            it.assumptions.append(t >= mono[-1])
        mono.append(t)
        return t
    I.stubs[_time.monotonic] = monotonic
    last = I.float_var("last_attendance", 0, 10 ** 6)
    h.service.fields["last_subscription_time"] = last
    attended = []
    I.stubs[LDMService.attend_subscriptions] = lambda it, a, k, pc: attended.append(pc)
    from flexstack.facilities.local_dynamic_map.ldm_maintenance import LDMMaintenance
    from flexstack.facilities.local_dynamic_map.ldm_maintenance_reactive import LDMMaintenanceReactive
    I.stubs[LDMMaintenance.add_provider_data] = lambda it, a, k, pc: it.int_var("new_index", 0, 10 ** 6)
    I.stubs[LDMMaintenanceReactive.add_provider_data] = lambda it, a, k, pc: it.int_var("new_index", 0, 10 ** 6)
    idx = I.call_function(LDMServiceReactive.add_provider_data, [h.service, Opaque("request")])
    I.assumptions.append(last <= mono[0])
    exc = cond_or(c for c, _ in I.raises)
    did = cond_or(attended)
    vars_ = {"last_attendance": last, "new_index": z3.Int("new_index")}
    vars_.update({t.decl().name(): t for t in mono})
    half = z3.RealVal("1/2")

    def replay(vals):
        from unittest import mock
        db, maint, svc, if3, if4 = Ldm.real(h, {**{f"stored{i}": False for i in (1, 2)}, **{f"{w}{i}_registered": False for w in ("provider", "consumer") for i in (1, 2)},
                                                "next_id": 0}, reactive=True)
        svc.last_subscription_time = vals["last_attendance"]
        n = []
        svc.attend_subscriptions = lambda: n.append(1)
        new_index = int(vals.get("new_index", 7))          # the identifier the store hands out (0 for the first object)
        maint.add_provider_data = lambda d: new_index
        ts = [vals[t.decl().name()] for t in mono]
        with mock.patch("time.monotonic", lambda: ts.pop(0) if len(ts) > 1 else ts[0]):
            r = svc.add_provider_data(mock.Mock())
        want = vals[mono[0].decl().name()] - vals["last_attendance"] >= 0.5
        bad = bool(n) != want or r != new_index or (want and svc.last_subscription_time < vals[mono[0].decl().name()])
        return bad, f"reactive add {vals[mono[0].decl().name()] - vals['last_attendance']} s after the last attendance: attended={bool(n)}, returned {r}"
    ctx.witness("reactive-reach-attended", I, z3.And(z3.Not(exc), did), vars=vars_, validate=lambda v: not replay(v)[0], good=(did == (mono[0] - last >= half)))
    ctx.prove("reactive-no-exception", I, exc, vars=vars_, replay=replay)
    ctx.prove("reactive-attends-iff-half-second-elapsed", I, did != (mono[0] - last >= half), vars=vars_, replay=replay,
              desc="an add attends the subscriptions iff at least 0.5 s (monotonic clock) passed since the previous attendance")
    lst = h.service.fields["last_subscription_time"]
    ctx.prove("reactive-remembers-attendance-time", I, z3.Or(z3.And(did, I.to_float(lst) < mono[0]), z3.And(z3.Not(did), I.to_float(lst) != last)), vars=vars_, replay=replay)
    ctx.prove("reactive-returns-the-new-index", I, z3.Not(num_eq(I, idx, z3.Int("new_index"))), vars=vars_, replay=replay)
    ctx.bound("arbitrary monotonic clock readings and previous attendance time")
    ctx.stub("time.monotonic non-decreasing reals; attend_subscriptions recorded (its VC is U2); maintenance add returns an arbitrary index")
