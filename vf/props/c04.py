"""C04 - no received frame can stop or derail the receive path."""
import ast
import os
import z3
from ..calls import make
from ..values import Obj, EnumSym, SBytes, Guarded, Opaque, UNDEF
from ..interp import TRUE, FALSE, Closure, function_ast
from ..runner import vc
from .. import symgn as G
from ..gnharness import Harness, all_vars, build_real, eval_term, real_router, LOCAL_MID

import flexstack.linklayer.raw_link_layer as RLL
from flexstack.geonet.router import Router
from flexstack.geonet.exceptions import DecodeError, DecapError, DuplicatedPacketException
import flexstack

RAW_CLS = RLL.RawLinkLayer.__closure__[0].cell_contents if getattr(RLL.RawLinkLayer, "__closure__", None) else RLL.RawLinkLayer
CV2X_PATH = os.path.join(os.path.dirname(flexstack.__file__), "linklayer", "cv2x_link_layer.py")
OWN_MAC = b"\x02\x00\x00\x00\x00\x01"


def cv2x_loop_ast():
    with open(CV2X_PATH) as f:
        tree = ast.parse(f.read())
    for n in ast.walk(tree):
        if isinstance(n, ast.FunctionDef) and n.name == "callback_handler_loop":
            return n
    raise RuntimeError("callback_handler_loop not found")


def caught_classes(fn_node, glb):
    """exception classes caught around the receive_callback call inside a loop function (read from its AST)"""
    out = []

    def visit(node, handlers):
        if isinstance(node, ast.Try):
            hs = []
            for h in node.handlers:
                if h.type is None:
                    hs.append(BaseException)
                else:
                    for t in (h.type.elts if isinstance(h.type, ast.Tuple) else [h.type]):
                        hs.append(eval(compile(ast.Expression(t), "<h>", "eval"), dict(glb), {}))
            for ch in node.body:
                visit(ch, handlers + hs)
            for ch in node.handlers + node.orelse + node.finalbody:
                visit(ch, handlers)
            return
        if isinstance(node, ast.Call) and isinstance(node.func, ast.Attribute) and node.func.attr == "receive_callback":
            out.append(tuple(handlers))
        for ch in ast.iter_child_nodes(node):
            visit(ch, handlers)
    visit(fn_node, [])
    return out


def loops():
    raw_node = function_ast(RAW_CLS.receive)
    res = [("RawLinkLayer.receive", caught_classes(raw_node, RAW_CLS.receive.__globals__))]
    cv = cv2x_loop_ast()
    res.append(("PythonCV2XLinkLayer.callback_handler_loop", caught_classes(cv, {"__builtins__": __builtins__})))
    return res


def caught_everywhere(k):
    """class k is caught at every call site of receive_callback of both loops"""
    for name, sites in loops():
        for hs in sites:
            # only the handlers that keep the loop running count: a handler that breaks out (OSError) does not
            keep = tuple(h for h in hs if h is not OSError)
            if not any(issubclass(k, h) for h in keep):
                return False
    return True


QUICK_LENGTHS = [0, 4, 12, 36, 40, 48, 56, 60]


def _real_loop_survives(frames, router, mac=OWN_MAC):
    """drive the real RawLinkLayer.receive with a scripted socket; returns (alive, log)"""
    ll = RAW_CLS.__new__(RAW_CLS)
    calls = []

    class Sock:
        def __init__(self):
            self.q = list(frames)

        def recv(self, n):
            if not self.q:
                raise OSError("script end")
            return self.q.pop(0)

        def close(self):
            pass
    ll.sock = Sock()
    ll.mac_address = mac

    def cb(pkt):
        calls.append(pkt)
        router.gn_data_indicate(pkt)
    ll.receive_callback = cb
    try:
        ll.receive()
    except BaseException as e:
        return False, calls, f"{type(e).__name__}: {e}"
    return True, calls, None


def _eth(payload, src=b"\x02\x00\x00\x00\x00\x99", dst=b"\xff" * 6):
    return dst + src + b"\x89\x47" + payload


def _valid_shb():
    """a well-formed SHB frame from another station, produced by the real stack"""
    from flexstack.geonet.mib import MIB
    from flexstack.geonet.gn_address import GNAddress, M, ST, MID
    from flexstack.geonet.service_access_point import GNDataRequest, CommonNH
    r, ll, _ = real_router(MIB(itsGnLocalGnAddr=GNAddress(m=M.GN_UNICAST, st=ST.CYCLIST, mid=MID(b"\x01\x02\x03\x04\x05\x06"))))
    r.gn_data_request_shb(GNDataRequest(upper_protocol_entity=CommonNH.BTP_B, data=b"\x07\xd1\x00\x00hello", length=9))
    return ll.sent[0]


def _escape_vc(ctx, L):
    h = Harness(8 * 24 + 128 + 64, geom="real", greedy="free", area_size="real", ego="sym")
    I = h.I
    h.add_entry("e1")
    # the upper layer (BTP router + facility) may fail in any way on the payload
    upper_fail = z3.Bool("upper_layer_raises")

    def ind(it, name, a, k, pc):
        h.indications.append((pc, a[0]))
        it.raises.append((z3.And(pc, upper_fail), Exception))
        return None
    I.stubs[id(h.cb)] = ind
    pkt = G.sym_bytes("f", L)
    h.call(Router.gn_data_indicate, pkt)
    classes = {}
    for c, k in I.raises:
        classes.setdefault(k, []).append(c)
    uncaught = {k: cs for k, cs in classes.items() if not caught_everywhere(k)}
    vars_ = all_vars(h)
    vars_["frame"] = pkt
    ctx.bound(f"frame lengths {QUICK_LENGTHS if ctx.tier == 'quick' else 'every length 0..100 and 160, 400'}: all octets symbolic, "
              "ego position symbolic, one arbitrary location-table entry, security disabled")
    ctx.stub("location table replaced by a symbolic table whose new_*_packet may raise DuplicatedPacketException; "
             "gn_greedy_forwarding returns an arbitrary bool; trigonometry uninterpreted (unit circle); upper-layer "
             "indication callback may raise any Exception; LinkLayer.send records")

    def replay(vals):
        def boom(ind):
            raise RuntimeError("facility failed on payload")
        good = _valid_shb()
        out = []
        for dst in (b"\xff" * 6, OWN_MAC):          # broadcast and own-unicast delivery of the bad frame
            R, ll, got, patches = build_real(h, vals)
            if vals.get("upper_layer_raises"):
                R.indication_callback = boom
            with patches:
                alive, calls, err = _real_loop_survives([_eth(vals["frame"], dst=dst), _eth(good)], R)
            delivered = len(calls) == 2
            out.append(((not alive) or (not delivered), f"frame {vals['frame'].hex()} to {dst.hex()} -> receive loop {'survived' if alive else 'died with ' + str(err)}; following valid frame {'processed' if delivered else 'NOT processed'}"))
        bad = [o for o in out if o[0]]
        return (True, bad[0][1]) if bad else (False, out[0][1])
    first_exc = I.raises[0][0] if I.raises else FALSE      # the earliest raise site (cheapest reachability twin)
    ctx.witness(f"L{L}-some-exception-reaches-the-loop", I, first_exc, vars={"frame": pkt})
    bad = z3.Or(*[c for cs in uncaught.values() for c in cs]) if uncaught else FALSE
    ctx.prove(f"L{L}-escaping-exceptions-are-caught-by-the-receive-loops", I, bad, vars=vars_, replay=replay,
              desc=f"every exception class that can leave Router.gn_data_indicate on a {L}-octet frame "
                   f"({sorted(k.__name__ for k in classes)}) is caught at the loops' call sites ({loops()})")


def _trace_vc(ctx, L, own_table_only=False):
    """a frame that ends in an exception has left no trace in the location table (so the intact copy that follows is not taken for a duplicate);
    own_table_only: only the obligation that a frame carrying the station's own address as source enters nothing into the location table (C08)"""
    h = Harness(8 * 24 + 128 + 64, geom="free", greedy="free", area_size="free", ego="sym")
    I = h.I
    h.add_entry("e1")
    # contract of the geometric function for this VC: an arbitrary real, and ZeroDivisionError for an area with a zero distance (its value is C07's subject;
    # exact real arithmetic here would only make the query nonlinear)
    free_f = I.stubs[Router.gn_geometric_function_f]

    def f_stub(it, a, k, pc):
        area = a[2] if len(a) > 4 else a[1]
        zero = z3.Or(it._lb(it.equal(area.fields["a"], 0)), it._lb(it.equal(area.fields["b"], 0))) if isinstance(area, Obj) else FALSE
        it.raises.append((z3.And(pc, zero), ZeroDivisionError))
        return free_f(it, a, k, z3.And(pc, z3.Not(zero)))
    I.stubs[Router.gn_geometric_function_f] = f_stub
    pkt = G.sym_bytes("f", L)
    h.call(Router.gn_data_indicate, pkt)
    touched = [(pc, name) for pc, name, a in h.table_calls if name.startswith("new_")]
    raised = [(c, k) for c, k in I.raises]
    vars_ = all_vars(h)
    vars_["frame"] = pkt

    def replay(vals):
        import copy
        R, ll, got, patches = build_real(h, vals, scripted_table=False)

        def snap():
            return {repr(a): (e.position_vector, e.is_neighbour, tuple(getattr(e, "duplicate_packet_list", ()) or ())) for a, e in R.location_table.loc_t.items()}
        before = snap()
        err = None
        # a clock at which the packet's source timestamp (octets 24..27: ms modulo 2^32 of ITS time) is fresh, so that the entry it creates is not purged at once
        from unittest import mock
        from flexstack.utils.time_service import TimeService, ITS_EPOCH, ELAPSED_SECONDS
        tst = int.from_bytes(vals["frame"][24:28], "big") if len(vals["frame"]) >= 28 else 0
        now_s = ITS_EPOCH - ELAPSED_SECONDS + (tst + 200 + 4 * 2 ** 32) / 1000.0
        with patches, mock.patch.object(TimeService, "time", staticmethod(lambda: now_s)):
            try:
                R.gn_data_indicate(vals["frame"])
            except Exception as e:          # noqa
                err = e
        after = snap()
        return err is not None and after != before, f"frame {vals['frame'].hex()} raised {err!r}; location table entries {len(before)} -> {len(after)}, changed={after != before}"
    ctx.witness(f"L{L}-trace-reach-table-update", I, z3.Or(*[pc for pc, _ in touched]) if touched else FALSE, vars={"frame": pkt})
    any_touch = z3.Or(*[pc for pc, name in touched]) if touched else FALSE
    # frames sent by the station itself (own GN address as source: an echo re-broadcast by a neighbour) are ignored without trace
    ht, hst = z3.LShR(pkt.bs[5], 4), pkt.bs[5] & 0x0F
    single_hop = z3.Or(ht == 1, z3.And(ht == 5, hst == 0))
    mid_at = lambda off: z3.And(*[pkt.bs[off + i] == LOCAL_MID[i] for i in range(6)]) if L >= off + 6 else FALSE
    own = z3.And(pkt.bs[0] == 0x11, z3.If(single_hop, mid_at(14), mid_at(18)))

    def replay_own(vals):
        from unittest import mock
        from flexstack.utils.time_service import TimeService, ITS_EPOCH, ELAPSED_SECONDS
        f = vals["frame"]
        outs = []
        for base in (int.from_bytes(f[20:24], "big") if len(f) >= 24 else 0, int.from_bytes(f[24:28], "big") if len(f) >= 28 else 0):
            R, ll, got, patches = build_real(h, vals, scripted_table=False)
            before = sorted(repr(a) for a in R.location_table.loc_t)
            now_s = ITS_EPOCH - ELAPSED_SECONDS + (base + 200 + 4 * 2 ** 32) / 1000.0
            with patches, mock.patch.object(TimeService, "time", staticmethod(lambda: now_s)):
                try:
                    R.gn_data_indicate(f)
                except Exception as e:          # noqa
                    pass
            outs.append((sorted(repr(a) for a in R.location_table.loc_t) != before, bool(got), bool(ll.sent)))
        return any(any(o) for o in outs), f"frame {f.hex()} carrying the station's own address as source: location table changed={any(o[0] for o in outs)}, delivered={any(o[1] for o in outs)}, sent={any(o[2] for o in outs)}"
    if own_table_only:
        ctx.witness(f"L{L}-reach-table-update", I, any_touch, vars={"frame": pkt})
        ctx.witness(f"L{L}-reach-own-address-frame", I, z3.And(own, pkt.bs[5] == 0x60), vars={"frame": pkt})

        def replay_tbl(vals):
            bad, msg = replay_own(vals)
            return bad and "location table changed=True" in msg, msg
        ctx.prove(f"L{L}-own-address-is-never-entered", I, z3.And(own, any_touch), vars=vars_, replay=replay_tbl,
                  desc="whatever the header type (beacon, SHB, TSB, GBC, GAC, GUC, LS request, LS reply), a frame whose source GN address is the station's own "
                       "reaches no location-table update: duplicate address detection runs before the table is touched")
        ctx.bound(f"{L}-octet frames through Router.gn_data_indicate, all octets symbolic (every header type and sub-type; shorter headers carry the rest as payload)")
        return
    ctx.prove(f"L{L}-own-frames-are-ignored-without-trace", I, z3.And(own, z3.Or(any_touch, h.any_indication(), h.any_send())), vars=vars_, replay=replay_own,
              desc="a frame whose source GN address is the station's own updates no location-table entry, is not delivered and triggers no transmission")
    # a frame whose remaining hop limit exceeds its maximum hop limit (basic header octet 3 > common header octet 10) is malformed whatever its type
    rhl_over = z3.And(pkt.bs[0] == 0x11, z3.UGT(pkt.bs[3], pkt.bs[10])) if L > 10 else FALSE

    def replay_rhl(vals):
        bad, msg = replay_own(vals)
        return bad, msg.replace("carrying the station's own address as source", f"with RHL {vals['frame'][3]} above MHL {vals['frame'][10]}")
    ctx.prove(f"L{L}-hop-limit-above-maximum-leaves-no-trace", I, z3.And(rhl_over, z3.Or(any_touch, h.any_indication(), h.any_send())), vars=vars_, replay=replay_rhl,
              desc="a frame of any header type with RHL > MHL updates no location-table entry, is not delivered and triggers no transmission")
    by_class = {}
    for c, k in raised:
        by_class.setdefault(k, []).append(c)
    for k, cs in sorted(by_class.items(), key=lambda kv: kv[0].__name__):
        # one query per exception class: the conditions of one class share their arithmetic (e.g. a zero-sized area for ZeroDivisionError)
        ctx.prove(f"L{L}-a-frame-that-raises-{k.__name__}-leaves-the-location-table-untouched", I, z3.And(any_touch, z3.Or(*cs)), vars=vars_, replay=replay,
                  desc="no exception leaves gn_data_indicate on a path that has already updated the location table / duplicate packet list: a discarded frame cannot "
                       "make the intact copy that follows look like a duplicate")
    ctx.bound(f"{L}-octet frames, all octets symbolic; the upper layer does not fail here (its failure after a valid GN packet was processed is R2's subject)")


def _truncated_vc(ctx, L):
    """a frame too short for the extended header its header type announces is discarded: no location-table update, nothing delivered, nothing sent"""
    h = Harness(8 * 24 + 128 + 64, geom="free", greedy="free", area_size="free", ego="sym")
    I = h.I
    h.add_entry("e1")
    pkt = G.sym_bytes("f", L)
    h.call(Router.gn_data_indicate, pkt)
    ht = z3.LShR(pkt.bs[5], 4)
    hst = pkt.bs[5] & 0x0F
    # octets after the 12 of basic + common header (EN 302 636-4-1 clause 9.8): beacon 24, SHB 28, TSB 28, GUC 48, GAC/GBC 44, LS request 36, LS reply 48
    need = z3.If(ht == 1, 36, z3.If(ht == 2, 60, z3.If(z3.Or(ht == 3, ht == 4), 56, z3.If(ht == 5, 40, z3.If(z3.And(ht == 6, hst == 0), 48, z3.If(ht == 6, 60, 0))))))
    short = z3.And(pkt.bs[0] == 0x11, L < need)
    touched = z3.Or(*[pc for pc, name, a in h.table_calls if name.startswith("new_")]) if [1 for pc, name, a in h.table_calls if name.startswith("new_")] else FALSE
    vars_ = all_vars(h)
    vars_["frame"] = pkt

    def replay(vals):
        from unittest import mock
        from flexstack.utils.time_service import TimeService, ITS_EPOCH, ELAPSED_SECONDS
        R, ll, got, patches = build_real(h, vals, scripted_table=False)
        before = sorted(repr(a) for a in R.location_table.loc_t)
        f = vals["frame"]
        tst = int.from_bytes(f[20:24], "big") if len(f) >= 24 else 0          # beacon / SHB source timestamp (for GBC etc. octets 24..27; either way 'fresh' below)
        err = None
        outs = []
        for base in (int.from_bytes(f[20:24], "big") if len(f) >= 24 else 0, int.from_bytes(f[24:28], "big") if len(f) >= 28 else 0):
            R, ll, got, patches = build_real(h, vals, scripted_table=False)
            before = sorted(repr(a) for a in R.location_table.loc_t)
            now_s = ITS_EPOCH - ELAPSED_SECONDS + (base + 200 + 4 * 2 ** 32) / 1000.0
            with patches, mock.patch.object(TimeService, "time", staticmethod(lambda: now_s)):
                try:
                    R.gn_data_indicate(f)
                except Exception as e:          # noqa
                    err = e
            after = sorted(repr(a) for a in R.location_table.loc_t)
            outs.append((after != before, bool(got), bool(ll.sent), err))
        bad = any(o[0] or o[1] or o[2] for o in outs)
        return bad, f"truncated frame {f.hex()} ({len(f)} octets, header type {f[5] >> 4}): location table changed={any(o[0] for o in outs)}, delivered={any(o[1] for o in outs)}, sent={any(o[2] for o in outs)} (error {outs[-1][3]!r})"
    ctx.witness(f"L{L}-truncated-reach", I, short, vars={"frame": pkt})
    ctx.prove(f"L{L}-truncated-frame-is-discarded-without-trace", I, z3.And(short, z3.Or(touched, h.any_indication(), h.any_send())), vars=vars_, replay=replay,
              desc="a frame shorter than basic + common + the extended header of its type updates no location-table entry, is not delivered and triggers no transmission")
    ctx.bound(f"{L}-octet frames, all octets symbolic except the version nibble; required lengths typed from clause 9.8")


TRUNC_LENGTHS = (32, 35, 39, 47, 55, 59)


def _mk_trunc(L):
    @vc("C04", f"R4-truncated-L{L:03d}", tiers=("quick", "thorough") if L in (35, 55) else ("thorough",))
    def f(ctx):
        _truncated_vc(ctx, L)
    return f


for _L in TRUNC_LENGTHS:
    _mk_trunc(_L)


TRACE_LENGTHS = (40, 48, 56, 58, 60, 62, 68)


def _mk_trace(L):
    @vc("C04", f"R3-no-trace-L{L:03d}", tiers=("quick", "thorough") if L in (48, 58, 68) else ("thorough",))
    def f(ctx):
        _trace_vc(ctx, L)
    return f


for _L in TRACE_LENGTHS:
    _mk_trace(_L)


def _mk_escape(L):
    @vc("C04", f"R1-escape-L{L:03d}", tiers=("quick", "thorough") if L in QUICK_LENGTHS else ("thorough",))
    def f(ctx):
        _escape_vc(ctx, L)
    return f


for _L in sorted(set(QUICK_LENGTHS) | set(range(0, 101)) | {160, 400}):
    _mk_escape(_L)


# ------------------------------------------------------------------------------------------------ loop liveness
EXC_MENU = [NotImplementedError, ValueError, DecodeError, DecapError, KeyError, IndexError, ZeroDivisionError,
            AssertionError, TypeError, AttributeError, OverflowError, RuntimeError, Exception]


class ScriptedSource:
    """socket / queue stub: returns the scripted frames, then fails (OSError) / yields None"""

    def __init__(self, frames, end):
        self.frames, self.end, self.n = frames, end, 0

    def __call__(self, it, name, a, k, pc):
        if name in ("recv", "get"):
            i = self.n
            self.n += 1
            if i < len(self.frames):
                return self.frames[i]
            if self.end == "oserror":
                it.raises.append((pc, OSError))
                return UNDEF
            return None
        return None


def _loop_vc(ctx, which, n1=20):
    I = make("bv", 128, unroll=4)
    n2 = 24
    f1, f2 = G.sym_bytes("a", n1), G.sym_bytes("b", n2)
    calls = []
    fail = [z3.Bool(f"cb_raises_{k.__name__}") for k in EXC_MENU]

    def cb(it, name, a, k, pc):
        idx = len(calls)
        calls.append((pc, a[0]))
        if idx == 0:          # the first (bad) frame makes the callback fail in an arbitrary way
            for fl, kcls in zip(fail, EXC_MENU):
                it.raises.append((z3.And(pc, fl), kcls))
        return None
    cbobj = lambda pkt: None
    I.stubs[id(cbobj)] = cb
    if which == "raw":
        src = ScriptedSource([f1, f2], "oserror")
        sockobj = object.__new__(type("Sock", (), {}))
        I.stubs[id(sockobj)] = src
        mac = G.sym_bytes("mac", 6)
        slf = Obj(RAW_CLS, dict(sock=sockobj, mac_address=mac, receive_callback=cbobj))
        I.call_function(RAW_CLS.receive, [slf])
        ok2 = z3.Or(I._lb(I.equal(SBytes(f2.bs[0:6]), mac)),
                    z3.And(I._lb(I.equal(SBytes(f2.bs[0:6]), b"\xff" * 6)), z3.Not(I._lb(I.equal(SBytes(f2.bs[6:12]), mac)))))
        ok1 = z3.Or(I._lb(I.equal(SBytes(f1.bs[0:6]), mac)),
                    z3.And(I._lb(I.equal(SBytes(f1.bs[0:6]), b"\xff" * 6)), z3.Not(I._lb(I.equal(SBytes(f1.bs[6:12]), mac)))))
        payload = lambda f: SBytes(f.bs[14:])
        name = "RawLinkLayer.receive"
    else:
        src = ScriptedSource([f1, f2], "none")
        qobj = object.__new__(type("Q", (), {}))
        I.stubs[id(qobj)] = src
        node = cv2x_loop_ast()
        slf = Obj(type("PythonCV2XLinkLayer", (), {}), dict(receive_callback=cbobj))
        I.calls.add("flexstack.linklayer.cv2x_link_layer.PythonCV2XLinkLayer.callback_handler_loop")
        I.call_closure(Closure(node, {}, {"print": print, "str": str}), [slf, qobj], {}, TRUE)
        ok1 = ok2 = TRUE
        payload = lambda f: f
        name = "PythonCV2XLinkLayer.callback_handler_loop"
    ctx.bound(f"{name}: script = [arbitrary frame on which the callback raises any of {[k.__name__ for k in EXC_MENU]}, "
              f"arbitrary second frame, end of input]; frames of {n1} and {n2} symbolic octets; symbolic own MAC; loop unrolled 4x with unwinding assertion")
    # delivered(2): some callback invocation carries frame 2's payload
    second = [c for c, p in calls[1:]] if len(calls) > 1 else []
    # if frame 1 was filtered the first call IS frame 2
    deliv2 = []
    for i, (c, p) in enumerate(calls):
        if isinstance(p, SBytes) and len(p.bs) == len(payload(f2).bs):
            deliv2.append(z3.And(c, I._lb(I.equal(p, payload(f2)))))
    delivered2 = z3.Or(*deliv2) if deliv2 else FALSE
    escaped = z3.Or(*[c for c, k in I.raises if k is not OSError]) if [1 for c, k in I.raises if k is not OSError] else FALSE
    vars_ = {"a": f1, "b": f2}
    vars_.update({f.decl().name(): f for f in fail})
    if which == "raw":
        vars_["mac"] = mac

    def replay(vals):
        if which != "raw":
            return _replay_cv2x(vals)
        picked = [k for fl, k in zip(fail, EXC_MENU) if vals.get(fl.decl().name())]
        ll = RAW_CLS.__new__(RAW_CLS)
        seen = []

        class Sock:
            q = [vals["a"], vals["b"]]

            def recv(self, n):
                if not self.q:
                    raise OSError()
                return self.q.pop(0)
        ll.sock = Sock()
        ll.mac_address = vals["mac"]

        def cbr(p):
            seen.append(p)
            if len(seen) == 1 and picked:
                raise picked[0]("bad frame")
        ll.receive_callback = cbr
        try:
            ll.receive()
            err = None
        except BaseException as e:
            err = e
        m = vals["mac"]
        b = vals["b"]
        want = b[0:6] == m or (b[0:6] == b"\xff" * 6 and b[6:12] != m)
        got = b[14:] in seen
        return (err is not None) or (want and not got), f"callback raised {[k.__name__ for k in picked]} on frame 1; loop error={err!r}; frame 2 accepted by filter={want}, delivered={got}"

    def _replay_cv2x(vals):
        # the module cannot be imported (vendor .so missing): execute the function source as it stands
        picked = [k for fl, k in zip(fail, EXC_MENU) if vals.get(fl.decl().name())]
        src_fn = ast.Module(body=[cv2x_loop_ast()], type_ignores=[])
        import multiprocessing
        ns = {"multiprocessing": multiprocessing}
        exec(compile(src_fn, CV2X_PATH, "exec"), ns)
        seen = []

        class Q:
            q = [vals["a"], vals["b"], None]

            def get(self):
                return self.q.pop(0)

        class S:
            pass
        s = S()

        def cbr(p):
            seen.append(p)
            if len(seen) == 1 and picked:
                raise picked[0]("bad frame")
        s.receive_callback = cbr
        try:
            ns["callback_handler_loop"](s, Q())
            err = None
        except BaseException as e:
            err = e
        return (err is not None) or vals["b"] not in seen, f"callback raised {[k.__name__ for k in picked]}; loop error={err!r}; second frame delivered={vals['b'] in seen}"
    ctx.witness(f"{which}-both-frames-delivered", I, z3.And(ok1, ok2, delivered2, z3.Not(z3.Or(*fail))), vars=vars_)
    ctx.witness(f"{which}-callback-can-fail", I, z3.And(ok1, z3.Or(*fail)), vars=vars_)
    ctx.prove(f"{which}-R2-no-exception-leaves-the-loop", I, escaped, vars=vars_, replay=replay,
              desc="whatever Exception the callback raises on a frame, the loop function does not terminate with it")
    ctx.prove(f"{which}-R2-next-frame-still-delivered", I, z3.And(ok2, z3.Not(delivered2)), vars=vars_, replay=replay,
              desc="the frame following a bad frame reaches the callback (payload identical) whenever the MAC filter accepts it")
    if which == "raw":
        # R4: frames sent by the station itself or addressed to another unicast MAC never reach the callback
        own_src = z3.And(I._lb(I.equal(SBytes(f2.bs[6:12]), mac)), z3.Not(I._lb(I.equal(SBytes(f2.bs[0:6]), mac))))
        other_uc = z3.And(z3.Not(I._lb(I.equal(SBytes(f2.bs[0:6]), mac))), z3.Not(I._lb(I.equal(SBytes(f2.bs[0:6]), b"\xff" * 6))))
        f1_is_f2 = I._lb(I.equal(SBytes(f1.bs[14:14 + (n2 - 14)]), payload(f2))) if n1 - 14 >= n2 - 14 else FALSE

        def replay4(vals):
            ll = RAW_CLS.__new__(RAW_CLS)
            seen = []

            class Sock:
                q = [vals["b"]]

                def recv(self, n):
                    if not self.q:
                        raise OSError()
                    return self.q.pop(0)
            ll.sock = Sock()
            ll.mac_address = vals["mac"]
            ll.receive_callback = seen.append
            ll.receive()
            b, m = vals["b"], vals["mac"]
            must_ignore = (b[6:12] == m and b[0:6] != m) or (b[0:6] != m and b[0:6] != b"\xff" * 6)
            return must_ignore and bool(seen), f"frame dst={b[0:6].hex()} src={b[6:12].hex()} own={m.hex()} delivered={bool(seen)}"
        ctx.prove("raw-R4-mac-filter", I, z3.And(z3.Or(own_src, other_uc), delivered2, z3.Not(ok1)), vars=vars_, replay=replay4,
                  desc="own broadcast frames and frames to a foreign unicast MAC are not handed to the router")
    ctx.use(I)


@vc("C04", "R2-raw-loop")
def raw_loop(ctx):
    _loop_vc(ctx, "raw")


@vc("C04", "R2-cv2x-loop-empty-frame")
def cv2x_loop_empty(ctx):
    """a frame that consists of the radio prefix only reaches the loop as an empty byte string: it is a (bad) frame, not the stop signal"""
    _loop_vc(ctx, "cv2x", n1=0)


@vc("C04", "R2-cv2x-loop")
def cv2x_loop(ctx):
    _loop_vc(ctx, "cv2x")
