"""C05 - honestly signed messages are accepted by every station sharing the trust root (logic level, vf/secm.py)."""
import ast
import types
import z3
from ..calls import make
from ..values import Obj, Opaque, SBytes, SDict, SList, Guarded, Undefined, EnumSym
from ..interp import TRUE, FALSE
from ..runner import vc
from ..facil import cond_or, num_eq, val_eq, path_get, path_has, logger, Clock
from ..secm import Crypto, SymCert
from .c09 import Model, bytes_eq, verify_oracle, _is_none, fake_coder, build_cert, summary
from .c03 import VerifyHarness, SignedMessage, report_is, field_of, blob_is, success_conditions

import flexstack.security.sign_service as SS
from flexstack.security.sign_service import SignService, CooperativeAwarenessMessageSecurityHandler
from flexstack.security.verify_service import VerifyService
from flexstack.security.certificate import Certificate, OwnCertificate, SECURITY_CODER
from flexstack.security.sn_sap import SNSIGNRequest, SNSIGNConfirm, SNVERIFYRequest, ReportVerify
from flexstack.utils.time_service import TimeService, ITS_EPOCH, ELAPSED_SECONDS


class SignHarness:
    """SignService holding one own authorization ticket, in an arbitrary P2PCD / certificate-timer state"""

    def __init__(self, M=None):
        self.M = M = M or Model()
        I, K = M.I, M.K
        self.I, self.K = I, K
        self.clock = Clock(I, 1.1e9, 2.2e9)
        I.stubs[TimeService.time] = self.clock.read
        self.key_id = I.int_var("own_key_id", 1, 1000)
        self.own = SymCert(K, "own_at")
        # an own ticket issued through the issuing API: its verification key is the public key of its signing key
        self.own_key = K.public_key(self.key_id)
        I.assumptions.append(self.own.v["vki_is_verification_key"])
        I.assumptions.append(self.own.v["key_kind"] == 0)
        I.assumptions.append(self.own.key.term == self.own_key[1].term)
        self.aa = SymCert(K, "own_aa")
        self.own_obj = M.cert_obj(self.own, M.cert_obj(self.aa), cls=OwnCertificate, key_id=self.key_id)
        from flexstack.security.certificate_library import CertificateLibrary
        self.ca_cert = SymCert(K, "held_ca", groups=1, psids=1)
        self.has_ca = z3.Bool("holds_ca_certificate")
        self.lib = Obj(CertificateLibrary, dict(own_certificates=SDict([(TRUE, M.hid_of(self.own.d), self.own_obj, False)]),
                                                known_authorization_tickets=SDict(), known_root_certificates=SDict(),
                                                known_authorization_authorities=SDict([(self.has_ca, M.hid_of(self.ca_cert.d), M.cert_obj(self.ca_cert), False)]),
                                                ecdsa_backend=K.backend))
        self.last_full = I.float_var("last_full_certificate_time", 1.0e9, 2.2e9)
        self.requested_own = z3.Bool("requested_own_certificate")
        self.cam = Obj(CooperativeAwarenessMessageSecurityHandler, dict(backend=K.backend, last_signer_full_certificate_time=self.last_full,
                                                                         requested_own_certificate=self.requested_own))
        self.has_unknown = z3.Bool("has_unknown_at")
        self.unknown = K.blob(I.int_var("unknown_at_hashedid3", 0, 2 ** 24 - 1), "hashedid3", length=3)
        self.has_requested = z3.Bool("has_requested_ca")
        self.requested = K.blob(I.int_var("requested_ca_hashedid3", 0, 2 ** 24 - 1), "hashedid3", length=3)
        self.svc = Obj(SignService, dict(ecdsa_backend=K.backend, certificate_library=self.lib, unknown_ats=SList([(self.has_unknown, self.unknown)]),
                                         requested_ats=SList([(self.has_requested, self.requested)]), cam_handler=self.cam))
        I.stubs[SignService.get_known_at_for_request] = lambda it, a, k, pc: self.ca_cert.d
        self.encoded = []
        self._orig_coder = K._coder

        def coder(it, name, a, k, pc):
            r = self._orig_coder(it, name, a, k, pc)
            if name == "encode_etsi_ts_103097_data_signed":
                self.encoded.append((pc, a[0], r))
            return r
        I.stubs[id(SECURITY_CODER)] = coder
        K.coder = SECURITY_CODER

    def request(self, psid=None, with_location=True):
        I = self.I
        self.psid = I.int_var("its_aid", 0, 1000) if psid is None else psid
        self.payload = self.K.blob(I.int_var("tbs_message", 0, 2 ** 40), "payload")
        loc = SDict([(TRUE, "latitude", I.int_var("gen_lat", -900000000, 900000001), False), (TRUE, "longitude", I.int_var("gen_lon", -1800000000, 1800000001), False),
                     (TRUE, "elevation", 0xF000, False)])
        self.has_loc = z3.Bool("has_generation_location")
        return Obj(SNSIGNRequest, dict(tbs_message_length=10, tbs_message=self.payload, its_aid=self.psid, permissions_length=0, permissions=b"",
                                       context_information=None, key_handle=None,
                                       generation_location=Guarded([(self.has_loc, loc), (z3.Not(self.has_loc), None)]) if with_location else None))

    def vars(self):
        v = {"own_key_id": self.key_id, "last_full_certificate_time": self.last_full, "requested_own_certificate": self.requested_own, "has_unknown_at": self.has_unknown,
             "has_requested_ca": self.has_requested, "unknown_at_hashedid3": self.unknown.term, "requested_ca_hashedid3": self.requested.term}
        v.update(self.clock.vars())
        v.update(self.own.vars())
        v.update(self.ca_cert.vars())
        v["holds_ca_certificate"] = self.has_ca
        for x in ("psid", "has_loc"):
            if hasattr(self, x) and isinstance(getattr(self, x), z3.ExprRef):
                v[getattr(self, x).decl().name()] = getattr(self, x)
        return v


def signed_parts(I, d):
    """(tbsData, headerInfo, signer, signature) of the structure handed to the coder"""
    sd = I.container_get(I.container_get(d, "content", TRUE), 1, TRUE)
    tbs = I.container_get(sd, "tbsData", TRUE)
    return sd, tbs, I.container_get(tbs, "headerInfo", TRUE), I.container_get(sd, "signer", TRUE), I.container_get(sd, "signature", TRUE)


def signer_is(I, signer, kind):
    k = I.container_get(signer, 0, TRUE)

    def rec(v):
        if isinstance(v, Guarded):
            return z3.Or(*[z3.And(c, rec(x)) for c, x in v.alts if not isinstance(x, Undefined)])
        return z3.BoolVal(v == kind)
    return rec(k)


def has_key(I, d, key):
    return I._lb(I.sdict_lookup(d, key)[0]) if isinstance(d, SDict) else z3.Or(*[z3.And(c, has_key(I, x, key)) for c, x in d.alts if isinstance(x, SDict)])


# ---------------------------------------------------------------------------------------------- P1 signing profiles
def _profile(ctx, kind):
    h = SignHarness()
    I, K = h.I, h.K
    req = h.request(with_location=(kind == "denm"))
    method = {"cam": SignService.sign_cam, "denm": SignService.sign_denm, "other": SignService.sign_other}[kind]
    n0 = len(I.raises)
    conf = I.call_function(method, [h.svc, req])
    exc = cond_or(c for c, _ in I.raises[n0:])
    vars_ = h.vars()
    if not h.encoded:
        ctx.inconclusive(f"{kind}-structure", "nothing was handed to the coder")
        return
    pc_enc, d, wire = h.encoded[-1]
    nr = len(I.raises)
    sd, tbs, hi, signer, sig = signed_parts(I, d)
    del I.raises[nr:]
    now = h.clock.reads
    # clock readings: generationTime first, then the certificate timer (sign_cam)
    nope = _replay_profile(kind, h)
    ctx.witness(f"{kind}-reach-signed", I, z3.And(pc_enc, z3.Not(exc)), vars=vars_)
    expect_exc = z3.And(z3.Not(h.has_loc)) if kind == "denm" else FALSE
    ctx.prove(f"{kind}-signs-whenever-a-ticket-is-held", I, z3.And(z3.Or(exc, z3.Not(pc_enc)), z3.Not(expect_exc),
                                                                    z3.Or(*[z3.And(c, p == h.psid) for c, p in h.own.app_psids()])),
              vars=vars_, replay=nope, desc="a request whose ITS-AID is covered by the held ticket is signed (DENM: when a generation location is given)")
    # signer
    is_cert, is_digest = signer_is(I, signer, "certificate"), signer_is(I, signer, "digest")
    if kind == "cam":
        tnow = now[-1][1]
        due = z3.Or(tnow - h.last_full > 1, h.requested_own)
        ctx.prove("cam-signer-certificate-iff-timer-or-request", I, z3.And(pc_enc, is_cert != due), vars=vars_, replay=nope,
                  desc="CAM/VAM: the full certificate is included exactly when more than one second passed since it was last included or a peer asked for it; the digest otherwise")
        lf = h.cam.fields["last_signer_full_certificate_time"]
        def fval(v):
            if isinstance(v, Guarded):
                alts = [(c, fval(x)) for c, x in v.alts if not isinstance(x, Undefined) and x is not None]
                t = alts[-1][1]
                for c, x in reversed(alts[:-1]):
                    t = z3.If(c, x, t)
                return t
            return I.to_float(v)
        ctx.prove("cam-timer-restarts-on-inclusion", I, z3.And(pc_enc, z3.Or(z3.And(due, fval(lf) != tnow), z3.And(z3.Not(due), fval(lf) != h.last_full),
                                                                            z3.And(due, I.to_bool(h.cam.fields["requested_own_certificate"])))), vars=vars_, replay=nope)
    elif kind == "denm":
        ctx.prove("denm-signer-always-certificate", I, z3.And(pc_enc, z3.Not(is_cert)), vars=vars_, replay=nope)
    else:
        ctx.prove("other-signer-digest", I, z3.And(pc_enc, z3.Not(is_digest)), vars=vars_, replay=nope)
    # the signer names the held ticket
    nr = len(I.raises)
    sval = I.container_get(signer, 1, TRUE)
    del I.raises[nr:]

    def names_own(v):
        if isinstance(v, Guarded):
            return z3.Or(*[z3.And(c, names_own(x)) for c, x in v.alts if not isinstance(x, Undefined)])
        if isinstance(v, Opaque) and getattr(v, "term", None) is not None:
            return v.term == h.M.hid_of(h.own.d).term
        if isinstance(v, SList):
            return z3.BoolVal(len(v.items) == 1 and v.items[0][1] is h.own.d)
        return FALSE
    ctx.prove(f"{kind}-signer-names-the-held-ticket", I, z3.And(pc_enc, z3.Not(names_own(sval))), vars=vars_, replay=nope)
    # header fields: exactly the mandatory ones, none of the forbidden ones
    want = {"psid": TRUE, "generationTime": TRUE, "generationLocation": z3.BoolVal(kind == "denm"),
            "inlineP2pcdRequest": h.has_unknown if kind == "cam" else FALSE, "requestedCertificate": h.has_requested if kind == "cam" else FALSE,
            "expiryTime": FALSE, "encryptionKey": FALSE, "p2pcdLearningRequest": FALSE, "missingCrlIdentifier": FALSE}
    bad = [has_key(I, hi, k) != w for k, w in want.items()]
    ctx.prove(f"{kind}-header-has-exactly-the-profile-fields", I, z3.And(pc_enc, z3.Or(*bad)), vars=vars_, replay=nope,
              desc="headerInfo carries psid and generationTime (+ generationLocation for DENM, + inlineP2pcdRequest iff unknown tickets were seen, + requestedCertificate iff a CA certificate was asked for) and nothing else")
    nr = len(I.raises)
    psid_v, gt = I.container_get(hi, "psid", TRUE), I.container_get(hi, "generationTime", TRUE)
    payload = path_get(I, tbs, "payload", "data", "content")
    del I.raises[nr:]
    its_us = (now[0][1] - ITS_EPOCH + ELAPSED_SECONDS) * 1000 * 1000
    ctx.prove(f"{kind}-psid-and-generation-time", I, z3.And(pc_enc, z3.Or(z3.Not(num_eq(I, psid_v, h.psid)),
                                                                         z3.Not(z3.And(val_le(I, gt, its_us), val_gt(I, gt, its_us - 1000)))), z3.Not(exc)), vars=vars_, replay=nope,
              desc="psid = the request's ITS-AID; generationTime = the current ITS time in microseconds (millisecond clock)")
    ctx.prove(f"{kind}-payload-is-the-request", I, z3.And(pc_enc, z3.Not(blob_is(I, I.container_get(payload, 1, TRUE), h.payload))), vars=vars_, replay=nope)
    # the signature is made with the ticket's key over the final tbsData
    ok_sig = [z3.And(c, dt == K.inj("EncTbsData", tbs), kid == h.key_id) for c, dt, kid, s_, data in K.sign_calls]
    ctx.prove(f"{kind}-signature-over-the-final-tbsData-with-the-ticket-key", I, z3.And(pc_enc, z3.Not(z3.Or(*ok_sig) if ok_sig else FALSE)), vars=vars_, replay=nope,
              desc="the signature placed in the message is sign(encode(tbsData as sent), key of the held ticket)")
    nr = len(I.raises)
    sig_blob = I.container_get(sig, 1, TRUE)
    del I.raises[nr:]
    sig_used = [z3.And(c, blob_is(I, sig_blob, s_[1])) for c, dt, kid, s_, data in K.sign_calls]
    ctx.prove(f"{kind}-message-carries-that-signature", I, z3.And(pc_enc, z3.Not(z3.Or(*sig_used) if sig_used else FALSE)), vars=vars_, replay=nope)
    ctx.bound("arbitrary clock, certificate timer, pending-request flag, one pending unknown ticket / requested CA (present or not); ITS-AID 0..1000; ticket content symbolic")


def _replay_accept(kind, h):
    """real SignService -> real VerifyService: fake injective coder, an ideal signature backend (verify(d, s, pk) holds iff s is what sign returned for d
    under the ticket whose verification key is pk; certificate signatures of the honest chain hold), a receiver library that resolves the ticket"""
    import flexstack.security.verify_service as VS_

    def f(vals):
        from unittest import mock
        with fake_coder():
            signed = {}

            class B:
                def sign(self, data, key):
                    sig = ("ecdsaNistP256Signature", {"rSig": ("x-only", bytes([len(signed) + 1]) * 32), "sSig": b"\x02" * 32})
                    signed[bytes(data)] = (sig, key)
                    return sig

                def verify_with_pk(self, data=None, signature=None, pk=None):
                    if bytes(data).startswith(b"encode_ToBeSignedCertificate"):
                        return True          # honest certificate chain (assumption of the VC: the ticket verifies under its AA)
                    rec = signed.get(bytes(data))
                    return rec is not None and rec[0] == signature and rec[1] == vals["own_key_id"] and pk == own_d["toBeSigned"]["verifyKeyIndicator"][1]
            own_d, aa_d = build_cert(vals, "own_at"), build_cert(vals, "own_aa")
            aa = Certificate(certificate=aa_d)
            if own_d["issuer"][0] != "self":
                own_d["issuer"] = (own_d["issuer"][0], aa.as_hashedid8())
            own = OwnCertificate(certificate=own_d, issuer=aa, key_id=vals["own_key_id"])
            lib = mock.Mock()
            lib.own_certificates = {own.as_hashedid8(): own}
            lib.get_ca_certificate_by_hashedid3.return_value = Certificate(certificate=build_cert(vals, "held_ca"))
            backend = B()
            svc = SignService(backend, lib)
            svc.cam_handler.last_signer_full_certificate_time = vals["last_full_certificate_time"]
            svc.cam_handler.requested_own_certificate = vals["requested_own_certificate"]
            svc.unknown_ats = [vals["unknown_at_hashedid3"].to_bytes(3, "big")] if vals["has_unknown_at"] else []
            svc.requested_ats = [vals["requested_ca_hashedid3"].to_bytes(3, "big")] if vals["has_requested_ca"] else []
            times = [vals[n] for n in sorted(h.clock.vars(), key=lambda x: int(x[3:]))] or [1.7e9]

            def tm():
                return times.pop(0) if len(times) > 1 else times[0]
            captured = []
            loc = {"latitude": 1, "longitude": 2, "elevation": 0xF000} if kind == "denm" else None
            payload = b"P" + (int(vals.get("tbs_message", 1)) % 2 ** 48).to_bytes(6, "big")
            rq = SNSIGNRequest(tbs_message_length=len(payload), tbs_message=payload, its_aid=vals["its_aid"], permissions_length=0, permissions=b"", generation_location=loc)
            with mock.patch.object(TimeService, "time", staticmethod(tm)), \
                    mock.patch.object(SS.SECURITY_CODER, "encode_etsi_ts_103097_data_signed", lambda d: (captured.append(d), b"wire")[1]):
                try:
                    {"cam": svc.sign_cam, "denm": svc.sign_denm, "other": svc.sign_other}[kind](rq)
                except Exception as e:          # noqa
                    return False, f"{kind}: the signer raised {e!r} (not this obligation)"
            if not captured:
                return False, f"{kind}: nothing was signed"
            msg = captured[-1]
            # receiver: resolves the ticket (by digest or from the certificate in the message); same ideal backend
            rlib = mock.Mock()
            ticket = Certificate(certificate=own_d, issuer=aa)
            rlib.verify_sequence_of_certificates.return_value = ticket
            rlib.get_authorization_ticket_by_hashedid8.return_value = ticket
            vs = VerifyService(backend, rlib, None)
            with mock.patch.object(TimeService, "time", staticmethod(tm)), \
                    mock.patch.object(VS_.SECURITY_CODER, "decode_etsi_ts_103097_data_signed", lambda b: msg):
                try:
                    conf = vs.verify(SNVERIFYRequest(0, b"", 4, b"wire"))
                except Exception as e:          # noqa
                    return True, f"{kind}: the receiver raised {type(e).__name__}: {e} on the message an honest signer produced"
            bad = []
            if conf.report != ReportVerify.SUCCESS:
                bad.append(f"report {conf.report} for the message of an honest signer (signer {msg['content'][1]['signer'][0]}, header {sorted(msg['content'][1]['tbsData'].get('headerInfo', {}))})")
            elif conf.plain_message != payload:
                bad.append("delivered payload differs from the request's")
        return bool(bad), f"{kind}: " + ("; ".join(bad) or "accepted, payload unchanged")
    return f


def _replay_notify(which):
    """real SignService (fake injective coder for the HashedId8 of the own ticket) in the model's P2PCD state; one real notification"""
    def f(vals):
        from unittest import mock
        with fake_coder():
            own_d = build_cert(vals, "own_at")
            own = OwnCertificate(certificate=own_d, issuer=None, key_id=vals.get("own_key_id", 1))
            lib = mock.Mock()
            lib.own_certificates = {own.as_hashedid8(): own}
            lib.get_ca_certificate_by_hashedid3.return_value = None
            svc = SignService(mock.Mock(), lib)
            svc.cam_handler.requested_own_certificate = bool(vals.get("requested_own_certificate"))
            svc.unknown_ats = [vals["unknown_at_hashedid3"].to_bytes(3, "big")] if vals.get("has_unknown_at") else []
            svc.requested_ats = [vals["requested_ca_hashedid3"].to_bytes(3, "big")] if vals.get("has_requested_ca") else []
            own3 = own.as_hashedid8()[-3:]
            if which == "unknown_at":
                # the model's HashedId3 of the seen digest is an uninterpreted function of it: build a digest whose last three octets are that value
                h8 = (int(vals["seen_hashedid8"]) % 2 ** 40).to_bytes(5, "big") + (int(vals["seen_low3"]) % 2 ** 24).to_bytes(3, "big")
                svc.notify_unknown_at(h8)
                bad = []
                if h8[-3:] not in svc.unknown_ats:
                    bad.append("the HashedId3 of the unknown ticket is not queued for the next inlineP2pcdRequest")
                if not svc.cam_handler.requested_own_certificate:
                    bad.append("the own certificate is not scheduled for the next CAM")
                return bool(bad), "notify_unknown_at: " + ("; ".join(bad) or "as required")
            other = int(vals["other_hashedid3"]).to_bytes(3, "big")
            names_own = bool(vals["request_names_own_ticket"])
            before = svc.cam_handler.requested_own_certificate
            first = [int(vals["first_hashedid3"]).to_bytes(3, "big")] if vals.get("request_names_another_ticket_first") else []
            svc.notify_inline_p2pcd_request(first + ([own3] if names_own else []) + [other])
            after = svc.cam_handler.requested_own_certificate
            bad = []
            if names_own and not after:
                bad.append("a request naming the own ticket does not schedule the certificate")
            if not names_own and other != own3 and own3 not in first and not before and after:
                bad.append("a request for other tickets only schedules the own certificate")
            return bool(bad), "notify_inline_p2pcd_request: " + ("; ".join(bad) or "as required")
    return f


def _replay_profile(kind, h):
    """real SignService with an injective fake coder, a recording backend and the model's timer / P2PCD state"""
    def f(vals):
        from unittest import mock
        with fake_coder():
            signed = []

            class B:
                def sign(self, data, key):
                    signed.append((data, key))
                    return ("ecdsaNistP256Signature", {"rSig": ("x-only", bytes([len(signed)]) * 32), "sSig": b"\x02" * 32})
            own_d = build_cert(vals, "own_at")
            own = OwnCertificate(certificate=own_d, issuer=None, key_id=vals["own_key_id"])
            lib = mock.Mock()
            lib.own_certificates = {own.as_hashedid8(): own}
            ca = Certificate(certificate=build_cert(vals, "held_ca"))
            lib.get_ca_certificate_by_hashedid3.return_value = ca
            svc = SignService(B(), lib)
            svc.cam_handler.last_signer_full_certificate_time = vals["last_full_certificate_time"]
            svc.cam_handler.requested_own_certificate = vals["requested_own_certificate"]
            svc.unknown_ats = [vals["unknown_at_hashedid3"].to_bytes(3, "big")] if vals["has_unknown_at"] else []
            svc.requested_ats = [vals["requested_ca_hashedid3"].to_bytes(3, "big")] if vals["has_requested_ca"] else []
            times = [vals[n] for n in sorted(h.clock.vars(), key=lambda x: int(x[3:]))] or [1.7e9]
            seen = []

            def tm():
                v = times.pop(0) if len(times) > 1 else times[0]
                seen.append(v)
                return v
            captured = []
            loc = {"latitude": 1, "longitude": 2, "elevation": 0xF000} if (kind == "denm" and vals.get("has_generation_location")) else None
            rq = SNSIGNRequest(tbs_message_length=3, tbs_message=b"PAY", its_aid=vals["its_aid"], permissions_length=0, permissions=b"", generation_location=loc)
            covered = vals["its_aid"] in [p["psid"] for p in own_d["toBeSigned"].get("appPermissions", [])]
            err = None
            with mock.patch.object(TimeService, "time", staticmethod(tm)), \
                    mock.patch.object(SS.SECURITY_CODER, "encode_etsi_ts_103097_data_signed", lambda d: (captured.append(d), b"wire")[1]):
                try:
                    {"cam": svc.sign_cam, "denm": svc.sign_denm, "other": svc.sign_other}[kind](rq)
                except Exception as e:
                    err = e
            bad = []
            must_sign = covered and not (kind == "denm" and loc is None)
            if must_sign and (err is not None or not captured):
                return True, f"{kind}: request with ITS-AID {vals['its_aid']} covered by the held ticket was not signed ({err!r})"
            if not captured:
                return False, f"{kind}: not signed ({err!r})"
            sd = captured[-1]["content"][1]
            hi = sd["tbsData"]["headerInfo"]
            if kind == "cam":
                tnow = seen[-1]
                due = (tnow - vals["last_full_certificate_time"] > 1) or vals["requested_own_certificate"]
                if (sd["signer"][0] == "certificate") != due:
                    bad.append(f"signer is {sd['signer'][0]} {tnow - vals['last_full_certificate_time']:.3f} s after the certificate was last included (peer request pending={vals['requested_own_certificate']})")
                if due and svc.cam_handler.last_signer_full_certificate_time != tnow:
                    bad.append("certificate timer not restarted at the inclusion")
                if not due and svc.cam_handler.last_signer_full_certificate_time != vals["last_full_certificate_time"]:
                    bad.append(f"certificate timer restarted ({vals['last_full_certificate_time']} -> {svc.cam_handler.last_signer_full_certificate_time}) by a message that did "
                               "not carry the certificate: the next inclusion is measured from the previous message, not from the last inclusion")
                if due and svc.cam_handler.requested_own_certificate:
                    bad.append("pending peer request not cleared by the inclusion")
            if kind == "denm" and sd["signer"][0] != "certificate":
                bad.append("DENM signed with a digest")
            if kind == "other" and sd["signer"][0] != "digest":
                bad.append("generic message not signed with the digest")
            want = {"psid", "generationTime"} | ({"generationLocation"} if kind == "denm" else set())
            if kind == "cam" and vals["has_unknown_at"]:
                want.add("inlineP2pcdRequest")
            if kind == "cam" and vals["has_requested_ca"]:
                want.add("requestedCertificate")
            if set(hi) != want:
                bad.append(f"headerInfo fields {sorted(hi)}, profile demands {sorted(want)}")
            if hi.get("psid") != vals["its_aid"]:
                bad.append(f"psid {hi.get('psid')} for ITS-AID {vals['its_aid']}")
            if not signed or signed[-1][0] != ("encode_to_be_signed_data" + repr(sd["tbsData"])).encode() or signed[-1][1] != vals["own_key_id"]:
                bad.append("the signature was not made over the tbsData that is sent / not with the ticket's key")
        return bool(bad), f"{kind}: " + ("; ".join(bad) or "profile respected")
    return f


def val_le(I, v, x):
    from ..facil import val_cmp
    return val_cmp(I, ast.LtE, v, x)


def val_gt(I, v, x):
    from ..facil import val_cmp
    return val_cmp(I, ast.Gt, v, x)


@vc("C05", "P1-cam-profile")
def cam_profile(ctx):
    _profile(ctx, "cam")


@vc("C05", "P1-denm-profile")
def denm_profile(ctx):
    _profile(ctx, "denm")


@vc("C05", "P1-generic-profile")
def other_profile(ctx):
    _profile(ctx, "other")


# ---------------------------------------------------------------------------------------------- P2 what an honest signer emits is accepted
@vc("C05", "P2-signed-message-is-accepted")
def accepted(ctx):
    """sign_cam / sign_denm / sign_other followed by VerifyService.verify at a receiver that can resolve the ticket: SUCCESS, payload unchanged"""
    for kind in ("cam", "denm", "other"):
        h = SignHarness()
        I, K, M = h.I, h.K, h.M
        req = h.request(with_location=(kind == "denm"))
        if kind == "cam":
            I.assumptions.append(z3.Or(h.psid == 36, h.psid == 638))
        elif kind == "denm":
            I.assumptions += [h.psid == 37, h.has_loc]
        else:
            I.assumptions.append(z3.And(h.psid != 36, h.psid != 37))
        # an honest ticket: covers the ITS-AID, has the AT profile and verifies under its issuer (C09 K2 'conforming certificate is accepted')
        own = h.own
        I.assumptions.append(z3.Or(*[z3.And(c, p == h.psid) for c, p in own.app_psids()]))
        I.assumptions += [own.v["issuer_kind"] == 1, own.v["id_is_none"], z3.Not(own.v["has_cert_issue_permissions"]), own.v["has_app_permissions"]]
        I.assumptions.append(verify_oracle(M, own, h.aa, TRUE))
        method = {"cam": SignService.sign_cam, "denm": SignService.sign_denm, "other": SignService.sign_other}[kind]
        I.call_function(method, [h.svc, req])
        exc_sign = cond_or(c for c, _ in I.raises)
        pc_enc, d, wire = h.encoded[-1]
        # receiver
        lib = Opaque("receiver_library")
        asked = []

        def libstub(it, name, a, k, pc, asked=asked):
            asked.append((pc, name, a))
            return h.own_obj            # the receiver knows the ticket or resolves the included certificate (C09 K1)
        I.stubs[id(lib)] = libstub
        K.decode_signed = lambda x, pc, d=d: d
        from unittest import mock
        real = VerifyService(mock.Mock(), mock.Mock(), None)
        f = dict(vars(real))
        f.update(backend=K.backend, certificate_library=lib, sign_service=None)
        vs = Obj(VerifyService, f)
        n0 = len(I.raises)
        conf = I.call_function(VerifyService.verify, [vs, Obj(SNVERIFYRequest, dict(sec_header_length=0, sec_header=b"", message_length=10, message=wire))])
        exc_ver = cond_or(c for c, _ in I.raises[n0:])
        ok = report_is(I, conf, ReportVerify.SUCCESS)
        vars_ = h.vars()
        vars_.update(h.aa.vars())
        nope = _replay_accept(kind, h)
        ctx.witness(f"{kind}-reach", I, z3.And(pc_enc, ok), vars=vars_, validate=lambda v, rp=nope: not rp(v)[0], good=TRUE)
        ctx.prove(f"{kind}-accepted-by-a-receiver-that-resolves-the-ticket", I, z3.And(pc_enc, z3.Not(exc_sign), z3.Or(exc_ver, z3.Not(ok))), vars=vars_, replay=nope,
                  desc="with the axiom verify(d, sign(d,k), pub(k)) the message is reported SUCCESS: its header satisfies the receiver's profile checks, the signature is over the tbsData that is sent")
        ctx.prove(f"{kind}-payload-unchanged", I, z3.And(pc_enc, ok, z3.Not(blob_is(I, field_of(conf, "plain_message"), h.payload))), vars=vars_, replay=nope)
    ctx.bound("CAM/VAM (ITS-AID 36, 638; digest or certificate by the timer), DENM (37), generic profile (any other ITS-AID); arbitrary signer state; honest ticket (AT profile, verifies under its AA, covers the ITS-AID)")
    ctx.stub("receiver library resolves the ticket (its admission is C09 K1); ideal signature axiom verify(d, sign(d,k), pub(k))")


# ---------------------------------------------------------------------------------------------- P3 peer-to-peer certificate distribution
@vc("C05", "P3-p2pcd-notifications")
def p2pcd(ctx):
    """what the verifier tells the signer (unknown ticket, inline request, requested CA certificate) and what the signer does with it"""
    h = VerifyHarness()
    I, K = h.I, h.K
    m = h.msgs[0]
    conf = h.verify()
    res = h.results[0]
    ok = report_is(I, conf, ReportVerify.SUCCESS)
    exc = cond_or(c for c, _ in I.raises)
    vars_ = h.vars()
    called = lambda name: cond_or(c for c, n, a in res["notes"] if n == name)
    resolved = z3.Or(*[z3.And(pc, found) for pc, name, a, found in res["lib"]])
    from .c03 import _replay_verify_service
    success_conditions(h, m, res)
    vars_.update(h.extra)
    vars_["_want"] = success_conditions(h, m, res)

    def nope(vals):
        from unittest import mock
        ss = mock.Mock()
        got = {}
        _replay_verify_service(h, m, res, sign_service=ss, out=got)(vals)
        if "confirm" not in got:
            return False, "verification raised"
        okr = got["confirm"].report == ReportVerify.SUCCESS
        hi = got["signed"]["tbsData"].get("headerInfo", {})
        bad = []
        if okr and "inlineP2pcdRequest" in hi and not ss.notify_inline_p2pcd_request.called:
            bad.append(f"accepted message with ITS-AID {hi.get('psid')} carries an inlineP2pcdRequest that was not passed to the sign service")
        if okr and "requestedCertificate" in hi and not ss.notify_received_ca_certificate.called:
            bad.append(f"accepted message with ITS-AID {hi.get('psid')} carries a requestedCertificate that was not passed to the sign service")
        if not okr and (ss.notify_inline_p2pcd_request.called or ss.notify_received_ca_certificate.called):
            bad.append("P2PCD fields of a rejected message were acted upon")
        signer = got["signed"]["signer"]
        if got["confirm"].report == ReportVerify.SIGNER_CERTIFICATE_NOT_FOUND and not (ss.notify_unknown_at.called and ss.notify_unknown_at.call_args[0][0] == signer[1]):
            bad.append("unknown signer digest not reported to the sign service")
        return bool(bad), "; ".join(bad) or "notifications as required"
    hdr = m.has_header
    ctx.witness("reach-inline-request-forwarded", I, z3.And(ok, called("notify_inline_p2pcd_request")), vars=vars_)
    ctx.prove("accepted-inline-request-is-forwarded-for-every-its-aid", I, z3.And(ok, hdr, m.has["inlineP2pcdRequest"], z3.Not(called("notify_inline_p2pcd_request"))), vars=vars_, replay=nope,
              desc="an accepted message carrying inlineP2pcdRequest (CAM or VAM alike) makes the verifier tell the sign service")
    ctx.prove("accepted-requested-certificate-is-forwarded", I, z3.And(ok, hdr, m.has["requestedCertificate"], z3.Not(called("notify_received_ca_certificate"))), vars=vars_, replay=nope)
    ctx.prove("nothing-forwarded-from-rejected-messages", I, z3.And(z3.Not(ok), z3.Or(called("notify_inline_p2pcd_request"), called("notify_received_ca_certificate"))), vars=vars_, replay=nope)
    digest_unknown = z3.And(m.signer_is_digest, z3.Not(resolved), z3.Not(z3.And(hdr, m.has_psid, m.psid == 37)))
    bad = [z3.And(c, z3.Not(blob_is(I, a[0], m.signer_digest))) for c, n, a in res["notes"] if n == "notify_unknown_at"]
    ctx.prove("unknown-digest-is-reported-to-the-signer", I, z3.And(digest_unknown, z3.Not(exc), z3.Or(z3.Not(called("notify_unknown_at")), *bad)), vars=vars_, replay=nope,
              desc="a digest-signed message of an unknown ticket makes the verifier report that digest, so that the next own CAM asks for it")
    # the signer's side
    s = SignHarness()
    I2, K2 = s.I, s.K
    h8 = K2.blob(I2.int_var("seen_hashedid8", 0, 2 ** 40 - 1), "hashedid8", length=8)
    I2.call_function(SignService.notify_unknown_at, [s.svc, h8])
    low = K2.low3(h8.term)
    in_list = I2._lb(I2.contains(s.svc.fields["unknown_ats"], K2.blob(low, "low3", length=3)))
    ctx.witness("signer-reach", I2, TRUE)
    ctx.prove("unknown-ticket-is-requested-and-own-certificate-scheduled", I2, z3.Or(z3.Not(in_list), z3.Not(I2.to_bool(s.cam.fields["requested_own_certificate"]))),
              vars=dict(s.vars(), seen_hashedid8=h8.term, seen_low3=low), replay=_replay_notify("unknown_at"), desc="notify_unknown_at: the HashedId3 is queued for the next inlineP2pcdRequest and the own certificate is scheduled for the next CAM")
    s = SignHarness()
    I3, K3 = s.I, s.K
    own3 = K3.blob(K3.low3(s.M.hid_of(s.own.d).term), "low3", length=3)
    other3 = K3.blob(I3.int_var("other_hashedid3", 0, 2 ** 24 - 1), "hashedid3", length=3)
    has_own = z3.Bool("request_names_own_ticket")
    # the request list names up to three tickets; the own one may come after another station's
    first3 = K3.blob(I3.int_var("first_hashedid3", 0, 2 ** 24 - 1), "hashedid3", length=3)
    has_first = z3.Bool("request_names_another_ticket_first")
    I3.call_function(SignService.notify_inline_p2pcd_request, [s.svc, SList([(has_first, first3), (has_own, own3), (TRUE, other3)])])
    v3 = s.vars()
    v3["request_names_own_ticket"] = has_own
    v3["request_names_another_ticket_first"] = has_first
    v3["first_hashedid3"] = first3.term
    after = I3.to_bool(s.cam.fields["requested_own_certificate"])
    v3["other_hashedid3"] = other3.term
    nope3 = _replay_notify("inline_request")
    ctx.prove("inline-request-for-own-ticket-schedules-the-certificate", I3, z3.And(has_own, z3.Not(after)), vars=v3, replay=nope3,
              desc="notify_inline_p2pcd_request naming the HashedId3 of the own ticket makes the next CAM carry the certificate (P1 then includes it)")
    ctx.prove("inline-request-for-others-changes-nothing", I3, z3.And(z3.Not(has_own), other3.term != own3.term, z3.Or(z3.Not(has_first), first3.term != own3.term),
                                                                      z3.Not(s.requested_own), after), vars=v3, replay=nope3)
    ctx.witness("inline-request-reach-own-ticket-named-second", I3, z3.And(has_first, has_own, first3.term != own3.term, after), vars=v3, validate=lambda v: not nope3(v)[0])
    ctx.bound("one verified message with arbitrary header; one notification on an arbitrary signer state")


# ---------------------------------------------------------------------------------------------- P4 router encapsulation at the source
from ..gnharness import Harness, sym_request, all_vars, build_real
from .. import symgn as G
from flexstack.geonet.router import Router
from flexstack.geonet.mib import GnSecurity
from flexstack.geonet.basic_header import BasicNH
from flexstack.geonet.service_access_point import HeaderType, TopoBroadcastHST, GeoBroadcastHST
from flexstack.security.security_profiles import SecurityProfile


def _router_source(ctx, tag, method, ht, hst, profile, L=6, S=20):
    h = Harness(8 * 64 + 256, itsGnSecurity=GnSecurity.ENABLED)
    I = h.I
    h.add_entry("nb")
    if ht == HeaderType.GEOBROADCAST:
        h.set_sn(I.int_var("sn0", 0, 65534))
    req = sym_request(I, "rq", ht, hst, L, None)
    req.fields["security_profile"] = profile
    req.fields["its_aid"] = I.int_var("its_aid", 0, 1000)
    sec = G.sym_bytes("sec", S)
    signed = []
    ss = Opaque("sign_service")

    def sign(it, name, a, k, pc):
        signed.append((pc, name, a[0]))
        return Obj(SNSIGNConfirm, dict(sec_message=sec, sec_message_length=S))
    I.stubs[id(ss)] = sign
    h.Ro.fields["sign_service"] = ss
    h.call(method, req)
    vars_ = all_vars(h, req)
    vars_["sec"] = sec
    exc = h.exc()

    def replay(vals):
        R, ll, got, patches = build_real(h, vals)
        asked = []

        used = []

        class S_:
            def _do(self, rq_, name):
                asked.append(rq_)
                used.append(name)
                return SNSIGNConfirm(sec_message=vals["sec"], sec_message_length=len(vals["sec"]))
            sign_cam = lambda self, rq_: self._do(rq_, "sign_cam")
            sign_denm = lambda self, rq_: self._do(rq_, "sign_denm")
            sign_request = lambda self, rq_: self._do(rq_, "sign_request")
        R.sign_service = S_()
        rq = G.concretize(req, vals)
        with patches:
            try:
                getattr(R, method.__name__)(rq)
            except Exception as e:
                return True, f"{tag}: raised {type(e).__name__}: {e}"
        bad = []
        for p in ll.sent:
            if (p[0] & 0x0F) != BasicNH.SECURED_PACKET.value or bytes(p[4:]) != vals["sec"]:
                bad.append(f"emitted packet {p.hex()} is not basic header(NH=secured) | signed message {vals['sec'].hex()}")
        if ll.sent and not asked:
            bad.append("packet emitted without asking the sign service")
        for a_ in asked:
            if not bytes(a_.tbs_message).endswith(bytes(rq.data)) or a_.its_aid != rq.its_aid:
                bad.append("the sign service was asked to sign something else than common | extended | payload of this request")
        want_ = {"cam": "sign_cam", "denm": "sign_denm", "other": "sign_request"}["cam" if profile in (SecurityProfile.COOPERATIVE_AWARENESS_MESSAGE, SecurityProfile.VRU_AWARENESS_MESSAGE)
                                                                                   else "denm" if profile == SecurityProfile.DECENTRALIZED_ENVIRONMENTAL_NOTIFICATION_MESSAGE else "other"]
        if any(u != want_ for u in used):
            bad.append(f"the request's security profile {profile.name} was signed through {used} instead of {want_} (wrong signer rules: certificate inclusion / header fields)")
        return bool(bad), f"{tag}: " + ("; ".join(bad) or f"{len(ll.sent)} packet(s), all carrying the signed message")
    ctx.witness(f"{tag}-reach-sent", I, z3.And(h.any_send(), z3.Not(exc)), vars=vars_)
    bad = []
    for c, pkt in h.sent:
        pkt = I.sbytes(pkt)
        if len(pkt.bs) != 4 + S:
            bad.append(c)
            continue
        bad.append(z3.And(c, z3.Or(z3.Extract(3, 0, pkt.bs[0]) != BasicNH.SECURED_PACKET.value, *[x != y for x, y in zip(pkt.bs[4:], sec.bs)])))
    ctx.prove(f"{tag}-every-emitted-packet-carries-the-signed-message", I, z3.Or(*bad) if bad else FALSE, vars=vars_, replay=replay,
              desc="with security enabled every packet handed to the link layer is basic header (NH = secured packet) followed by exactly the SN-SIGN confirm's secured message")
    tbs_bad = []
    for c, name, rq_ in signed:
        t = rq_.fields["tbs_message"]
        data = req.fields["data"]
        ok = isinstance(t, SBytes) and len(t.bs) >= L and all(x.get_id() == y.get_id() for x, y in zip(t.bs[-L:], data.bs))
        tbs_bad.append(z3.And(c, z3.BoolVal(not ok)))
        tbs_bad.append(z3.And(c, z3.Not(num_eq(I, rq_.fields["its_aid"], req.fields["its_aid"]))))
    ctx.prove(f"{tag}-signs-this-requests-payload-and-its-aid", I, z3.Or(*tbs_bad) if tbs_bad else TRUE, vars=vars_, replay=replay)
    want = {"cam": "sign_cam", "denm": "sign_denm", "other": "sign_request"}
    which = "cam" if profile in (SecurityProfile.COOPERATIVE_AWARENESS_MESSAGE, SecurityProfile.VRU_AWARENESS_MESSAGE) else \
        "denm" if profile == SecurityProfile.DECENTRALIZED_ENVIRONMENTAL_NOTIFICATION_MESSAGE else "other"
    wrong = [c for c, name, rq_ in signed if name != want[which]]
    ctx.prove(f"{tag}-uses-the-profile-of-the-request", I, z3.Or(*wrong) if wrong else FALSE, vars=vars_, replay=replay)


@vc("C05", "P4-router-encapsulation")
def router_encapsulation(ctx):
    _router_source(ctx, "shb-cam", Router.gn_data_request_shb, HeaderType.TSB, TopoBroadcastHST.SINGLE_HOP, SecurityProfile.COOPERATIVE_AWARENESS_MESSAGE)
    _router_source(ctx, "shb-vam", Router.gn_data_request_shb, HeaderType.TSB, TopoBroadcastHST.SINGLE_HOP, SecurityProfile.VRU_AWARENESS_MESSAGE)
    _router_source(ctx, "shb-generic", Router.gn_data_request_shb, HeaderType.TSB, TopoBroadcastHST.SINGLE_HOP, SecurityProfile.NO_SECURITY)
    _router_source(ctx, "gbc-denm", Router.gn_data_request_gbc, HeaderType.GEOBROADCAST, GeoBroadcastHST.GEOBROADCAST_CIRCLE,
                   SecurityProfile.DECENTRALIZED_ENVIRONMENTAL_NOTIFICATION_MESSAGE)
    ctx.bound("payload of 6 symbolic octets, signed message of 20 symbolic octets; SHB with CAM / VAM / generic profile, GBC with the DENM profile in both forwarding branches "
              "(area forwarding and greedy non-area forwarding, geometry and neighbours free)")
    ctx.stub("sign service returns an arbitrary secured message (its content is P1); location table / geometry as in C02")


# ---------------------------------------------------------------------------------------------- P5 learning a ticket from a message
@vc("C05", "P5-ticket-delivered-with-a-message-is-known-afterwards")
def learnt_ticket(ctx):
    """receiver side of 'accepted at once when the ticket is already known': the chain check of a certificate-signed message stores the
    ticket it accepted (chains of one and two certificates, arbitrary certificate contents and trust store)"""
    from .c09 import _chains
    _chains(ctx, True)
