"""C13 - LDM queries return exactly the matching objects (in-memory back-end; the TinyDB equivalence is not applicable, see DESIGN).

DictionaryDataBase.search / _filter_data / _get_nested, the operator table of ldm_constants and LDMService.order_search_results
are evaluated over a store of two heterogeneous records (type, optional containers and every leaf symbolic) and compared
with a brute-force predicate typed independently here."""
import ast
import z3
from ..values import Obj, Opaque, SBytes, SDict, SList, Guarded, Undefined
from ..interp import TRUE, FALSE
from ..runner import vc
from ..facil import cond_or, num_eq, val_eq, path_get, as_num
from ..ldmh import Ldm, Rec, TYPES, TYPE_ID, snapshot
from .c12 import enum_is, path_field

from flexstack.facilities.local_dynamic_map.dictionary_database import DictionaryDataBase
from flexstack.facilities.local_dynamic_map.ldm_service import LDMService
from flexstack.facilities.local_dynamic_map.if_ldm_4 import InterfaceLDM4
from flexstack.facilities.local_dynamic_map import ldm_classes as LC
from flexstack.facilities.local_dynamic_map import ldm_constants as K

CO = LC.ComparisonOperators
ROLES = ["default", "emergency"]


def body(rec, name):
    """content of the message under its type key; optional containers with symbolic presence"""
    I, t = rec.I, rec.tag
    if not hasattr(rec, "stype"):
        rec.stype = I.int_var(f"{t}_station_type", 0, 255)
        rec.has_lf = z3.Bool(f"{t}_has_low_frequency_container")
        rec.role = z3.Bool(f"{t}_role_is_emergency")
        rec.has_sit = z3.Bool(f"{t}_has_situation_container")
        rec.quality = I.int_var(f"{t}_information_quality", 0, 7)
    role = Guarded([(rec.role, "emergency"), (z3.Not(rec.role), "default")])
    if name in ("cam", "vam", "ivim"):
        return SDict([(TRUE, "generationDeltaTime", rec.payload, False),
                      (TRUE, "camParameters", SDict([(TRUE, "basicContainer", SDict([(TRUE, "stationType", rec.stype, False)]), False),
                                                     (rec.has_lf, "lowFrequencyContainer", SDict([(TRUE, "vehicleRole", role, False)]), False)]), False)])
    return SDict([(TRUE, "management", SDict([(TRUE, "stationType", rec.stype, False), (TRUE, "referenceTime", rec.payload, False)]), False),
                  (rec.has_sit, "situation", SDict([(TRUE, "informationQuality", rec.quality, False)]), False)])


def concrete_obj(rec, vals):
    t = rec.tag
    name = TYPES[vals[f"{t}_type"]]
    d = {"header": {"protocolVersion": 2, "messageId": 2, "stationId": vals[f"{t}_station"]}}
    if name in ("cam", "vam", "ivim"):
        p = {"basicContainer": {"stationType": vals[f"{t}_station_type"]}}
        if vals[f"{t}_has_low_frequency_container"]:
            p["lowFrequencyContainer"] = {"vehicleRole": "emergency" if vals[f"{t}_role_is_emergency"] else "default"}
        d[name] = {"generationDeltaTime": vals[f"{t}_payload"], "camParameters": p}
    else:
        d[name] = {"management": {"stationType": vals[f"{t}_station_type"], "referenceTime": vals[f"{t}_payload"]}}
        if vals[f"{t}_has_situation_container"]:
            d[name]["situation"] = {"informationQuality": vals[f"{t}_information_quality"]}
    return d


class QRec(Rec):
    def concrete_data_object(self, vals):
        return concrete_obj(self, vals)

    def vars(self):
        v = super().vars()
        v.update({x.decl().name(): x for x in (self.stype, self.has_lf, self.role, self.has_sit, self.quality)})
        return v


# attribute menu: path -> (presence condition, value, kind)
def attr_of(rec, path):
    is_t = lambda n: rec.type == TYPES.index(n)
    if path == "header.stationId":
        return TRUE, rec.station, "int"
    if path == "cam.generationDeltaTime":
        return is_t("cam"), rec.payload, "int"
    if path == "cam.camParameters.basicContainer.stationType":
        return is_t("cam"), rec.stype, "int"
    if path == "cam.camParameters.lowFrequencyContainer.vehicleRole":
        return z3.And(is_t("cam"), rec.has_lf), rec.role, "role"
    if path == "denm.situation.informationQuality":
        return z3.And(is_t("denm"), rec.has_sit), rec.quality, "int"
    raise KeyError(path)


def spec_match(rec, path, op, ref):
    """brute-force predicate: the attribute exists, is comparable with the reference value, and the comparison holds"""
    present, val, kind = attr_of(rec, path)
    if kind == "int":
        if isinstance(ref, str):
            # an int attribute never equals / contains a string; ordering against a string is not defined -> no match
            res = TRUE if op == CO.NOT_EQUAL else (TRUE if op == CO.NOT_LIKE else FALSE)
            return z3.And(present, res)
        res = {CO.EQUAL: val == ref, CO.NOT_EQUAL: val != ref, CO.GREATER_THAN: val > ref, CO.LESS_THAN: val < ref,
               CO.GREATER_THAN_OR_EQUAL: val >= ref, CO.LESS_THAN_OR_EQUAL: val <= ref, CO.LIKE: FALSE, CO.NOT_LIKE: TRUE}[op]
        return z3.And(present, res)
    # role string: "emergency" if val else "default"
    def for_str(s):
        if isinstance(ref, str):
            return {CO.EQUAL: s == ref, CO.NOT_EQUAL: s != ref, CO.GREATER_THAN: s > ref, CO.LESS_THAN: s < ref, CO.GREATER_THAN_OR_EQUAL: s >= ref,
                    CO.LESS_THAN_OR_EQUAL: s <= ref, CO.LIKE: ref in s, CO.NOT_LIKE: ref not in s}[op]
        return {CO.EQUAL: False, CO.NOT_EQUAL: True, CO.LIKE: str(ref) in s if not isinstance(ref, z3.ExprRef) else False,
                CO.NOT_LIKE: str(ref) not in s if not isinstance(ref, z3.ExprRef) else True}.get(op, False)
    return z3.And(present, z3.If(val, z3.BoolVal(bool(for_str("emergency"))), z3.BoolVal(bool(for_str("default")))))


def py_match(obj, path, op, ref):
    cur = obj
    for k in path.split("."):
        if not isinstance(cur, dict) or k not in cur:
            return False
        cur = cur[k]
    try:
        if op == CO.LIKE:
            return isinstance(cur, str) and str(ref) in cur
        if op == CO.NOT_LIKE:
            return not (isinstance(cur, str) and str(ref) in cur)
        return {CO.EQUAL: lambda: cur == ref, CO.NOT_EQUAL: lambda: cur != ref, CO.GREATER_THAN: lambda: cur > ref, CO.LESS_THAN: lambda: cur < ref,
                CO.GREATER_THAN_OR_EQUAL: lambda: cur >= ref, CO.LESS_THAN_OR_EQUAL: lambda: cur <= ref}[op]()
    except TypeError:
        return False


def member(I, objs, rec_d):
    def is_it(x):
        if isinstance(x, Guarded):            # a position of a symbolically sorted list: one of several original objects
            return z3.Or(*[z3.And(c, is_it(y)) for c, y in x.alts]) if x.alts else FALSE
        return z3.BoolVal(x is rec_d)

    def one(v):
        if isinstance(v, SList):
            return z3.Or(*[z3.And(I._lb(c), is_it(x)) for c, x in v.items]) if v.items else FALSE
        if isinstance(v, (tuple, list)):
            return z3.BoolVal(any(x is rec_d for x in v))
        return FALSE
    if isinstance(objs, Guarded):
        return z3.Or(*[z3.And(c, one(x)) for c, x in objs.alts if not isinstance(x, Undefined)])
    return one(objs)


def _filter_case(ctx, tag, types, st1, logic, st2):
    """st = (path, operator, 'int' | concrete reference)"""
    h = Ldm(body=body)
    h.recs = h.recs           # records were built with Rec; upgrade their class for replay / vars
    for r in h.recs:
        r.__class__ = QRec
    I = h.I
    refs = {}

    def mk(st, n):
        if st is None:
            return None
        path, op, ref = st
        if ref == "int":
            ref = I.int_var(f"ref{n}", -5, 4294967300)
            refs[f"ref{n}"] = ref
        return Obj(LC.FilterStatement, dict(attribute=path, operator=op, ref_value=ref)), (path, op, ref)
    f1, s1 = mk(st1, 1)
    f2, s2 = mk(st2, 2) if st2 else (None, None)
    flt = Obj(LC.Filter, dict(filter_statement_1=f1, logical_operator=logic, filter_statement_2=f2))
    req = Obj(LC.RequestDataObjectsReq, dict(application_id=2, data_object_type=types, priority=None, order=None, filter=flt))
    res = I.call_function(DictionaryDataBase.search, [h.db, req])
    exc = cond_or(c for c, _ in I.raises)
    vars_ = h.vars()
    vars_.update(refs)

    def want(r):
        m = spec_match(r, *s1)
        if s2 is not None:
            m2 = spec_match(r, *s2)
            m = z3.And(m, m2) if logic == LC.LogicalOperators.AND else z3.Or(m, m2)
        return m

    def replay(vals):
        db, maint, svc, if3, if4 = h.real(vals)
        c1 = (s1[0], s1[1], vals["ref1"] if "ref1" in refs else s1[2])
        c2 = None if s2 is None else (s2[0], s2[1], vals["ref2"] if "ref2" in refs else s2[2])
        fl = LC.Filter(LC.FilterStatement(*c1), logic, None if c2 is None else LC.FilterStatement(*c2))
        import io, contextlib
        with contextlib.redirect_stdout(io.StringIO()):
            try:
                got = db.search(LC.RequestDataObjectsReq(2, types, None, None, fl))
            except Exception as e:
                return True, f"{tag}: search raised {type(e).__name__}: {e}"
        names = [K.DATA_OBJECT_TYPE_ID[t] for t in types]
        exp = []
        for k_, v in sorted(db.database.items()):
            o = v["dataObject"]
            if not any(n in o for n in names):
                continue
            m = py_match(o, *c1)
            if c2 is not None:
                m2 = py_match(o, *c2)
                m = (m and m2) if logic == LC.LogicalOperators.AND else (m or m2)
            if m:
                exp.append(v)
        bad = sorted(map(repr, got)) != sorted(map(repr, exp))
        return bad, f"{tag}: filter {c1} {str(logic) if logic is not None else ''} {c2 or ''} over types {names}: returned {[g['dataObject'] for g in got]}, a brute-force predicate selects {[g['dataObject'] for g in exp]}"
    strong = z3.And(z3.Not(exc), h.present[0], h.present[1], member(I, res, h.recs[0].d), z3.Not(member(I, res, h.recs[1].d)))
    s_ = z3.Solver()
    s_.add(*I.assumptions)
    s_.add(want(h.recs[0]), z3.Not(want(h.recs[1])))
    if s_.check() == z3.sat:         # the filter can tell two objects apart: the witness must show one selected, one not
        ctx.witness(f"{tag}-reach-one-match", I, strong, vars=vars_)
    else:
        ctx.witness(f"{tag}-reach", I, z3.And(z3.Not(exc), h.present[0], h.present[1]), vars=vars_)
    ctx.prove(f"{tag}-no-exception", I, exc, vars=vars_, replay=replay)
    bad = []
    for i, r in enumerate(h.recs):
        sel = z3.And(h.present[i], z3.Or(*[r.type_id() == t for t in types]), want(r))
        bad.append(member(I, res, r.d) != sel)
    ctx.prove(f"{tag}-result-equals-predicate", I, z3.Or(*bad), vars=vars_, replay=replay,
              desc="the search returns exactly the stored objects of the requested types for which the filter is true; an object lacking the attribute just does not match")


OPS = [CO.EQUAL, CO.NOT_EQUAL, CO.GREATER_THAN, CO.LESS_THAN, CO.GREATER_THAN_OR_EQUAL, CO.LESS_THAN_OR_EQUAL, CO.LIKE, CO.NOT_LIKE]
AND, OR = LC.LogicalOperators.AND, LC.LogicalOperators.OR


@vc("C13", "Q1-single-statement-operators")
def single(ctx):
    """each of the 8 operators on an integer attribute every object has (header.stationId), heterogeneous store"""
    for op in OPS:
        _filter_case(ctx, f"stationId{op!s}", (2, 1, 16), ("header.stationId", op, "int"), None, None)
    ctx.bound("two stored records, each of any type in {cam, denm, vam, ivim} with symbolic leaves; reference value any integer -5..2^32+4")


@vc("C13", "Q1-type-specific-attribute")
def type_specific(ctx):
    """an attribute only CAMs have, requested types CAM only and CAM+DENM (objects lacking the attribute must simply not match)"""
    ops = OPS if ctx.tier == "thorough" else [CO.EQUAL, CO.GREATER_THAN_OR_EQUAL, CO.NOT_EQUAL]
    for op in ops:
        _filter_case(ctx, f"cam-only[{op!s}]", (2,), ("cam.generationDeltaTime", op, "int"), None, None)
        _filter_case(ctx, f"cam+denm[{op!s}]", (2, 1), ("cam.generationDeltaTime", op, "int"), None, None)
    ctx.bound("attribute path cam.generationDeltaTime over a store that may hold DENM / VAM / IVIM objects as well")


@vc("C13", "Q1-optional-container-and-strings")
def optional_container(ctx):
    ops = [(CO.EQUAL, "emergency"), (CO.LIKE, "emerg"), (CO.NOT_LIKE, "emerg"), (CO.NOT_EQUAL, "default")]
    if ctx.tier == "thorough":
        ops += [(CO.LIKE, "e"), (CO.NOT_LIKE, "default"), (CO.EQUAL, "default"), (CO.LIKE, 5)]
    for op, ref in ops:
        _filter_case(ctx, f"vehicleRole[{op!s} {ref!r}]", (2,), ("cam.camParameters.lowFrequencyContainer.vehicleRole", op, ref), None, None)
    _filter_case(ctx, "informationQuality[>=]", (1,), ("denm.situation.informationQuality", CO.GREATER_THAN_OR_EQUAL, "int"), None, None)
    ctx.bound("string attribute inside an optional container (symbolic presence, value from {default, emergency}); reference strings from a menu")


@vc("C13", "Q1-reference-of-other-type")
def type_mismatch(ctx):
    """reference value whose type does not match the attribute: the object does not match, nothing else is affected"""
    for op in ([CO.LESS_THAN, CO.EQUAL, CO.NOT_EQUAL] if ctx.tier == "quick" else OPS):
        _filter_case(ctx, f"int-attribute-vs-string[{op!s}]", (2, 1, 16), ("header.stationId", op, "abc"), None, None)
    ctx.bound("integer attribute compared with the string 'abc'")


@vc("C13", "Q2-two-statements")
def two_statements(ctx):
    cases = [(AND, CO.GREATER_THAN_OR_EQUAL, CO.LESS_THAN), (OR, CO.EQUAL, CO.GREATER_THAN)]
    if ctx.tier == "thorough":
        cases += [(AND, CO.NOT_EQUAL, CO.LESS_THAN_OR_EQUAL), (OR, CO.LESS_THAN, CO.NOT_EQUAL), (AND, CO.EQUAL, CO.EQUAL), (OR, CO.GREATER_THAN_OR_EQUAL, CO.LIKE)]
    for logic, o1, o2 in cases:
        _filter_case(ctx, f"stationId{o1!s}-{logic!s}-gdt{o2!s}", (2,), ("header.stationId", o1, "int"), logic, ("cam.generationDeltaTime", o2, "int"))
        _filter_case(ctx, f"mixed-types-stationId{o1!s}-{logic!s}-stationType{o2!s}", (2, 1), ("header.stationId", o1, "int"), logic,
                     ("cam.camParameters.basicContainer.stationType", o2, "int"))
    ctx.bound("two comparisons joined by and / or; second attribute CAM-specific, store heterogeneous")


# ---------------------------------------------------------------------------------------------- ordering
@vc("C13", "Q3-ordering")
def ordering(ctx):
    """LDMService.order_search_results over three CAM records with symbolic keys: sorted by the requested attributes and directions, stable"""
    from ..calls import make
    ASC, DESC = LC.OrderingDirection.ASCENDING, LC.OrderingDirection.DESCENDING
    menus = [((ASC,), "asc"), ((DESC,), "desc"), ((ASC, ASC), "asc-asc"), ((DESC, DESC), "desc-desc"), ((ASC, DESC), "asc-desc"), ((DESC, ASC), "desc-asc")]
    for dirs, tag in menus:
        I = make("int")
        n = 3
        a = [I.int_var(f"station_type{i}", 0, 255) for i in range(n)]
        b = [I.int_var(f"gdt{i}", 0, 65535) for i in range(n)]
        recs = [SDict([(TRUE, "dataObject", SDict([(TRUE, "header", SDict([(TRUE, "stationId", i, False)]), False),
                                                  (TRUE, "cam", SDict([(TRUE, "generationDeltaTime", b[i], False),
                                                                       (TRUE, "camParameters", SDict([(TRUE, "basicContainer", SDict([(TRUE, "stationType", a[i], False)]), False)]), False)]), False)]), False)])
                for i in range(n)]
        attrs = ["stationType", "generationDeltaTime"][:len(dirs)]
        orders = tuple(Obj(LC.OrderTupleValue, dict(attribute=at, ordering_direction=d)) for at, d in zip(attrs, dirs))
        svc = Obj(LDMService, dict())
        out = I.call_function(LDMService.order_search_results, [svc, tuple(recs), orders])
        exc = cond_or(c for c, _ in I.raises)
        seq = out[0]
        items = [x for _, x in seq.items] if isinstance(seq, SList) else list(seq)
        vars_ = {t.decl().name(): t for t in a + b}
        keyvars = [a, b]

        def key_of(item):
            """(key terms per order tuple, original index) of a result item, as ite over identity"""
            return item

        # position p holds record pos[p]; express through the symbolic keys of the returned (merged) objects
        def leaf(item, at):
            d = path_get(I, item, "dataObject", "cam")
            return path_get(I, d, "camParameters", "basicContainer", "stationType") if at == "stationType" else path_get(I, d, "generationDeltaTime")
        n0 = len(I.raises)
        sid = [path_get(I, it, "dataObject", "header", "stationId") for it in items]
        ks = [[leaf(it, at) for at in attrs] for it in items]
        del I.raises[n0:]
        # sortedness: consecutive items in non-strict lexicographic order w.r.t. directions; ties keep insertion order (stability)
        unsorted = []
        for p in range(len(items) - 1):
            lt = FALSE          # strictly before
            eq = TRUE
            for j, d in reversed(list(enumerate(dirs))):
                x, y = as_num(I, ks[p][j]), as_num(I, ks[p + 1][j])
                before = (x < y) if d == ASC else (x > y)
                lt = z3.Or(before, z3.And(x == y, lt))
                eq = z3.And(x == y, eq) if j == len(dirs) - 1 else eq
            alleq = z3.And(*[as_num(I, ks[p][j]) == as_num(I, ks[p + 1][j]) for j in range(len(dirs))])
            unsorted.append(z3.Not(z3.Or(lt, z3.And(alleq, as_num(I, sid[p]) < as_num(I, sid[p + 1])))))
        perm = z3.Not(z3.And(*[z3.Or(*[as_num(I, s) == i for s in sid]) for i in range(n)])) if len(items) == n else TRUE

        def replay(vals, dirs=dirs, attrs=attrs):
            rs = [{"dataObject": {"header": {"stationId": i}, "cam": {"generationDeltaTime": vals[f"gdt{i}"],
                                                                    "camParameters": {"basicContainer": {"stationType": vals[f"station_type{i}"]}}}}} for i in range(n)]
            got = LDMService.order_search_results(LDMService.__new__(LDMService), tuple(rs), tuple(LC.OrderTupleValue(at, d) for at, d in zip(attrs, dirs)))[0]

            def kf(r):
                v = [r["dataObject"]["cam"]["camParameters"]["basicContainer"]["stationType"], r["dataObject"]["cam"]["generationDeltaTime"]][:len(dirs)]
                return tuple(x if d == ASC else -x for x, d in zip(v, dirs))
            exp = sorted(rs, key=kf)
            g = [r["dataObject"]["header"]["stationId"] for r in got]
            e = [r["dataObject"]["header"]["stationId"] for r in exp]
            return g != e, f"order by {list(zip(attrs, [str(d) for d in dirs]))}: keys {[kf(r) for r in rs]} returned in order {g}, expected {e}"
        ctx.witness(f"{tag}-reach", I, z3.And(z3.Not(exc), a[0] != a[1], a[1] != a[2]), vars=vars_)
        ctx.prove(f"{tag}-no-exception", I, exc, vars=vars_, replay=replay)
        ctx.prove(f"{tag}-is-a-permutation", I, perm, vars=vars_, replay=replay)
        ctx.prove(f"{tag}-sorted-by-attributes-and-directions", I, z3.Or(*unsorted) if unsorted else FALSE, vars=vars_, replay=replay,
                  desc="consecutive results are ordered lexicographically by the requested attributes, each in its own direction; equal keys keep store order")
    ctx.bound("three objects with symbolic ordering keys (stationType 0..255, generationDeltaTime 0..65535); one or two order tuples, every direction combination")


# ---------------------------------------------------------------------------------------------- Q5 the store a request is answered from
@vc("C13", "Q5-insert-keeps-the-stored-objects")
def insert_keeps(ctx):
    """DictionaryDataBase.insert from an arbitrary store (objects under arbitrary distinct ids below the allocator, as any history of inserts and removals
    leaves it): the new object is stored under a fresh id and every object stored before is still there - 'exactly those stored objects' presupposes that
    storing one object never replaces another"""
    h = Ldm(body=body)
    I = h.I
    new = Rec(I, "new", body)
    rid = I.call_function(DictionaryDataBase.insert, [h.db, new.d])
    exc = cond_or(c for c, _ in I.raises)
    vars_ = h.vars()
    vars_.update(new.vars())

    def replay(vals):
        db, maint, svc, if3, if4 = h.real(vals)
        import copy
        before = copy.deepcopy(db.database)
        rec = new.concrete(vals)
        got = db.insert(rec)
        bad = [f"object stored under id {k} was replaced / dropped" for k, v in before.items() if db.database.get(k) != v or got == k]
        if db.database.get(got) != rec:
            bad.append(f"the new object is not stored under the returned id {got}")
        return bool(bad), f"insert into a store with ids {sorted(before)} (allocator {vals['next_id']}) returned {got}: " + ("; ".join(bad) or "nothing lost")
    ctx.witness("insert-reach-store-with-a-gap", I, z3.And(z3.Not(exc), h.present[1], z3.Not(h.present[0]), h.keys[1] == 1, h.next_id == 2), vars=vars_,
                validate=lambda v: not replay(v)[0])
    ctx.prove("insert-no-exception", I, exc, vars=vars_, replay=replay)
    ctx.prove("insert-keeps-every-stored-object", I, z3.Or(*[z3.Not(h.record_unchanged(i)) for i in range(len(h.recs))]), vars=vars_, replay=replay,
              desc="every object stored before the insert is still stored under its id with identical content (also after removals left gaps below the allocator)")
    f, v = h.lookup(I.num(rid))
    ctx.prove("insert-stores-the-new-object-under-a-fresh-id", I, z3.Or(z3.Not(f), z3.Not(I._lb(I.equal(v, new.d))),
                                                                        *[z3.And(h.present[i], I.num(rid) == h.keys[i]) for i in range(len(h.recs))]), vars=vars_, replay=replay)
    ctx.bound("store of up to two objects under arbitrary distinct ids below the allocator (representation invariant of C12); one insert")

