"""C11 - facility messages faithfully encode the sensor input they were built from.

Sensor -> data-element mappings are evaluated in binary64 (QF_BVFP: int(x*scale) is the double computation followed by
truncation).  Two oracles: (1) every leaf of the message handed to the coder lies inside the constraint that the
repository's own compiled ASN.1 gives its data element (vf/asn.py), (2) an independently typed mapping table
(TS 102 894-2 data-element definitions) for value / outOfRange / unavailable codes."""
import ast
import types
import z3
from ..calls import make
from ..values import Obj, Opaque, SBytes, SDict, SList, Guarded, Undefined
from ..interp import TRUE, FALSE, Frame
from ..runner import vc
from ..facil import logger, Clock, path_get, path_has, cond_or, num_eq, val_eq, val_cmp
from .. import asn

import flexstack.facilities.ca_basic_service.cam_transmission_management as CTM
from flexstack.facilities.ca_basic_service.cam_transmission_management import (CooperativeAwarenessMessage, GenerationDeltaTime, VehicleData,
                                                                               CAMTransmissionManagement)
import flexstack.facilities.vru_awareness_service.vam_transmission_management as VTM
from flexstack.facilities.vru_awareness_service.vam_transmission_management import VAMMessage, DeviceDataProvider
from flexstack.applications.road_hazard_signalling_service.emergency_vehicle_approaching_service import EmergencyVehicleApproachingService
from flexstack.utils.time_service import TimeService, ITS_EPOCH_MS, ELAPSED_MILLISECONDS

F64 = z3.Float64()
RNE, RTZ = z3.RNE(), z3.RTZ()
KEYS = ["lat", "lon", "epx", "epy", "altHAE", "epv", "track", "epd", "speed"]
RANGES = dict(lat=(-90, 90), lon=(-180, 180), epx=(0, 500), epy=(0, 500), altHAE=(-1000, 10000), epv=(0, 500), track=(0, 360),
              epd=(0, 500), speed=(0, 200))
ALT_CONF = [(0.01, "alt-000-01"), (0.02, "alt-000-02"), (0.05, "alt-000-05"), (0.1, "alt-000-10"), (0.2, "alt-000-20"), (0.5, "alt-000-50"),
            (1.0, "alt-001-00"), (2.0, "alt-002-00"), (5.0, "alt-005-00"), (10.0, "alt-010-00"), (20.0, "alt-020-00"), (50.0, "alt-050-00"),
            (100.0, "alt-100-00"), (200.0, "alt-200-00")]


def fpc(x):
    return z3.FPVal(float(x), F64)


def scaled(I, x, k):
    """spec: trunc(fl(x*k)) as a W-bit signed integer"""
    return z3.fpToSBV(RTZ, z3.fpMul(RNE, x, fpc(k)), z3.BitVecSort(I.W))


def bvmin(a, b):
    return z3.If(a <= b, a, b)


def bvmax(a, b):
    return z3.If(a >= b, a, b)


class Report:
    """a gpsd-style TPV report with every subset of optional keys, values over the property's ranges (binary64)"""

    def __init__(self, I, with_time=True):
        self.I = I
        self.has = {k: z3.Bool("has_" + k) for k in KEYS}
        self.val = {k: I.float_var(k, *RANGES[k]) for k in KEYS}
        log = [(self.has[k], k, self.val[k], False) for k in KEYS]
        self.ts = I.float_var("report_unix_time", 1.1e9, 2.2e9)
        self.has_time = z3.Bool("has_time") if with_time else FALSE
        if with_time:
            log.append((self.has_time, "time", Opaque("str"), False))
            parsed = Opaque("datetime")
            I.stubs[id(parsed)] = lambda it, name, a, k, pc: self.ts
            I.stubs[CTM.parser.parse] = lambda it, a, k, pc: parsed
        self.tpv = SDict(log)

    def vars(self):
        v = {"has_" + k: b for k, b in self.has.items()}
        v.update(self.val)
        v["report_unix_time"] = self.ts
        if self.has_time is not FALSE:
            v["has_time"] = self.has_time
        return v

    def concrete(self, vals):
        import datetime
        tpv = {k: vals[k] for k in KEYS if vals["has_" + k]}
        if vals.get("has_time"):
            tpv["time"] = datetime.datetime.fromtimestamp(vals["report_unix_time"], datetime.timezone.utc).isoformat()
        return tpv


# ---------------------------------------------------------------------------------------------- the mapping table (oracle)
def spec_fields(I, rep, kind):
    """expected (condition-of-being-written, expected value term or python constant) per data element path"""
    v, has = rep.val, rep.has
    W = I.W
    c = lambda n: z3.BitVecVal(n, W)
    sx, sy = bvmin(scaled(I, v["epx"], 100), c(4094)), bvmin(scaled(I, v["epy"], 100), c(4094))
    alt = scaled(I, v["altHAE"], 100)
    alt = z3.If(alt < c(-100000), c(-100000), z3.If(alt > c(800000), c(800000), alt))
    hconf = z3.If(z3.fpLEQ(v["epd"], fpc(12.5)), bvmax(c(1), scaled(I, v["epd"], 10)), c(126))
    spd = bvmin(scaled(I, v["speed"], 100), c(16382))
    out = {
        "latitude": (has["lat"], scaled(I, v["lat"], 10000000)),
        "longitude": (has["lon"], scaled(I, v["lon"], 10000000)),
        "altitudeValue": (has["altHAE"], alt),
        "headingValue": (has["track"], scaled(I, v["track"], 10)),
        "headingConfidence": (has["epd"], hconf),
        "speedValue": (has["speed"], spd),
    }
    both = z3.And(has["epx"], has["epy"])
    if kind == "CAM":      # the CA service reports the larger estimate as the major axis
        out["semiMajor"] = (both, bvmax(sx, sy))
        out["semiMinor"] = (both, bvmin(sx, sy))
    else:
        out["semiMajor"] = (both, sx)
        out["semiMinor"] = (both, sy)
    return out


def alt_conf_ok(I, epv, got):
    """the reported altitude confidence bracket is sound (bound >= epv) and tight (the next smaller bracket is < epv... or equal)"""
    conds = []
    prev = None
    alts = got.alts if isinstance(got, Guarded) else [(TRUE, got)]
    names = {n: i for i, (_, n) in enumerate(ALT_CONF)}
    for cnd, name in alts:
        if isinstance(name, Undefined):
            continue
        if name in names:
            i = names[name]
            ok = z3.fpLEQ(epv, fpc(ALT_CONF[i][0]))
            if i > 0:
                ok = z3.And(ok, z3.fpGEQ(epv, fpc(ALT_CONF[i - 1][0])))
        elif name == "outOfRange":
            ok = z3.fpGEQ(epv, fpc(200.0))
        else:
            ok = FALSE                     # 'unavailable' or anything else for a present estimate
        conds.append(z3.And(cnd, ok))
    return z3.Or(*conds) if conds else FALSE


def py_spec(tpv, kind):
    """the same table on concrete python floats (used by replays against the real coder)"""
    out = {}
    t = lambda x, k: int(x * k)
    if "lat" in tpv:
        out["latitude"] = t(tpv["lat"], 10000000)
    if "lon" in tpv:
        out["longitude"] = t(tpv["lon"], 10000000)
    if "epx" in tpv and "epy" in tpv:
        sx, sy = min(t(tpv["epx"], 100), 4094), min(t(tpv["epy"], 100), 4094)
        out["semiMajor"], out["semiMinor"] = (max(sx, sy), min(sx, sy)) if kind == "CAM" else (sx, sy)
    if "altHAE" in tpv:
        out["altitudeValue"] = max(-100000, min(800000, t(tpv["altHAE"], 100)))
    if "track" in tpv:
        out["headingValue"] = t(tpv["track"], 10)
    if "epd" in tpv:
        out["headingConfidence"] = max(1, t(tpv["epd"], 10)) if tpv["epd"] <= 12.5 else 126
    if "speed" in tpv:
        out["speedValue"] = min(t(tpv["speed"], 100), 16382)
    return out


def extract(kind, msg):
    """data elements of a (decoded) CAM / VAM in the table's vocabulary"""
    if kind == "CAM":
        p = msg["cam"]["camParameters"]
        hf = p["highFrequencyContainer"][1]
        hv, hc = hf["heading"]["headingValue"], hf["heading"]["headingConfidence"]
    else:
        p = msg["vam"]["vamParameters"]
        hf = p["vruHighFrequencyContainer"]
        hv, hc = hf["heading"]["value"], hf["heading"]["confidence"]
    rp = p["basicContainer"]["referencePosition"]
    return {"latitude": rp["latitude"], "longitude": rp["longitude"], "semiMajor": rp["positionConfidenceEllipse"]["semiMajorAxisLength"],
            "semiMinor": rp["positionConfidenceEllipse"]["semiMinorAxisLength"], "altitudeValue": rp["altitude"]["altitudeValue"],
            "altitudeConfidence": rp["altitude"]["altitudeConfidence"], "headingValue": hv, "headingConfidence": hc,
            "speedValue": hf["speed"]["speedValue"]}


def real_message(kind, vals, rep):
    """build the message with the real classes, push it through the real UPER coder and decode it again"""
    tpv = rep.concrete(vals)
    err = None
    decoded = None
    built = None
    try:
        if kind == "CAM":
            m = CooperativeAwarenessMessage()
            m.fullfill_with_vehicle_data(VehicleData(station_id=7, station_type=5))
            m.fullfill_with_tpv_data(tpv)
            coder, built = asn.compiled("CAM")[0], m.cam
        else:
            m = VAMMessage()
            m.fullfill_with_device_data(DeviceDataProvider(station_id=7, station_type=1))
            m.fullfill_with_tpv_data(tpv)
            coder, built = asn.compiled("VAM")[0], m.vam
        decoded = coder.decode(coder.encode(built))
    except Exception as e:          # noqa: building the message from a report, or encoding it, failed
        err = e
    return tpv, built, decoded, err


def replay_mapping(kind, rep):
    def f(vals):
        tpv, built, decoded, err = real_message(kind, vals, rep)
        if err is not None:
            return True, f"{kind} for report {tpv}: building / encoding the message raised {type(err).__name__}: {err}"
        want = py_spec(tpv, kind)
        got = extract(kind, decoded)
        bad = [f"{k}: decoded {got[k]}, expected {w}" for k, w in want.items() if got[k] != w]
        if "epv" in tpv:
            names = dict((n, b) for b, n in ALT_CONF)
            ac = got["altitudeConfidence"]
            ok = (ac in names and tpv["epv"] <= names[ac]) or (ac == "outOfRange" and tpv["epv"] >= 200)
            if not ok:
                bad.append(f"altitudeConfidence {ac} for epv {tpv['epv']}")
        bad += asn.concrete_violations(kind, built)
        return bool(bad), f"{kind} for report {tpv}: " + ("; ".join(bad) or "decodes to the table values")
    return f


def _mapping_vc(ctx, kind):
    I = make("bv", 64, fmode="fp")
    rep = Report(I)
    if kind == "CAM":
        msg = I.instantiate(CooperativeAwarenessMessage, [], {}, TRUE)
        vd = VehicleData(station_id=7, station_type=5)
        I.call_function(CooperativeAwarenessMessage.fullfill_with_vehicle_data, [msg, vd])
        I.call_function(CooperativeAwarenessMessage.fullfill_with_tpv_data, [msg, rep.tpv])
        top = msg.fields["cam"]
        params = path_get(I, top, "cam", "camParameters")
        hf = I.container_get(path_get(I, params, "highFrequencyContainer"), 1, TRUE)
        heading = (path_get(I, hf, "heading", "headingValue"), path_get(I, hf, "heading", "headingConfidence"))
        gdt = path_get(I, top, "cam", "generationDeltaTime")
    else:
        msg = I.instantiate(VAMMessage, [], {}, TRUE)
        I.call_function(VAMMessage.fullfill_with_device_data, [msg, DeviceDataProvider(station_id=7, station_type=1)])
        I.call_function(VAMMessage.fullfill_with_tpv_data, [msg, rep.tpv])
        top = msg.fields["vam"]
        params = path_get(I, top, "vam", "vamParameters")
        hf = path_get(I, params, "vruHighFrequencyContainer")
        heading = (path_get(I, hf, "heading", "value"), path_get(I, hf, "heading", "confidence"))
        gdt = path_get(I, top, "vam", "generationDeltaTime")
    exc = cond_or(c for c, _ in I.raises)
    n0 = len(I.raises)
    rp = path_get(I, params, "basicContainer", "referencePosition")
    got = {"latitude": path_get(I, rp, "latitude"), "longitude": path_get(I, rp, "longitude"),
           "semiMajor": path_get(I, rp, "positionConfidenceEllipse", "semiMajorAxisLength"),
           "semiMinor": path_get(I, rp, "positionConfidenceEllipse", "semiMinorAxisLength"),
           "altitudeValue": path_get(I, rp, "altitude", "altitudeValue"), "headingValue": heading[0], "headingConfidence": heading[1],
           "speedValue": path_get(I, hf, "speed", "speedValue")}
    altc = path_get(I, rp, "altitude", "altitudeConfidence")
    del I.raises[n0:]
    vars_ = rep.vars()
    replay = replay_mapping(kind, rep)
    ctx.witness("reach-all-fields-present", I, z3.And(*rep.has.values(), z3.Not(exc)), vars=vars_, validate=lambda v: True)
    ctx.prove("no-exception", I, exc, vars=vars_, replay=replay, desc="no report (any subset of optional keys, any value in range) makes message filling raise")
    # (1) ASN.1 conformance of every leaf, constraints read from the repository's compiled ASN.1
    cf = asn.Conformance(I)
    cf.check(top, asn.compiled(kind)[1])
    by_path = {}
    for c, p, m in cf.bad:
        by_path.setdefault(p, []).append(c)
    for p, cs in sorted(by_path.items()):
        ctx.prove(f"asn1-constraint{p}", I, z3.Or(*cs), vars=vars_, replay=replay,
                  desc=f"value written to {p} always lies inside its ASN.1 constraint / has the right shape")
    ctx.bound(f"{cf.leaves} leaves of the {kind} checked against the compiled ASN.1 type tree")
    # (2) mapping table
    spec = spec_fields(I, rep, kind)
    for name, (present, want) in spec.items():
        ctx.prove(f"mapping-{name}", I, z3.And(present, z3.Not(num_eq(I, got[name], want))), vars=vars_, replay=replay,
                  desc=f"{name} = truncated scaled measurement inside the representable range, the element's outOfRange code outside")
    ctx.prove("mapping-altitudeConfidence", I, z3.And(rep.has["epv"], z3.Not(alt_conf_ok(I, rep.val["epv"], altc))), vars=vars_, replay=replay,
              desc="altitude confidence bracket is the smallest one covering epv (boundary values may take either neighbour), outOfRange above 200 m")
    # absent keys leave the 'unavailable' defaults
    white = {"latitude": 900000001, "longitude": 1800000001, "altitudeValue": 800001, "headingValue": 3601, "headingConfidence": 127, "speedValue": 16383,
             "semiMajor": 4095, "semiMinor": 4095}
    for name, (present, want) in spec.items():
        ctx.prove(f"absent-{name}-stays-unavailable", I, z3.And(z3.Not(present), z3.Not(num_eq(I, got[name], white[name]))), vars=vars_, replay=replay)
    # generationDeltaTime from the report time
    ms = z3.fpToSBV(RNE, z3.fpMul(RNE, rep.ts, fpc(1000)), z3.BitVecSort(I.W))
    want_gdt = (ms - z3.BitVecVal(ITS_EPOCH_MS - ELAPSED_MILLISECONDS, I.W)) & z3.BitVecVal(65535, I.W)
    ctx.prove("generation-delta-time", I, z3.And(rep.has_time, z3.Not(num_eq(I, gdt, want_gdt))), vars=vars_, replay=replay,
              desc="generationDeltaTime = (round(report time in ms) - ITS epoch + leap offset) mod 65536")
    ctx.bound("report: every subset of {lat, lon, epx, epy, altHAE, epv, track, epd, speed, time}; lat -90..90, lon -180..180, altHAE -1000..10000 m, "
              "speed 0..200 m/s, track 0..360, error estimates 0..500, all binary64 values (QF_BVFP), report time 2004..2039")
    ctx.stub("dateutil.parser.parse(...).timestamp() -> arbitrary binary64 in range; UPER bit packing itself outside (replays push the witness through the real coder)")


@vc("C11", "E1-cam-report-mapping")
def cam_mapping(ctx):
    """CooperativeAwarenessMessage.fullfill_with_vehicle_data + fullfill_with_tpv_data"""
    _mapping_vc(ctx, "CAM")


@vc("C11", "E1-vam-report-mapping")
def vam_mapping(ctx):
    """VAMMessage.fullfill_with_device_data + fullfill_with_tpv_data"""
    _mapping_vc(ctx, "VAM")


# ---------------------------------------------------------------------------------------------- E2 generation time reconstruction
@vc("C11", "E2-generation-time-reconstruction")
def gdt_reconstruct(ctx):
    """GenerationDeltaTime.as_timestamp_in_certain_point: the receiver recovers the absolute generation time of a message younger than 65 s"""
    I = make("int")
    tgen = I.int_var("generation_unix_ms", 1100000000000, 2200000000000)
    age = I.int_var("age_ms", 0, 65000)
    now = tgen + age
    gdt = (tgen - ITS_EPOCH_MS + ELAPSED_MILLISECONDS) % 65536
    g = Obj(GenerationDeltaTime, dict(msec=gdt))
    r = I.call_function(GenerationDeltaTime.as_timestamp_in_certain_point, [g, now])
    exc = cond_or(c for c, _ in I.raises)
    vars_ = {"generation_unix_ms": tgen, "age_ms": age}

    def replay(vals):
        t, a = vals["generation_unix_ms"], vals["age_ms"]
        gd = GenerationDeltaTime(msec=(t - ITS_EPOCH_MS + ELAPSED_MILLISECONDS) % 65536)
        got = gd.as_timestamp_in_certain_point(t + a)
        return got != t, f"message generated at {t} ms (generationDeltaTime {gd.msec}), received {a} ms later: reconstructed {got}"
    ctx.witness("reach", I, z3.And(z3.Not(exc), age > 1000), vars=vars_, validate=lambda v: not replay(v)[0])
    ctx.prove("no-exception", I, exc, vars=vars_, replay=replay)
    ctx.prove("reconstructs-generation-time", I, z3.Not(num_eq(I, r, tgen)), vars=vars_, replay=replay,
              desc="for every generation time 2004..2039 and every age 0..65 s the reconstructed absolute time equals the generation time")
    # arbitrary (msec, now): result congruent, not in the future, less than one cycle old
    I2 = make("int")
    ms = I2.int_var("msec", 0, 65535)
    now2 = I2.int_var("now_unix_ms", 1100000000000, 2200000000000)
    r2 = I2.call_function(GenerationDeltaTime.as_timestamp_in_certain_point, [Obj(GenerationDeltaTime, dict(msec=ms)), now2])
    r2 = I2.num(r2) if not isinstance(r2, Guarded) else r2
    bad = z3.Not(z3.Or(*[z3.And(c, (I2.num(x) - ITS_EPOCH_MS + ELAPSED_MILLISECONDS) % 65536 == ms, I2.num(x) <= now2, I2.num(x) > now2 - 65536)
                         for c, x in (r2.alts if isinstance(r2, Guarded) else [(TRUE, r2)])]))
    ctx.prove("congruent-not-future-within-one-cycle", I2, bad, vars={"msec": ms, "now_unix_ms": now2},
              replay=lambda v: ((lambda x: not ((x - ITS_EPOCH_MS + ELAPSED_MILLISECONDS) % 65536 == v["msec"] and v["now_unix_ms"] - 65536 < x <= v["now_unix_ms"]))(
                  GenerationDeltaTime(msec=v["msec"]).as_timestamp_in_certain_point(v["now_unix_ms"])), "reconstructed time not congruent / in the future / older than one cycle"))
    ctx.bound("generation time every millisecond 2004-11..2039-09, age 0..65000 ms; the division by 65536 is exact in binary64 (power of two), evaluated over the reals")


@vc("C11", "E2-receiver-stamps-the-reconstructed-generation-time")
def gdt_reception(ctx):
    """CAMReceptionManagement.reception_callback: the CAM handed to the LDM and to the applications carries utc_timestamp = the absolute
    generation time reconstructed from generationDeltaTime and the receiver's clock (Unix milliseconds)"""
    from flexstack.facilities.ca_basic_service.cam_reception_management import CAMReceptionManagement
    I = make("int")
    tgen = I.int_var("generation_unix_ms", 1100000000000, 2200000000000)
    age = I.int_var("age_ms", 0, 65000)
    sub = I.int_var("clock_sub_ms_in_us", 0, 999)          # the receiver's clock is not aligned to the millisecond
    I.stubs[TimeService.time] = lambda it, a, k, pc: (z3.ToReal(tgen + age) * 1000 + z3.ToReal(sub)) / 1000000
    gdt = (tgen - ITS_EPOCH_MS + ELAPSED_MILLISECONDS) % 65536
    cam = SDict([(TRUE, "header", SDict([(TRUE, "stationId", 7, False)]), False), (TRUE, "cam", SDict([(TRUE, "generationDeltaTime", gdt, False)]), False)])
    coder, ldm, app = Opaque("coder"), Opaque("ca_basic_service_ldm"), Opaque("application_callback")
    got = []
    I.stubs[id(coder)] = lambda it, name, a, k, pc: cam
    I.stubs[id(ldm)] = lambda it, name, a, k, pc: got.append((pc, "ldm", a[0]))

    def app_cb(x):
        raise AssertionError("never executed")
    I.stubs[app_cb] = lambda it, a, k, pc: got.append((pc, "application", a[0]))
    log = logger(I)
    o = Obj(CAMReceptionManagement, dict(logging=log, cam_coder=coder, btp_router=None, ca_basic_service_ldm=ldm, _application_callbacks=SList([(TRUE, app_cb)])))
    ind = Opaque("btp_indication")
    ind.attrs = {"data": b"\x00"}
    I.call_function(CAMReceptionManagement.reception_callback, [o, ind])
    exc = cond_or(c for c, _ in I.raises)
    vars_ = {"generation_unix_ms": tgen, "age_ms": age, "clock_sub_ms_in_us": sub}

    def replay(vals):
        from unittest import mock
        t, a_, u = vals["generation_unix_ms"], vals["age_ms"], vals["clock_sub_ms_in_us"]
        msec = (t - ITS_EPOCH_MS + ELAPSED_MILLISECONDS) % 65536
        coder_, ldm_ = mock.Mock(), mock.Mock()
        coder_.decode.return_value = {"header": {"stationId": 7}, "cam": {"generationDeltaTime": msec}}
        seen = []
        rm = CAMReceptionManagement(coder_, mock.Mock(), ldm_)
        rm.add_application_callback(lambda c: seen.append(("application", c.get("utc_timestamp"))))
        ldm_.add_provider_data_to_ldm.side_effect = lambda c: seen.append(("ldm", c.get("utc_timestamp")))
        # a clock value whose product with 1000 truncates to the intended millisecond (binary64 rounding of the product is outside the claim)
        now_s = (t + a_) / 1000.0 + u / 1e6
        if int(now_s * 1000) != t + a_:
            now_s = (t + a_ + 0.5) / 1000.0
        with mock.patch.object(TimeService, "time", staticmethod(lambda: now_s)):
            rm.reception_callback(mock.Mock(data=b"\x00"))
        bad = [f"{who} got utc_timestamp {v}" for who, v in seen if v != t] + ([] if len(seen) == 2 else [f"{len(seen)} of 2 consumers reached"])
        return bool(bad), f"CAM generated at {t} ms (generationDeltaTime {msec}) received {a_} ms later: " + ("; ".join(bad) or "stamped with its generation time")
    ctx.witness("reception-reach-both-consumers", I, z3.And(z3.Not(exc), *[c for c, _, _ in got], z3.BoolVal(len(got) == 2), age > 1000), vars=vars_,
                validate=lambda v: not replay(v)[0])
    ctx.prove("reception-no-exception", I, exc, vars=vars_, replay=replay)
    bad = []
    for c, who, x in got:
        n0 = len(I.raises)
        v = path_get(I, x, "utc_timestamp", pc=c)
        del I.raises[n0:]
        bad.append(z3.And(c, z3.Not(num_eq(I, v, tgen))))
    ctx.prove("reception-stamps-the-generation-time", I, z3.Or(*bad) if bad else TRUE, vars=vars_, replay=replay,
              desc="for every generation time 2004..2039, every age 0..65 s and every sub-millisecond clock phase, the CAM given to the LDM and to each application callback "
                   "carries utc_timestamp = its generation time: the reconstruction is fed the receiver's Unix time in milliseconds")
    ctx.bound("one received CAM (decoded structure from a stub coder); real-valued clock, int(time * 1000) exact")
    ctx.stub("CAM coder returns the decoded structure; LDM adapter and application callback record their argument")


# ---------------------------------------------------------------------------------------------- E1 emergency-vehicle DENM position
@vc("C11", "E1-denm-event-position")
def denm_position(ctx):
    """EmergencyVehicleApproachingService.trigger_denm_sending: event position from the report, clamped altitude"""
    I = make("bv", 64, fmode="fp")
    I.stubs[TimeService.time] = Clock(I).read
    keys = ["lat", "lon", "altHAE"]
    has = {k: z3.Bool("has_" + k) for k in keys}
    val = {k: I.float_var(k, *RANGES[k]) for k in keys}
    tpv = SDict([(has[k], k, val[k], False) for k in keys])
    started = []
    dtm = Opaque("denm_transmission_management")
    I.stubs[id(dtm)] = lambda it, name, a, k, pc: started.append((pc, name, a[0]))
    from unittest import mock
    real = EmergencyVehicleApproachingService(mock.Mock())
    f = dict(vars(real))
    f["den_service"] = Obj(types.SimpleNamespace, dict(denm_transmission_management=dtm))
    o = Obj(EmergencyVehicleApproachingService, f)
    I.call_function(EmergencyVehicleApproachingService.trigger_denm_sending, [o, tpv])
    exc = cond_or(c for c, _ in I.raises)
    vars_ = {"has_" + k: b for k, b in has.items()}
    vars_.update(val)
    (c0, _, req), = started
    n0 = len(I.raises)
    ep = req.fields["event_position"]
    got = {"latitude": path_get(I, ep, "latitude"), "longitude": path_get(I, ep, "longitude"), "altitudeValue": path_get(I, ep, "altitude", "altitudeValue")}
    del I.raises[n0:]
    W = I.W
    alt = scaled(I, val["altHAE"], 100)
    alt = z3.If(alt < z3.BitVecVal(-100000, W), z3.BitVecVal(-100000, W), z3.If(alt > z3.BitVecVal(800000, W), z3.BitVecVal(800000, W), alt))
    spec = {"latitude": (has["lat"], scaled(I, val["lat"], 10000000), 900000001), "longitude": (has["lon"], scaled(I, val["lon"], 10000000), 1800000001),
            "altitudeValue": (has["altHAE"], alt, 800001)}

    def replay(vals):
        den = mock.Mock()
        reqs = []
        den.denm_transmission_management.request_denm_sending.side_effect = lambda r: reqs.append(r)
        s = EmergencyVehicleApproachingService(den)
        t = {k: vals[k] for k in keys if vals["has_" + k]}
        try:
            s.trigger_denm_sending(t)
        except Exception as e:
            return True, f"raised {type(e).__name__}: {e}"
        e = reqs[0].event_position
        g = {"latitude": e["latitude"], "longitude": e["longitude"], "altitudeValue": e["altitude"]["altitudeValue"]}
        w = {"latitude": int(t["lat"] * 1e7) if "lat" in t else 900000001, "longitude": int(t["lon"] * 1e7) if "lon" in t else 1800000001,
             "altitudeValue": max(-100000, min(800000, int(t["altHAE"] * 100))) if "altHAE" in t else 800001}
        pos_t = asn.type_at("DENM", "denm", "management", "eventPosition")
        bad = [f"{k}: {g[k]} expected {w[k]}" for k in w if g[k] != w[k]] + asn.concrete_violations("DENM", e, pos_t)
        return bool(bad), f"report {t}: " + ("; ".join(bad) or "ok")
    ctx.witness("reach", I, z3.And(c0, z3.Not(exc), *has.values()), vars=vars_, validate=lambda v: not replay(v)[0])
    ctx.prove("no-exception", I, exc, vars=vars_, replay=replay)
    for name, (present, want, white) in spec.items():
        ctx.prove(f"mapping-{name}", I, z3.Or(z3.And(present, z3.Not(num_eq(I, got[name], want))), z3.And(z3.Not(present), z3.Not(num_eq(I, got[name], white)))),
                  vars=vars_, replay=replay)
    cf = asn.Conformance(I)
    cf.check(ep, asn.type_at("DENM", "denm", "management", "eventPosition"))
    ctx.prove("asn1-constraints-event-position", I, cf.any_bad(), vars=vars_, replay=replay)
    ctx.bound("report: every subset of {lat, lon, altHAE}, binary64 values over the property's ranges")


# ---------------------------------------------------------------------------------------------- E1 DENM built from a DEN request
@vc("C11", "E1-denm-from-request")
def denm_from_request(ctx):
    """DecentralizedEnvironmentalNotificationMessage filled from vehicle data and a DEN request: ASN.1 conformance of the structure handed to the coder"""
    from flexstack.facilities.decentralized_environmental_notification_service.denm_transmission_management import DecentralizedEnvironmentalNotificationMessage as DM
    from flexstack.applications.road_hazard_signalling_service.service_access_point import DENRequest
    for flavour in ("road-hazard", "collision-risk"):
        I = make("int")
        I.stubs[TimeService.time] = Clock(I).read
        lat = I.int_var("lat", -900000000, 900000001)
        lon = I.int_var("lon", -1800000000, 1800000001)
        interval = I.int_var("interval", 100, 10000)
        det = I.int_var("detection_time", 0, 2 ** 42 - 1)
        sid = I.int_var("station_id", 0, 4294967295)
        ep = {"latitude": lat, "longitude": lon,
              "positionConfidenceEllipse": {"semiMajorConfidence": 4095, "semiMinorConfidence": 4095, "semiMajorOrientation": 3601},
              "altitude": {"altitudeValue": I.int_var("alt", -100000, 800001), "altitudeConfidence": "unavailable"}}
        req = Obj(DENRequest, dict(denm_interval=interval, priority_level=None, detection_time=det, time_period=1000, quality=7, event_position=ep, heading=0,
                                   confidence=2, relevance_distance="lessThan200m", relevance_traffic_direction="upstreamTraffic",
                                   rhs_cause_code="emergencyVehicleApproaching95", rhs_subcause_code=1, rhs_event_speed=30, rhs_vehicle_type=0,
                                   lcrw_cause_code="collisionRisk97", lcrw_subcause_code=4))
        m = I.instantiate(DM, [], {}, TRUE)
        I.call_function(DM.fullfill_with_vehicle_data, [m, Obj(VehicleData, dict(station_id=sid, station_type=5))])
        I.call_function(DM.fullfill_with_denrequest if flavour == "road-hazard" else DM.fullfill_with_collision_risk_warning, [m, req])
        exc = cond_or(c for c, _ in I.raises)
        vars_ = dict(lat=lat, lon=lon, interval=interval, detection_time=det, station_id=sid)
        cf = asn.Conformance(I)
        cf.check(m.fields["denm"], asn.compiled("DENM")[1])

        def replay(vals, flavour=flavour):
            from unittest import mock
            coder = asn.compiled("DENM")[0]
            d = DM()
            d.fullfill_with_vehicle_data(VehicleData(station_id=vals["station_id"], station_type=5))
            r = DENRequest(denm_interval=vals["interval"], detection_time=vals["detection_time"], time_period=1000,
                           event_position={"latitude": vals["lat"], "longitude": vals["lon"],
                                           "positionConfidenceEllipse": {"semiMajorConfidence": 4095, "semiMinorConfidence": 4095, "semiMajorOrientation": 3601},
                                           "altitude": {"altitudeValue": 800001, "altitudeConfidence": "unavailable"}},
                           relevance_distance="lessThan200m", relevance_traffic_direction="upstreamTraffic", rhs_cause_code="emergencyVehicleApproaching95",
                           rhs_subcause_code=1, rhs_event_speed=30, rhs_vehicle_type=0, lcrw_cause_code="collisionRisk97", lcrw_subcause_code=4)
            (d.fullfill_with_denrequest if flavour == "road-hazard" else d.fullfill_with_collision_risk_warning)(r)
            bad = asn.concrete_violations("DENM", d.denm)
            try:
                dec = coder.decode(coder.encode(d.denm))
                if dec["denm"]["management"].get("transmissionInterval") != vals["interval"]:
                    bad.append(f"decoded transmissionInterval {dec['denm']['management'].get('transmissionInterval')} (requested {vals['interval']})")
            except Exception as e:
                bad.append(f"real coder raised {type(e).__name__}: {e}")
            return bool(bad), f"{flavour} DENM: " + ("; ".join(bad) or "conforms")
        ctx.witness(f"{flavour}-reach", I, z3.Not(exc), vars=vars_)
        ctx.prove(f"{flavour}-no-exception", I, exc, vars=vars_, replay=replay)
        unknown = [(c, p) for c, p, msg in cf.bad if "unknown to the ASN.1 type" in msg]
        other = [c for c, p, msg in cf.bad if "unknown to the ASN.1 type" not in msg]
        ctx.prove(f"{flavour}-asn1-conformance", I, z3.Or(*other) if other else FALSE, vars=vars_, replay=replay,
                  desc="every member of the DENM handed to the coder has the shape and range its ASN.1 type demands")
        for c, p in unknown:
            ctx.prove(f"{flavour}-member-known{p}", I, c, vars=vars_, replay=replay,
                      desc=f"dictionary key {p} is unknown to the ASN.1 type: the coder silently drops it, so the value the service intended is not transmitted")
        if not unknown:
            ctx.prove(f"{flavour}-no-member-silently-dropped", I, FALSE, vars=vars_, replay=replay)
    ctx.bound("event position over the whole signed range incl. unavailable codes, interval 100..10000 ms, detection time 42 bits, station id 32 bits")


# ---------------------------------------------------------------------------------------------- E1 whole CAM handed to the coder
@vc("C11", "E1-cam-whole-message")
def cam_whole(ctx):
    """CAMTransmissionManagement._generate_and_send_cam: the complete CAM (basic, HF, LF with path history, special vehicle and
    extension containers) handed to the coder conforms to the ASN.1 for every report, role, station type and container schedule"""
    I = make("bv", 64, fmode="fp")
    clock = Clock(I)
    I.stubs[TimeService.time] = clock.read
    rep = Report(I)
    encoded = []
    coder = Opaque("coder")

    def cod(it, name, a, k, pc):
        if name == "encode":
            encoded.append((pc, a[0]))
            return SBytes([z3.BitVec(it.fresh("uper"), 8) for _ in range(3)])
        return b"\x00"
    I.stubs[id(coder)] = cod
    btp = Opaque("btp")
    I.stubs[id(btp)] = lambda it, name, a, k, pc: None
    role = I.int_var("vehicle_role", 0, 15)
    stype = I.int_var("station_type", 0, 15)
    has_special = z3.Bool("has_special_vehicle_data")
    special = ("emergencyContainer", {"lightBarSirenInUse": (b"\x80", 2)})
    vd = Obj(VehicleData, dict(station_id=I.int_var("station_id", 0, 4294967295), station_type=stype, drive_direction="forward",
                               vehicle_length={"vehicleLengthValue": 42, "vehicleLengthConfidenceIndication": "unavailable"}, vehicle_width=20,
                               vehicle_role=role, exterior_lights=b"\x00", special_vehicle_data=Guarded([(has_special, special), (z3.Not(has_special), None)])))
    # path history: two earlier CAM positions
    hist = []
    for n in (1, 2):
        hist.append((TRUE, (I.float_var(f"h{n}_lat", -90, 90), I.float_var(f"h{n}_lon", -180, 180), I.int_var(f"h{n}_time_ms", 0, 2 ** 41))))
    nhist = I.int_var("history_entries", 0, 2)
    path_history = SList([(nhist >= 1, hist[0][1]), (nhist >= 2, hist[1][1])])
    from unittest import mock
    real = CAMTransmissionManagement(mock.Mock(), mock.Mock(), VehicleData())
    f = dict(vars(real))
    cnt = I.int_var("cam_count", 0, 1000)
    last = I.int_var("last_cam_ms", 0, 2 ** 41)

    def opt_ms(name):
        p = z3.Bool(name + "_set")
        return Guarded([(p, I.int_var(name, 0, 2 ** 41)), (z3.Not(p), None)])
    f.update(logging=logger(I), btp_router=btp, vehicle_data=vd, cam_coder=coder, ca_basic_service_ldm=None, _path_history=path_history,
             _cam_count=cnt, _last_cam_time_ms=Guarded([(cnt > 0, last), (cnt == 0, None)]), _last_lf_time_ms=opt_ms("last_lf_ms"),
             _last_vlf_time_ms=opt_ms("last_vlf_ms"), _last_special_time_ms=opt_ms("last_special_ms"), t_gen_cam=I.int_var("t_gen_cam", 100, 1000),
             _n_gen_cam_counter=I.int_var("n_gen_cam_counter", 0, 2), _last_cam_heading=None, _last_cam_lat=None, _last_cam_lon=None, _last_cam_speed=None)
    o = Obj(CAMTransmissionManagement, f)
    now_ms = I.int_var("now_ms", 0, 2 ** 41)
    I.stubs[CAMTransmissionManagement._update_send_state] = lambda it, a, k, pc: None
    I.call_function(CAMTransmissionManagement._generate_and_send_cam, [o, rep.tpv, now_ms, 1])
    exc = cond_or(c for c, _ in I.raises)
    vars_ = rep.vars()
    vars_.update(vehicle_role=role, station_type=stype, has_special_vehicle_data=has_special, history_entries=nhist, cam_count=cnt, now_ms=now_ms)
    for n in (1, 2):
        vars_.update({f"h{n}_lat": hist[n - 1][1][0], f"h{n}_lon": hist[n - 1][1][1], f"h{n}_time_ms": hist[n - 1][1][2]})
    vars_.update(clock.vars())

    def replay(vals):
        coder_ = asn.compiled("CAM")[0]
        sent = []
        btp_ = mock.Mock()
        btp_.btp_data_request.side_effect = lambda r: sent.append(r)
        vdr = VehicleData(station_id=7, station_type=vals["station_type"], vehicle_role=vals["vehicle_role"],
                          special_vehicle_data=special if vals["has_special_vehicle_data"] else None)
        m = CAMTransmissionManagement(btp_, coder_, vdr)
        m._cam_count = vals["cam_count"]
        m._last_cam_time_ms = vals["now_ms"] - 200 if vals["cam_count"] else None
        for n in range(vals["history_entries"]):
            m._path_history.append((vals[f"h{n + 1}_lat"], vals[f"h{n + 1}_lon"], vals[f"h{n + 1}_time_ms"]))
        tpv = rep.concrete(vals)
        built = []
        orig = CAMTransmissionManagement._send_cam

        def spy(self_, cam):
            built.append(cam.cam)
            return orig(self_, cam)
        times = [vals[n] for n in sorted(clock.vars())] or [1.7e9]
        with mock.patch.object(CAMTransmissionManagement, "_send_cam", spy), \
                mock.patch.object(TimeService, "time", staticmethod(lambda: times[0])):
            m._generate_and_send_cam(tpv, vals["now_ms"], 1)
        if not built:
            return True, "no CAM built"
        bad = asn.concrete_violations("CAM", built[0])
        if not sent:
            bad.append("the real coder refused the CAM (nothing handed to BTP)")
        else:
            try:
                dec = coder_.decode(sent[0].data)
                want, got = py_spec(tpv, "CAM"), extract("CAM", dec)
                bad += [f"{k}: decoded {got[k]}, expected {w}" for k, w in want.items() if got[k] != w]
            except Exception as e:
                bad.append(f"decode raised {type(e).__name__}: {e}")
        return bool(bad), f"report {tpv}, role {vals['vehicle_role']}, station type {vals['station_type']}: " + ("; ".join(bad) or "conforms")
    enc_any = cond_or(c for c, _ in encoded)
    ctx.witness("reach-lf-with-history", I, z3.And(enc_any, z3.Not(exc), nhist == 2, rep.has["lat"], rep.has["lon"]), vars=vars_)
    ctx.prove("no-exception", I, exc, vars=vars_, replay=replay, desc="CAM generation never raises, whatever the report contains")
    ctx.prove("exactly-one-cam-encoded", I, z3.Not(z3.PbEq([(c, 1) for c, _ in encoded], 1)) if encoded else TRUE, vars=vars_, replay=replay)
    cf = asn.Conformance(I)
    for c, d in encoded:
        cf.check(d, asn.compiled("CAM")[1], pc=c)
    by_path = {}
    for c, p, m in cf.bad:
        by_path.setdefault(p.split("[")[0], []).append(c)
    for p, cs in sorted(by_path.items()):
        ctx.prove(f"asn1-constraint{p}", I, z3.Or(*cs), vars=vars_, replay=replay)
    ctx.bound(f"{cf.leaves} leaves; vehicle role 0..15, station type 0..15, with/without special-vehicle data, CAM count / last LF / VLF / special times arbitrary, "
              "0..2 path-history points anywhere on the globe with arbitrary times; report as in E1-cam-report-mapping")
    ctx.stub("CAM coder encode records the dictionary; encode_extension_container returns one octet; BTP router ignored; _update_send_state skipped (C10)")


# ---------------------------------------------------------------------------------------------- E1 VRU cluster containers
@vc("C11", "E1-vam-cluster-containers")
def cluster_containers(ctx):
    """VBSClusteringManager.get_cluster_information_container / get_cluster_operation_container in every clustering state"""
    import flexstack.facilities.vru_awareness_service.vru_clustering as VC
    from flexstack.facilities.vru_awareness_service.vru_clustering import (VBSClusteringManager, VBSState, ClusterLeaveReason, ClusterBreakupReason,
                                                                             _JoinSubstate, _LeaveSubstate, _ClusterState)
    t_info = asn.type_at("VAM", "vam", "vamParameters", "vruClusterInformationContainer")
    t_op = asn.type_at("VAM", "vam", "vamParameters", "vruClusterOperationContainer")
    real = VBSClusteringManager(1)

    def guarded_enum(name, members, allow_none=True):
        ch = z3.Int(name)
        alts = [(ch == i, m) for i, m in enumerate(members)]
        if allow_none:
            alts.append((z3.Or(ch < 0, ch >= len(members)), None))
            rng = z3.And(ch >= -1, ch < len(members))
        else:
            rng = z3.And(ch >= 0, ch < len(members))
        return Guarded(alts), ch, rng

    for state in (VBSState.VRU_ACTIVE_CLUSTER_LEADER, VBSState.VRU_ACTIVE_STANDALONE, VBSState.VRU_PASSIVE, VBSState.VRU_IDLE):
        I = make("int")
        now = I.float_var("now", 1.6e9, 2.3e9)
        f = dict(vars(real))
        f["_time_fn"] = Opaque("time_fn")
        I.stubs[id(f["_time_fn"])] = lambda it, name, a, k, pc, now=now: now
        vars_ = {"now": now}
        f["_state"] = state
        cid = I.int_var("cluster_id", 1, 255)
        card = I.int_var("cardinality", 1, 255)
        radius = I.float_var("radius", 0, 4095)
        has_b = z3.Bool("breaking_up")
        bstart = I.float_var("breakup_started", 1.6e9, 2.3e9)
        I.assumptions.append(bstart <= now)
        breason, bch, brng = guarded_enum("breakup_reason", list(ClusterBreakupReason))
        I.assumptions.append(brng)
        nprof = z3.Bool("has_profiles")
        vars_.update(cluster_id=cid, cardinality=card, radius=radius, breaking_up=has_b, breakup_started=bstart, breakup_reason=bch, has_profiles=nprof)
        if state is VBSState.VRU_ACTIVE_CLUSTER_LEADER:
            f["_cluster"] = Obj(_ClusterState, dict(cluster_id=cid, cardinality=card, profiles=SDict([(nprof, "pedestrian", True, False)], is_set=True),
                                                    radius=radius, breakup_started=Guarded([(has_b, bstart), (z3.Not(has_b), None)]),
                                                    breakup_reason=breason, pending_members=SDict(is_set=True)))
        js, jch, jrng = guarded_enum("join_substate", list(_JoinSubstate), allow_none=False)
        ls, lch, lrng = guarded_enum("leave_substate", list(_LeaveSubstate), allow_none=False)
        jr, jrch, jrrng = guarded_enum("join_leave_reason", list(ClusterLeaveReason))
        lr, lrch, lrrng = guarded_enum("leave_reason", list(ClusterLeaveReason))
        I.assumptions += [jrng, lrng, jrrng, lrrng]
        jstart = I.float_var("join_started", 1.6e9, 2.3e9)
        I.assumptions.append(jstart <= now)
        has_target, has_lcid = z3.Bool("has_join_target"), z3.Bool("has_leave_cluster_id")
        f.update(_join_substate=js, _leave_substate=ls, _join_leave_reason=jr, _leave_reason=lr,
                 _join_started=Guarded([(z3.Bool("has_join_started"), jstart), (z3.Not(z3.Bool("has_join_started")), None)]),
                 _join_target_cluster_id=Guarded([(has_target, I.int_var("join_target", 0, 255)), (z3.Not(has_target), None)]),
                 _leave_cluster_id=Guarded([(has_lcid, I.int_var("leave_cluster_id", 0, 255)), (z3.Not(has_lcid), None)]))
        vars_.update(join_substate=jch, leave_substate=lch, join_leave_reason=jrch, leave_reason=lrch, join_started=jstart,
                     has_join_started=z3.Bool("has_join_started"), has_join_target=has_target, has_leave_cluster_id=has_lcid)
        o = Obj(VBSClusteringManager, f)
        info = I.call_function(VBSClusteringManager.get_cluster_information_container, [o])
        op = I.call_function(VBSClusteringManager.get_cluster_operation_container, [o])
        exc = cond_or(c for c, _ in I.raises)
        tag = state.name

        def replay(vals, state=state):
            m = VBSClusteringManager(1, time_fn=lambda: vals["now"])
            m._state = state
            if state is VBSState.VRU_ACTIVE_CLUSTER_LEADER:
                br = list(ClusterBreakupReason)
                m._cluster = _ClusterState(cluster_id=vals["cluster_id"], cardinality=vals["cardinality"], radius=vals["radius"],
                                           profiles={"pedestrian"} if vals["has_profiles"] else set(),
                                           breakup_started=vals["breakup_started"] if vals["breaking_up"] else None,
                                           breakup_reason=br[vals["breakup_reason"]] if 0 <= vals["breakup_reason"] < len(br) else None)
            lrs = list(ClusterLeaveReason)
            m._join_substate = list(_JoinSubstate)[vals["join_substate"]]
            m._leave_substate = list(_LeaveSubstate)[vals["leave_substate"]]
            m._join_leave_reason = lrs[vals["join_leave_reason"]] if 0 <= vals["join_leave_reason"] < len(lrs) else None
            m._leave_reason = lrs[vals["leave_reason"]] if 0 <= vals["leave_reason"] < len(lrs) else None
            m._join_started = vals["join_started"] if vals["has_join_started"] else None
            m._join_target_cluster_id = vals.get("join_target") if vals["has_join_target"] else None
            m._leave_cluster_id = vals.get("leave_cluster_id") if vals["has_leave_cluster_id"] else None
            bad = []
            try:
                ci, co = m.get_cluster_information_container(), m.get_cluster_operation_container()
            except Exception as e:
                return True, f"{state.name}: raised {type(e).__name__}: {e}"
            if ci is not None:
                bad += asn.concrete_violations("VAM", ci, t_info)
            if co is not None:
                bad += asn.concrete_violations("VAM", co, t_op)
            return bool(bad), f"{state.name}: " + ("; ".join(bad) or "conform")
        vars_["join_target"] = [x for c, x in f["_join_target_cluster_id"].alts if x is not None][0]
        vars_["leave_cluster_id"] = [x for c, x in f["_leave_cluster_id"].alts if x is not None][0]
        ctx.witness(f"{tag}-reach", I, z3.Not(exc), vars=vars_)
        ctx.prove(f"{tag}-no-exception", I, exc, vars=vars_, replay=replay)
        cf = asn.Conformance(I)
        for val, t, nm in ((info, t_info, "info"), (op, t_op, "operation")):
            alts = val.alts if isinstance(val, Guarded) else [(TRUE, val)]
            for c, x in alts:
                if x is None or isinstance(x, Undefined):
                    continue
                cf.check(x, t, pc=c, path=nm)
        by_path = {}
        for c, p, m in cf.bad:
            by_path.setdefault(p, []).append(c)
        for p, cs in sorted(by_path.items()):
            ctx.prove(f"{tag}-asn1-{p}", I, z3.Or(*cs), vars=vars_, replay=replay,
                      desc=f"cluster container member {p} has the shape / range the VAM ASN.1 demands")
        if state is VBSState.VRU_ACTIVE_CLUSTER_LEADER:
            n0 = len(I.raises)
            got_id = path_get(I, info, "vruClusterInformation", "clusterId")
            got_card = path_get(I, info, "vruClusterInformation", "clusterCardinalitySize")
            del I.raises[n0:]
            ctx.prove(f"{tag}-info-carries-own-cluster", I, z3.Or(z3.Not(num_eq(I, got_id, cid)), z3.Not(num_eq(I, got_card, card))), vars=vars_, replay=replay)
        else:
            ctx.prove(f"{tag}-no-information-container", I, z3.BoolVal(info is not None), vars=vars_, replay=replay,
                      desc="only a cluster leader attaches a cluster information container")
    ctx.bound("every VBS state; join/leave sub-states, reasons (incl. unset), cluster id 1..255, cardinality 1..255, radius 0..4095 m, notification start times symbolic (real-valued clock)")
