"""C15 - the GeoNetworking router under concurrent origination, reception and timers (engine E2 `ilv`, vf/ilv.py).

Each VC evaluates 2-3 real router operations once, cuts them at their yield points (outermost lock acquisitions, accesses to
shared fields not protected by a held lock - lock discipline is re-derived from the code on every run) and asks z3 for a
schedule (symbolic permutation of all blocks respecting program order and lock ownership) that violates the property.
A schedule found is replayed on the real Router with real threads switched at exactly those points."""
import threading
import z3
from ..values import Obj, Opaque, SBytes, SDict, SList, Guarded, Undefined, TimerRec
from ..interp import TRUE, FALSE
from ..runner import vc
from ..ilv import Ilv, IntS, BoolS, TokS, MapS, ListS, SetS, RecS, RefS
from ..ilvreplay import Scheduler, gate_object, run_schedule
from ..gnharness import real_router

from flexstack.geonet.router import Router
from flexstack.geonet.gn_address import GNAddress, M, ST, MID
from flexstack.geonet.location_table import LocationTableEntry


from ..ilvq import order_from_model, solve, feasible, no_deadlock, hangs, note_blocks, bounds_ok


# ---------------------------------------------------------------------------------------------- X1 sequence numbers
@vc("C15", "X1-sequence-numbers-distinct")
def sequence_numbers(ctx):
    n = 4 if ctx.tier == "thorough" else 3

    def build(E):
        R, ll, got = real_router()
        Ro = E.lift(R)
        sn0 = z3.Int("sn0")
        E.assumptions.append(z3.And(sn0 >= 0, sn0 <= 65534))
        Ro.fields["sequence_number"] = sn0
        E.share(Ro, "sequence_number", IntS(0, 65535), "sequence_number_lock")
        return dict(threads=[(f"t{i}", Router.get_sequence_number, [Ro]) for i in range(n)], locks=[R.sequence_number_lock], lock_names=["sequence_number_lock"])
    il = Ilv(build).run()
    il.cons = il.encode()
    E = il.E
    rets = [E.tok(il.rets[f"t{i}"][0]) for i in range(n)]
    exc = z3.Or(*[c for i in range(n) for c, k in il.rets[f"t{i}"][1]]) if any(il.rets[f"t{i}"][1] for i in range(n)) else FALSE

    def run_real(vals):
        R, ll, got = real_router()
        R.sequence_number = vals["sn0"]
        sched = Scheduler(vals["schedule"])
        gate_object(R, {"sequence_number": "sequence_number_lock"}, sched, il.und_names)
        res, sched = run_schedule(vals["schedule"], {f"t{i}": R.get_sequence_number for i in range(n)}, sched)
        return res, sched, object.__getattribute__(R, "sequence_number")

    def replay(vals):
        res, sched, fin_ = run_real(vals)
        if sched.failed:
            return False, "replay scheduler: " + sched.failed
        errs = [f"{k} raised {r[1]!r}" for k, r in res.items() if r[0] == "raised"]
        got_ = [res[f"t{i}"][1] for i in range(n)]
        return len(set(got_)) < n or bool(errs), f"sequence numbers handed out to {n} concurrent callers from counter {vals['sn0']}: {got_} {errs} (switch points: {sched.trace})"

    def replay_final(vals):
        res, sched, fin_ = run_real(vals)
        if sched.failed:
            return False, "replay scheduler: " + sched.failed
        want = vals["sn0"]
        for _ in range(n):
            want = (want + 1) % 65535
        return fin_ != want, f"counter {vals['sn0']} after {n} concurrent calls is {fin_}, expected {want} (an increment was lost; switch points: {sched.trace})"
    feasible(ctx, il, "X1-some-schedule")
    solve(ctx, il, "X1-pairwise-distinct", z3.Or(*[rets[i] == rets[j] for i in range(n) for j in range(i)]), vars={"sn0": z3.Int("sn0")}, replay=replay,
          desc=f"{n} concurrent get_sequence_number() calls return pairwise distinct numbers, from every counter value (wrap at 65535 included), under every interleaving")
    solve(ctx, il, "X1-no-exception", exc, vars={"sn0": z3.Int("sn0")}, replay=replay)
    solve(ctx, il, "X1-counter-advanced-once-per-call", il.final(E.shared[E.order[0]][0], "sequence_number")[0] != (z3.Int("sn0") + n) % 65535, vars={"sn0": z3.Int("sn0")},
          replay=replay_final)
    no_deadlock(ctx, il, "X1")
    note_blocks(ctx, il, f"{n} x get_sequence_number")


# ---------------------------------------------------------------------------------------------- X2 contention-based forwarding
from flexstack.geonet.basic_header import BasicHeader
from flexstack.geonet.common_header import CommonHeader
from flexstack.geonet.gbc_extended_header import GBCExtendedHeader
from flexstack.geonet.position_vector import LongPositionVector
import dataclasses

SRC = GNAddress(m=M.GN_UNICAST, st=ST.PASSENGER_CAR, mid=MID(b"\x01\x02\x03\x04\x05\x06"))
EXT = dataclasses.replace(GBCExtendedHeader(), sn=77, so_pv=dataclasses.replace(LongPositionVector(), gn_addr=SRC), a=100, b=100)
from flexstack.geonet.service_access_point import HeaderType, GeoBroadcastHST
GBC_CH = dataclasses.replace(CommonHeader(), ht=HeaderType.GEOBROADCAST, hst=GeoBroadcastHST.GEOBROADCAST_CIRCLE)
CBF_KEY = (SRC, 77)


OWN = 700          # identity of the timer whose expiry callback is the "expiry" actor


def _cbf_env(E, key_present):
    """router with a symbolic CBF buffer over one tracked key (source address, sequence number)"""
    R, ll, got = real_router()
    Ro = E.lift(R)
    sends, cancels, starts = [], [], []
    lls = Opaque("link_layer")

    def send(it, name, a, k, pc):
        it.events.append((pc, "send", a[0]))
        sends.append((pc, len(it.events) - 1, a[0]))
    E.stubs[id(lls)] = send
    Ro.fields["link_layer"] = lls
    lt = Opaque("location_table")
    E.stubs[id(lt)] = lambda it, name, a, k, pc: None
    Ro.fields["location_table"] = lt
    # header serialisation is not the subject here: the (concrete) headers are encoded by the real code outside the solver
    E.stubs[BasicHeader.encode_to_bytes] = lambda it, a, k, pc: BasicHeader().encode_to_bytes()
    E.stubs[CommonHeader.encode_to_bytes] = lambda it, a, k, pc: CommonHeader().encode_to_bytes()
    E.stubs[GBCExtendedHeader.encode] = lambda it, a, k, pc: EXT.encode()

    def timer_method(it, o, name, a, k, pc):
        it.events.append((pc, "timer." + name, o.term))
        if name == "cancel":
            cancels.append((pc, len(it.events) - 1, o.term))
        return None
    pending = E.tokref(z3.Int("pending_timer"), timer_method, isa=threading.Timer)
    E.assumptions.append(z3.And(z3.Int("pending_timer") >= 1, z3.Int("pending_timer") < 1000))
    # the code may ask which thread it runs on: the expiry callback runs on its own Timer thread, receptions on plain threads
    E.stubs[threading.current_thread] = lambda it, a, k, pc: (it.tokref(z3.IntVal(OWN), timer_method, isa=threading.Timer) if it.cur_thread == "expiry"
                                                               else it.tokref(z3.IntVal(1 + it.thread_ids[it.cur_thread]), None, isa=threading.Thread))
    Ro.fields["_cbf_buffer"] = SDict([(key_present, CBF_KEY, pending, False)])
    E.share(Ro, "_cbf_buffer", MapS([CBF_KEY], TokS(timer_method)), "_cbf_lock")
    return R, Ro, sends, cancels


class _FakeTimer:
    def __init__(self, ll):
        self.cancelled, self.started, self.ll = False, False, ll

    def cancel(self):
        self.cancelled = True
        self.cancel_seen_sends = len(self.ll.sent)

    def start(self):
        self.started = True


class _OwnTimer(threading.Timer):
    """the fired timer: a real threading.Timer whose run() is the (gated) expiry callback, already past its wait"""

    def __init__(self, target, name, ll):
        super().__init__(0, target)
        self.name, self.daemon = name, True
        self.cancelled, self.ll, self.cancel_seen_sends = False, ll, None

    def run(self):
        self.function()

    def cancel(self):
        self.cancelled = True
        self.cancel_seen_sends = len(self.ll.sent)
        super().cancel()


@vc("C15", "X2-cbf-expiry-versus-duplicate")
def cbf(ctx):
    """timer expiry (_cbf_timeout) racing with a reception (gn_area_cbf_forwarding) of the same packet, from every buffer state:
    own copy still buffered / entry already removed by an earlier duplicate (the timer had fired before it was cancelled) /
    entry replaced by a newer copy of the same packet"""
    state = {}
    present = z3.Bool("entry_present")
    pending = z3.Int("pending_timer")
    own_buffered = z3.And(present, pending == OWN)

    def build(E):
        R, Ro, sends, cancels = _cbf_env(E, present)
        state.update(R=R, Ro=Ro, sends=sends, cancels=cancels)
        pkt = SBytes([z3.BitVecVal(i, 8) for i in range(8)])
        return dict(threads=[("expiry", Router._cbf_timeout, [Ro, CBF_KEY, pkt]),
                             ("reception", Router.gn_area_cbf_forwarding, [Ro, BasicHeader(), CommonHeader(), EXT, b"PAYLOAD"])],
                    locks=[R._cbf_lock], lock_names=["_cbf_lock"])
    il = Ilv(build).run()
    il.cons = il.encode()
    E = il.E
    sends, cancels = state["sends"], state["cancels"]
    sent = z3.Or(*[c for c, i, p in sends]) if sends else FALSE
    own_cancelled = z3.Or(*[z3.And(c, t == OWN) for c, i, t in cancels]) if cancels else FALSE
    other_cancelled = z3.Or(*[z3.And(c, t == pending) for c, i, t in cancels]) if cancels else FALSE
    fin = il.final(state["Ro"], "_cbf_buffer")          # [present, token]
    exc = z3.Or(*[c for nm in ("expiry", "reception") for c, k in il.rets[nm][1]]) if any(il.rets[nm][1] for nm in ("expiry", "reception")) else FALSE
    vars_ = {"entry_present": present, "own_copy_buffered": own_buffered}

    def replay(vals):
        from unittest import mock
        import flexstack.geonet.router as RM
        R, ll, got = real_router()
        sched = Scheduler(vals["schedule"])
        made = []
        holder = {}

        def mk_own(target, name):
            holder["t"] = _OwnTimer(target, name, ll)
            return holder["t"]
        # threads are created inside run_schedule: pre-create the expiry timer so that it can sit in the buffer
        own = _OwnTimer(None, "expiry", ll)
        other = _FakeTimer(ll)
        if vals["own_copy_buffered"]:
            R._cbf_buffer[CBF_KEY] = own
        elif vals["entry_present"]:
            R._cbf_buffer[CBF_KEY] = other

        def mk(target, name):
            own.function = target
            return own

        def new_timer(*a, **k):
            t = _FakeTimer(ll)
            made.append(t)
            return t
        gate_object(R, {"_cbf_buffer": "_cbf_lock"}, sched, il.und_names)
        with mock.patch.object(RM, "Timer", new_timer):
            res, sched = run_schedule(vals["schedule"], {"expiry": lambda: R._cbf_timeout(CBF_KEY, b"PKT"),
                                                         "reception": lambda: R.gn_area_cbf_forwarding(BasicHeader(), CommonHeader(), EXT, b"PAYLOAD")},
                                      sched, mk_thread={"expiry": mk})
        if sched.failed:
            return False, "replay scheduler: " + sched.failed
        errs = [f"{n} raised {r[1]!r}" for n, r in res.items() if r[0] == "raised"]
        nsent = len(ll.sent)
        bad = list(errs)
        if not vals["own_copy_buffered"] and nsent:
            bad.append("the expired timer's copy was transmitted although its entry had already been removed (cancellation completed) " +
                       ("and the buffer held a newer copy" if vals["entry_present"] else "and a new reception re-buffered the packet"))
        if vals["own_copy_buffered"] and own.cancelled and nsent:
            bad.append("own copy both cancelled by the duplicate and transmitted")
        if nsent > 1:
            bad.append(f"transmitted {nsent} times")
        return bool(bad), f"pre-state entry_present={vals['entry_present']} own_copy_buffered={vals['own_copy_buffered']}: " + ("; ".join(bad) or "ok") + \
            f" (sent {nsent}, own timer cancelled={own.cancelled}, switch points {sched.trace})"
    feasible(ctx, il, "X2-some-schedule")
    feasible(ctx, il, "X2-own-copy-can-be-transmitted", z3.And(own_buffered, sent))
    feasible(ctx, il, "X2-own-copy-can-be-cancelled", z3.And(own_buffered, own_cancelled))
    solve(ctx, il, "X2-no-exception", exc, vars=vars_, replay=replay)
    solve(ctx, il, "X2-never-both-cancelled-and-transmitted", z3.And(own_buffered, sent, own_cancelled), vars=vars_, replay=replay,
          desc="a buffered copy is either cancelled by the duplicate or transmitted by its timer, never both")
    for (cs, i_s, p_) in sends:
        for (cc, i_c, t_) in cancels:
            ts, tc = il.time_of_event(i_s), il.time_of_event(i_c)
            if ts is not None and tc is not None:
                solve(ctx, il, "X2-no-transmission-after-completed-cancellation", z3.And(own_buffered, cs, cc, t_ == OWN, tc < ts), vars=vars_, replay=replay,
                      desc="no transmission happens in a block ordered after the block in which the duplicate removed the entry and cancelled the timer")
    solve(ctx, il, "X2-cancelled-copy-never-transmitted", z3.And(z3.Not(own_buffered), sent), vars=vars_, replay=replay,
          desc="an expiry callback whose own entry is gone (removed by an earlier duplicate: cancellation completed after the timer had fired) never transmits, "
               "also when the same packet has been buffered again in the meantime")
    solve(ctx, il, "X2-newer-copy-not-flushed-by-stale-expiry", z3.And(present, pending != OWN,
                                                                       z3.Not(z3.Or(z3.And(fin[0], fin[1] == pending), other_cancelled))), vars=vars_, replay=replay,
          desc="a stale expiry leaves a newer entry alone: afterwards the entry is still the newer timer or was removed by the reception")
    no_deadlock(ctx, il, "X2")
    note_blocks(ctx, il, "_cbf_timeout || gn_area_cbf_forwarding (same source address and sequence number)")
    ctx.stub("link layer records sends; timers are identity tokens whose start()/cancel() are recorded; threading.current_thread() answers the expiry's own "
             "Timer identity on the expiry actor and a plain thread elsewhere; location table lookups answer 'unknown' (timeout = TO_CBF_MAX); "
             "header encoders run concretely")


@vc("C15", "X2-cbf-two-receptions")
def cbf_two_receptions(ctx):
    """the same GBC packet received twice concurrently while nothing is buffered: exactly one copy is buffered and then cancelled, or ... never two live timers"""
    state = {}

    def build(E):
        R, Ro, sends, cancels = _cbf_env(E, FALSE)
        state.update(R=R, Ro=Ro, sends=sends, cancels=cancels)
        args = [Ro, BasicHeader(), CommonHeader(), EXT, b"PAYLOAD"]
        return dict(threads=[("rx1", Router.gn_area_cbf_forwarding, args), ("rx2", Router.gn_area_cbf_forwarding, list(args))],
                    locks=[R._cbf_lock], lock_names=["_cbf_lock"])
    il = Ilv(build).run()
    il.cons = il.encode()
    E = il.E
    r1, r2 = E.tok(il.rets["rx1"][0]), E.tok(il.rets["rx2"][0])
    fin = il.final(state["Ro"], "_cbf_buffer")
    started = [(c, p) for c, k, p in E.events if k == "timer.start"]
    ncancel = sum([z3.If(c, 1, 0) for c, i, t in state["cancels"]]) if state["cancels"] else z3.IntVal(0)

    def replay(vals):
        from unittest import mock
        R, ll, got = real_router()
        made = []

        def mk(*a, **k):
            t = _FakeTimer(ll)
            made.append(t)
            return t
        sched = Scheduler(vals["schedule"])
        gate_object(R, {"_cbf_buffer": "_cbf_lock"}, sched, il.und_names)
        import flexstack.geonet.router as RM
        with mock.patch.object(RM, "Timer", mk):
            res, sched = run_schedule(vals["schedule"], {n: (lambda: R.gn_area_cbf_forwarding(BasicHeader(), CommonHeader(), EXT, b"PAYLOAD")) for n in ("rx1", "rx2")}, sched)
        if sched.failed:
            return False, "replay scheduler: " + sched.failed
        live = [t for t in made if t.started and not t.cancelled]
        rets = sorted(str(res[n][1]) for n in ("rx1", "rx2"))
        bad = len(live) > 1 or rets != ["False", "True"] or (CBF_KEY in R._cbf_buffer) != bool(live)
        return bad, f"two concurrent receptions: return values {rets}, timers created {len(made)}, live (started, not cancelled) {len(live)}, entry buffered={CBF_KEY in R._cbf_buffer}"
    feasible(ctx, il, "X2b-some-schedule")
    solve(ctx, il, "X2b-one-buffers-one-cancels", z3.Not(z3.Or(z3.And(r1 == 1, r2 == 0), z3.And(r1 == 0, r2 == 1))), vars={}, replay=replay,
          desc="of two concurrent receptions of the same packet exactly one buffers it (returns True) and the other finds and cancels it (returns False)")
    solve(ctx, il, "X2b-buffer-empty-afterwards", fin[0], vars={}, replay=replay, desc="after both receptions the entry has been removed again (no live contention timer for a packet that was heard twice)")
    solve(ctx, il, "X2b-exactly-one-cancel", ncancel != 1, vars={}, replay=replay)
    note_blocks(ctx, il, "gn_area_cbf_forwarding || gn_area_cbf_forwarding")


@vc("C15", "X2-cbf-expiry-versus-duplicate-on-the-receive-path")
def cbf_receive_path(ctx):
    """timer expiry racing with gn_data_indicate_gbc() whose duplicate-packet detection reports the packet as a duplicate"""
    state = {}
    present = z3.Bool("entry_present")
    pending = z3.Int("pending_timer")
    own_buffered = z3.And(present, pending == OWN)
    from flexstack.geonet.exceptions import DuplicatedPacketException

    def build(E):
        R, Ro, sends, cancels = _cbf_env(E, present)
        state.update(R=R, Ro=Ro, sends=sends, cancels=cancels)
        E.stubs[GBCExtendedHeader.decode] = lambda it, a, k, pc: EXT
        E.stubs[Router.gn_geometric_function_f] = lambda it, a, k, pc: 1
        E.stubs[Router.duplicate_address_detection] = lambda it, a, k, pc: None
        lt = Ro.fields["location_table"]

        def table(it, name, a, k, pc):
            if name == "new_gbc_packet":
                it.raises.append((pc, DuplicatedPacketException))
            return None
        E.stubs[id(lt)] = table
        pkt = SBytes([z3.BitVecVal(i, 8) for i in range(8)])
        return dict(threads=[("expiry", Router._cbf_timeout, [Ro, CBF_KEY, pkt]),
                             ("reception", Router.gn_data_indicate_gbc, [Ro, bytes(60), GBC_CH, BasicHeader()])],
                    locks=[R._cbf_lock], lock_names=["_cbf_lock"])
    il = Ilv(build).run()
    il.cons = il.encode()
    sends, cancels = state["sends"], state["cancels"]
    sent = z3.Or(*[c for c, i, p in sends]) if sends else FALSE
    own_cancelled = z3.Or(*[z3.And(c, t == OWN) for c, i, t in cancels]) if cancels else FALSE
    fin = il.final(state["Ro"], "_cbf_buffer")
    exc = z3.Or(*[c for nm in ("expiry", "reception") for c, k in il.rets[nm][1]]) if any(il.rets[nm][1] for nm in ("expiry", "reception")) else FALSE
    vars_ = {"entry_present": present, "own_copy_buffered": own_buffered}

    def replay(vals):
        from unittest import mock
        R, ll, got = real_router()
        sched = Scheduler(vals["schedule"])
        own = _OwnTimer(None, "expiry", ll)
        if vals["own_copy_buffered"]:
            R._cbf_buffer[CBF_KEY] = own
        elif vals["entry_present"]:
            R._cbf_buffer[CBF_KEY] = _FakeTimer(ll)
        R.location_table = mock.Mock()
        R.location_table.new_gbc_packet.side_effect = DuplicatedPacketException("Packet is duplicated")

        def mk(target, name):
            own.function = target
            return own
        packet = EXT.encode() + b"PAYLOAD"
        gate_object(R, {"_cbf_buffer": "_cbf_lock"}, sched, il.und_names)
        res, sched = run_schedule(vals["schedule"], {"expiry": lambda: R._cbf_timeout(CBF_KEY, b"PKT"),
                                                     "reception": lambda: R.gn_data_indicate_gbc(packet, GBC_CH, BasicHeader())},
                                  sched, mk_thread={"expiry": mk})
        if sched.failed:
            return False, "replay scheduler: " + sched.failed
        errs = [f"{n} raised {r[1]!r}" for n, r in res.items() if r[0] == "raised"]
        nsent = len(ll.sent)
        bad = list(errs)
        if not vals["own_copy_buffered"] and nsent:
            bad.append("the expired timer's copy was transmitted although its entry had already been removed")
        if vals["own_copy_buffered"] and own.cancelled and nsent:
            bad.append("own copy both cancelled by the overheard duplicate and transmitted")
        if vals["entry_present"] and CBF_KEY in R._cbf_buffer and not nsent:
            bad.append("the overheard duplicate left the buffered copy contending")
        return bool(bad), f"pre-state entry_present={vals['entry_present']} own_copy_buffered={vals['own_copy_buffered']}: " + ("; ".join(bad) or "ok") + \
            f" (sent {nsent}, own timer cancelled={own.cancelled}, switch points {sched.trace})"
    feasible(ctx, il, "X2c-some-schedule")
    feasible(ctx, il, "X2c-own-copy-can-be-cancelled", z3.And(own_buffered, own_cancelled))
    solve(ctx, il, "X2c-no-exception", exc, vars=vars_, replay=replay)
    solve(ctx, il, "X2c-never-both-cancelled-and-transmitted", z3.And(own_buffered, sent, own_cancelled), vars=vars_, replay=replay)
    solve(ctx, il, "X2c-cancelled-copy-never-transmitted", z3.And(z3.Not(own_buffered), sent), vars=vars_, replay=replay)
    solve(ctx, il, "X2c-buffer-empty-afterwards", z3.And(own_buffered, fin[0]), vars=vars_, replay=replay,
          desc="after expiry and overheard duplicate, in either order, the copy is no longer contending")
    no_deadlock(ctx, il, "X2c")
    note_blocks(ctx, il, "_cbf_timeout || gn_data_indicate_gbc (duplicate)")
    ctx.stub("GBC header decoder returns the tracked header; geometric function answers 'inside'; DAD passes; location table reports the packet as a duplicate")


# ---------------------------------------------------------------------------------------------- X3 location service bookkeeping
DEST = GNAddress(m=M.GN_UNICAST, st=ST.PASSENGER_CAR, mid=MID(b"\x0a\x0a\x0a\x0a\x0a\x0a"))


def _ls_env(E, st):
    R, ll, got = real_router()
    Ro = E.lift(R)
    pending0 = z3.Bool("lookup_pending")
    has_old = z3.Bool("one_request_already_buffered")
    E.assumptions.append(z3.Implies(has_old, pending0))
    old_req = E.tokref(z3.IntVal(500))
    entry = Obj(LocationTableEntry, dict(ls_pending=pending0))
    st.update(R=R, Ro=Ro, entry=entry, pending0=pending0, has_old=has_old, sent=[], guc=[])
    lt = Opaque("location_table")
    E.stubs[id(lt)] = lambda it, name, a, k, pc: entry
    Ro.fields["location_table"] = lt
    E.stubs[Router._send_ls_request_packet] = lambda it, a, k, pc: (it.events.append((pc, "ls_request_sent", None)), st["sent"].append((pc, len(it.events) - 1)))[0]
    # gn_data_request_guc either puts the packet on the air or - when the destination is (again) unresolved, e.g. its LocTE expired in the
    # meantime - falls back to gn_ls_request for the same request (router.py, step 2 of the GUC source operation): one free Boolean per request
    st["fallback"] = {500: z3.Bool("flushed_request_500_unresolved_again"), 501: z3.Bool("flushed_request_501_unresolved_again"),
                      502: z3.Bool("flushed_request_502_unresolved_again")}

    def guc(it, a, k, pc):
        tok = it.tok(a[1])
        fb = z3.Or(*[z3.And(tok == t, b) for t, b in st["fallback"].items()])
        sent = z3.simplify(z3.And(pc, z3.Not(fb)))
        it.events.append((sent, "guc", a[1]))
        st["guc"].append((sent, len(it.events) - 1, tok))
        back = z3.simplify(z3.And(pc, fb))
        if not z3.is_false(back):
            it.call_function(Router.gn_ls_request, [a[0], DEST, a[1]], {}, back)
        return None
    E.stubs[Router.gn_data_request_guc] = guc

    def timer_method(it, o, name, a, k, pc):
        it.events.append((pc, "timer." + name, o.term))
        return None
    Ro.fields["_ls_packet_buffers"] = SDict([(pending0, DEST, SList([(has_old, old_req)]), False)])
    Ro.fields["_ls_retransmit_counters"] = SDict([(pending0, DEST, z3.Int("retransmit_count"), False)])
    Ro.fields["_ls_timers"] = SDict([(pending0, DEST, E.tokref(z3.IntVal(600), timer_method), False)])
    E.assumptions.append(z3.And(z3.Int("retransmit_count") >= 0, z3.Int("retransmit_count") <= 10))
    lock = R._ls_lock
    E.share(Ro, "_ls_packet_buffers", MapS([DEST], ListS(3)), "_ls_lock")
    E.share(Ro, "_ls_retransmit_counters", MapS([DEST], IntS(0, 11)), "_ls_lock")
    E.share(Ro, "_ls_timers", MapS([DEST], TokS(timer_method)), "_ls_lock")
    E.share(entry, "ls_pending", BoolS(), None)
    # the entry flag is written under the router's LS lock: declare that protection explicitly
    E.shared[(id(entry), "ls_pending")] = (entry, "ls_pending", BoolS(), "_router_ls_lock")
    entry.fields["_router_ls_lock"] = lock
    return R, Ro, entry


@vc("C15", "X3-location-service-requests-not-lost")
def ls_requests(ctx):
    """two concurrent gn_ls_request() for the same unknown destination: both unicast requests end up buffered, one lookup is started"""
    st = {}

    def build(E):
        R, Ro, entry = _ls_env(E, st)
        st["r1"], st["r2"] = E.tokref(z3.IntVal(501)), E.tokref(z3.IntVal(502))
        return dict(threads=[("a", Router.gn_ls_request, [Ro, DEST, st["r1"]]), ("b", Router.gn_ls_request, [Ro, DEST, st["r2"]])],
                    locks=[R._ls_lock], lock_names=["_ls_lock"])
    il = Ilv(build, unroll=4).run()
    il.cons = il.encode()
    E = il.E
    fin = il.final(st["Ro"], "_ls_packet_buffers")        # [present, len, e0, e1, e2]
    pend = il.final(st["entry"], "ls_pending")[0]
    has = lambda tok: z3.Or(*[z3.And(fin[1] > i, fin[2 + i] == tok) for i in range(3)])
    nsent = sum([z3.If(c, 1, 0) for c, i in st["sent"]]) if st["sent"] else z3.IntVal(0)
    exc = z3.Or(*[c for nm in ("a", "b") for c, k in il.rets[nm][1]]) if any(il.rets[nm][1] for nm in ("a", "b")) else FALSE
    vars_ = {"lookup_pending": st["pending0"], "one_request_already_buffered": st["has_old"], "retransmit_count": z3.Int("retransmit_count")}

    def replay(vals):
        from unittest import mock
        R, ll, got = real_router()
        e = mock.Mock()
        e.ls_pending = vals["lookup_pending"]
        R.location_table = mock.Mock()
        R.location_table.get_entry.return_value = e
        R.location_table.ensure_entry.return_value = e
        if vals["lookup_pending"]:
            R._ls_packet_buffers[DEST] = ["old"] if vals["one_request_already_buffered"] else []
            R._ls_retransmit_counters[DEST] = vals["retransmit_count"]
            R._ls_timers[DEST] = mock.Mock()
        sent = []
        R._send_ls_request_packet = lambda a: sent.append(a)
        sched = Scheduler(vals["schedule"])
        gate_object(R, {"_ls_packet_buffers": "_ls_lock", "_ls_retransmit_counters": "_ls_lock", "_ls_timers": "_ls_lock"}, sched, il.und_names)
        # the entry flag is a plain attribute of another object: gate it through a tiny proxy
        flag = {"v": vals["lookup_pending"]}

        class Entry:
            @property
            def ls_pending(self):
                if "ls_pending" in il.und_names and threading.current_thread().name in ("a", "b"):
                    sched.gate(threading.current_thread().name, "read ls_pending")
                return flag["v"]

            @ls_pending.setter
            def ls_pending(self, v):
                if "ls_pending" in il.und_names and threading.current_thread().name in ("a", "b"):
                    sched.gate(threading.current_thread().name, "write ls_pending")
                flag["v"] = v
        ent = Entry()
        R.location_table.get_entry.return_value = ent
        R.location_table.ensure_entry.return_value = ent
        import flexstack.geonet.router as RM
        with mock.patch.object(RM, "Timer", lambda *a, **k: mock.Mock()):
            res, sched = run_schedule(vals["schedule"], {"a": lambda: R.gn_ls_request(DEST, "req-a"), "b": lambda: R.gn_ls_request(DEST, "req-b")}, sched)
        if sched.failed:
            return False, "replay scheduler: " + sched.failed
        buf = R._ls_packet_buffers.get(DEST, [])
        bad = []
        for r in ("req-a", "req-b"):
            if buf.count(r) != 1:
                bad.append(f"{r} is buffered {buf.count(r)} time(s)")
        if vals["one_request_already_buffered"] and "old" not in buf:
            bad.append("the request that was already waiting was dropped")
        if not flag["v"]:
            bad.append("lookup not marked pending")
        if not vals["lookup_pending"] and len(sent) != 1:
            bad.append(f"{len(sent)} LS requests emitted for one new lookup")
        if vals["lookup_pending"] and sent:
            bad.append(f"{len(sent)} LS requests emitted although a lookup was already pending")
        return bool(bad), "two concurrent unicast requests towards an unresolved destination: " + ("; ".join(bad) or "both buffered") + f" (buffer {buf}, switch points {sched.trace})"
    feasible(ctx, il, "X3-some-schedule")
    solve(ctx, il, "X3-no-exception", exc, vars=vars_, replay=replay)
    solve(ctx, il, "X3-both-requests-buffered", z3.Not(z3.And(fin[0], has(501), has(502))), vars=vars_, replay=replay,
          desc="whatever the interleaving, both unicast requests are in the buffer of the sought destination afterwards (none lost, none overwritten)")
    solve(ctx, il, "X3-earlier-request-kept", z3.And(st["has_old"], z3.Not(has(500))), vars=vars_, replay=replay)
    solve(ctx, il, "X3-lookup-pending-afterwards", z3.Not(pend), vars=vars_, replay=replay)
    solve(ctx, il, "X3-one-ls-request-per-new-lookup", z3.Or(z3.And(z3.Not(st["pending0"]), nsent != 1), z3.And(st["pending0"], nsent != 0)), vars=vars_, replay=replay,
          desc="exactly one LS request packet is emitted when no lookup was pending, none when one was")
    no_deadlock(ctx, il, "X3")
    bounds_ok(ctx, il, "X3")
    note_blocks(ctx, il, "gn_ls_request || gn_ls_request (same destination)")
    ctx.stub("location table returns the entry of the sought address; _send_ls_request_packet recorded; timers are tokens")


# ---------------------------------------------------------------------------------------------- X3b-d reply / retransmission / request
from flexstack.geonet.ls_extended_header import LSReplyExtendedHeader
from flexstack.geonet.position_vector import ShortPositionVector

MAXR = 10          # itsGnLocationServiceMaxRetrans (default MIB)


def _ls_reply_env(E, st):
    LOCAL = st["R"].mib.itsGnLocalGnAddr
    hdr = LSReplyExtendedHeader(sn=5, so_pv=dataclasses.replace(LongPositionVector(), gn_addr=DEST),
                                de_pv=dataclasses.replace(ShortPositionVector(), gn_addr=LOCAL))
    st["reply_hdr"] = hdr
    E.stubs[LSReplyExtendedHeader.decode] = lambda it, a, k, pc: hdr
    E.stubs[Router.duplicate_address_detection] = lambda it, a, k, pc: None


def _ls_real(vals, il, names):
    """real router in the LS pre-state of the model, LS state gated"""
    from unittest import mock
    R, ll, got = real_router()
    sched = Scheduler(vals["schedule"])
    flag = {"v": bool(vals["lookup_pending"])}

    class Entry:
        @property
        def ls_pending(self):
            if "ls_pending" in il.und_names and threading.current_thread().name in names:
                sched.gate(threading.current_thread().name, "read ls_pending")
            return flag["v"]

        @ls_pending.setter
        def ls_pending(self, v):
            if "ls_pending" in il.und_names and threading.current_thread().name in names:
                sched.gate(threading.current_thread().name, "write ls_pending")
            flag["v"] = v
    ent = Entry()
    R.location_table = mock.Mock()
    R.location_table.get_entry.return_value = ent
    R.location_table.ensure_entry.return_value = ent
    old_timer = mock.Mock()
    if vals["lookup_pending"]:
        R._ls_packet_buffers[DEST] = ["old"] if vals["one_request_already_buffered"] else []
        R._ls_retransmit_counters[DEST] = vals["retransmit_count"]
        R._ls_timers[DEST] = old_timer
    sent, guc = [], []
    R._send_ls_request_packet = lambda a: sent.append(a)
    names_of = {"old": 500, "req-new": 501, "req-a": 501, "req-b": 502}

    def real_guc(req):
        if vals.get(f"flushed_request_{names_of.get(req, 0)}_unresolved_again"):
            return R.gn_ls_request(DEST, req)          # the fall-back of the real source operation for an unresolved destination
        guc.append(req)
    R.gn_data_request_guc = real_guc
    gate_object(R, {"_ls_packet_buffers": "_ls_lock", "_ls_retransmit_counters": "_ls_lock", "_ls_timers": "_ls_lock"}, sched, il.und_names)
    return R, sched, flag, sent, guc, old_timer


def _ls_reply_hangs(il, st):
    """real confirmation of a self-deadlock on the reply path: one waiting request whose destination is unresolved again when it is flushed"""
    def run():
        vals = {"lookup_pending": True, "one_request_already_buffered": True, "retransmit_count": 0, "flushed_request_500_unresolved_again": True, "schedule": []}
        R, sched, flag, sent, guc, old_timer = _ls_real(vals, il, ())
        R.duplicate_address_detection = lambda a: None
        from unittest import mock
        import flexstack.geonet.router as RM
        with mock.patch.object(RM, "Timer", lambda *a, **k: mock.Mock()):
            R.gn_data_indicate_ls_reply(st["reply_hdr"].encode(), CommonHeader(), BasicHeader())
    return lambda: hangs(run)


def _ls_common(il, st, names):
    fin = il.final(st["Ro"], "_ls_packet_buffers")
    pend = il.final(st["entry"], "ls_pending")[0]
    has = lambda tok: z3.Or(*[z3.And(fin[0], fin[1] > i, fin[2 + i] == tok) for i in range(3)])
    nguc = lambda tok: sum([z3.If(z3.And(c, t == tok), 1, 0) for c, i, t in st["guc"]]) if st["guc"] else z3.IntVal(0)
    nsent = sum([z3.If(c, 1, 0) for c, i in st["sent"]]) if st["sent"] else z3.IntVal(0)
    exc = z3.Or(*[c for nm in names for c, k in il.rets[nm][1]]) if any(il.rets[nm][1] for nm in names) else FALSE
    vars_ = {"lookup_pending": st["pending0"], "one_request_already_buffered": st["has_old"], "retransmit_count": z3.Int("retransmit_count")}
    vars_.update({b.decl().name(): b for b in st["fallback"].values()})
    return fin, pend, has, nguc, nsent, exc, vars_


@vc("C15", "X3-location-service-request-versus-reply")
def ls_request_reply(ctx):
    """gn_ls_request(destination, request) racing with the LS reply for that destination"""
    st = {}

    def build(E):
        R, Ro, entry = _ls_env(E, st)
        _ls_reply_env(E, st)
        st["r1"] = E.tokref(z3.IntVal(501))
        return dict(threads=[("request", Router.gn_ls_request, [Ro, DEST, st["r1"]]),
                             ("reply", Router.gn_data_indicate_ls_reply, [Ro, bytes(60), CommonHeader(), BasicHeader()])],
                    locks=[R._ls_lock], lock_names=["_ls_lock"])
    il = Ilv(build, unroll=4).run()
    il.cons = il.encode()
    names = ("request", "reply")
    fin, pend, has, nguc, nsent, exc, vars_ = _ls_common(il, st, names)

    def replay(vals):
        from unittest import mock
        import flexstack.geonet.router as RM
        R, sched, flag, sent, guc, old_timer = _ls_real(vals, il, names)
        R.duplicate_address_detection = lambda a: None
        packet = st["reply_hdr"].encode() + b""
        with mock.patch.object(RM, "Timer", lambda *a, **k: mock.Mock()):
            res, sched = run_schedule(vals["schedule"], {"request": lambda: R.gn_ls_request(DEST, "req-new"),
                                                         "reply": lambda: R.gn_data_indicate_ls_reply(packet, CommonHeader(), BasicHeader())}, sched)
        if sched.failed:
            return False, "replay scheduler: " + sched.failed
        buf = R._ls_packet_buffers.get(DEST, [])
        bad = [f"{n} raised {r[1]!r}" for n, r in res.items() if r[0] == "raised"]
        for r, was in (("req-new", True), ("old", vals["one_request_already_buffered"])):
            if not was:
                continue
            n_sent, waiting = guc.count(r), (r in buf and flag["v"])
            if n_sent > 1:
                bad.append(f"{r} sent {n_sent} times")
            if n_sent == 1 and r in buf:
                bad.append(f"{r} sent and still buffered")
            if n_sent == 0 and not waiting:
                bad.append(f"{r} neither sent after the reply nor waiting for a pending lookup (lost)")
        return bool(bad), "request || reply: " + ("; ".join(bad) or "ok") + f" (sent {guc}, buffer {buf}, pending {flag['v']}, switch points {sched.trace})"
    feasible(ctx, il, "X3b-some-schedule")
    feasible(ctx, il, "X3b-request-can-be-flushed-by-the-reply", nguc(501) == 1)
    feasible(ctx, il, "X3b-request-can-stay-buffered", z3.And(has(501), pend))
    solve(ctx, il, "X3b-no-exception", exc, vars=vars_, replay=replay)
    solve(ctx, il, "X3b-new-request-sent-once-or-still-waiting", z3.Not(z3.Or(z3.And(nguc(501) == 1, z3.Not(has(501))), z3.And(nguc(501) == 0, has(501), pend))),
          vars=vars_, replay=replay, desc="the request handed to gn_ls_request is sent exactly once by the reply handler or is still buffered under a pending lookup - never lost, never both")
    solve(ctx, il, "X3b-earlier-request-sent-once-or-still-waiting",
          z3.And(st["has_old"], z3.Not(z3.Or(z3.And(nguc(500) == 1, z3.Not(has(500))), z3.And(nguc(500) == 0, has(500), pend)))), vars=vars_, replay=replay)
    no_deadlock(ctx, il, "X3b", hang=_ls_reply_hangs(il, st))
    bounds_ok(ctx, il, "X3b")
    note_blocks(ctx, il, "gn_ls_request || gn_data_indicate_ls_reply (same destination)")
    ctx.stub("LS reply decoder returns a reply from the sought address to the local address; DAD passes; gn_data_request_guc recorded; "
             "location table returns the entry of the sought address")


@vc("C15", "X3-location-service-retransmission-versus-reply")
def ls_retransmit_reply(ctx):
    """retransmission timer callback racing with the LS reply: buffered request sent exactly once, or dropped only by the final retry"""
    st = {}

    def build(E):
        R, Ro, entry = _ls_env(E, st)
        E.assumptions.append(st["pending0"])
        _ls_reply_env(E, st)
        return dict(threads=[("timer", Router._ls_retransmit, [Ro, DEST]),
                             ("reply", Router.gn_data_indicate_ls_reply, [Ro, bytes(60), CommonHeader(), BasicHeader()])],
                    locks=[R._ls_lock], lock_names=["_ls_lock"])
    il = Ilv(build, unroll=4).run()
    il.cons = il.encode()
    names = ("timer", "reply")
    fin, pend, has, nguc, nsent, exc, vars_ = _ls_common(il, st, names)
    cnt = z3.Int("retransmit_count")

    def replay(vals):
        from unittest import mock
        import flexstack.geonet.router as RM
        R, sched, flag, sent, guc, old_timer = _ls_real(vals, il, names)
        R.duplicate_address_detection = lambda a: None
        packet = st["reply_hdr"].encode()
        with mock.patch.object(RM, "Timer", lambda *a, **k: mock.Mock()):
            res, sched = run_schedule(vals["schedule"], {"timer": lambda: R._ls_retransmit(DEST),
                                                         "reply": lambda: R.gn_data_indicate_ls_reply(packet, CommonHeader(), BasicHeader())}, sched)
        if sched.failed:
            return False, "replay scheduler: " + sched.failed
        buf = R._ls_packet_buffers.get(DEST, [])
        bad = [f"{n} raised {r[1]!r}" for n, r in res.items() if r[0] == "raised"]
        if vals["one_request_already_buffered"]:
            n = guc.count("old")
            if n > 1:
                bad.append(f"buffered request sent {n} times")
            again = vals.get("flushed_request_500_unresolved_again")
            if n == 0 and vals["retransmit_count"] < MAXR and not ("old" in buf and flag["v"]):
                bad.append("buffered request dropped although the retry limit had not been reached and the reply arrived")
            if "old" in buf and not again:
                bad.append("buffered request still buffered after the reply")
            if n == 1 and "old" in buf:
                bad.append("buffered request sent and still buffered")
        if flag["v"] and not vals.get("flushed_request_500_unresolved_again"):
            bad.append("lookup still marked pending after the reply")
        return bool(bad), "retransmission || reply: " + ("; ".join(bad) or "ok") + f" (sent {guc}, LS requests {len(sent)}, buffer {buf}, switch points {sched.trace})"
    feasible(ctx, il, "X3c-some-schedule")
    feasible(ctx, il, "X3c-final-retry-can-drop", z3.And(st["has_old"], nguc(500) == 0))
    solve(ctx, il, "X3c-no-exception", exc, vars=vars_, replay=replay)
    solve(ctx, il, "X3c-sent-at-most-once", nguc(500) > 1, vars=vars_, replay=replay)
    fb500 = st["fallback"][500]
    solve(ctx, il, "X3c-dropped-only-by-the-final-retry", z3.And(st["has_old"], nguc(500) == 0, cnt < MAXR, z3.Not(z3.And(has(500), pend))), vars=vars_, replay=replay,
          desc="a buffered request is sent after the reply unless the retransmission that gave up (count >= itsGnLocationServiceMaxRetrans) ran first")
    solve(ctx, il, "X3c-nothing-buffered-or-pending-afterwards", z3.And(z3.Not(fb500), z3.Or(has(500), pend)), vars=vars_, replay=replay,
          desc="unless the flushed request found its destination unresolved again (then it waits under a new lookup)")
    no_deadlock(ctx, il, "X3c", hang=_ls_reply_hangs(il, st))
    bounds_ok(ctx, il, "X3c")
    note_blocks(ctx, il, "_ls_retransmit || gn_data_indicate_ls_reply (same destination)")


@vc("C15", "X3-location-service-retransmission-versus-request")
def ls_retransmit_request(ctx):
    """retransmission timer callback racing with a new unicast request for the same destination"""
    st = {}

    def build(E):
        R, Ro, entry = _ls_env(E, st)
        E.assumptions.append(st["pending0"])
        st["r1"] = E.tokref(z3.IntVal(501))
        return dict(threads=[("timer", Router._ls_retransmit, [Ro, DEST]), ("request", Router.gn_ls_request, [Ro, DEST, st["r1"]])],
                    locks=[R._ls_lock], lock_names=["_ls_lock"])
    il = Ilv(build, unroll=4).run()
    il.cons = il.encode()
    names = ("timer", "request")
    fin, pend, has, nguc, nsent, exc, vars_ = _ls_common(il, st, names)
    cnt = z3.Int("retransmit_count")

    def replay(vals):
        from unittest import mock
        import flexstack.geonet.router as RM
        R, sched, flag, sent, guc, old_timer = _ls_real(vals, il, names)
        with mock.patch.object(RM, "Timer", lambda *a, **k: mock.Mock()):
            res, sched = run_schedule(vals["schedule"], {"timer": lambda: R._ls_retransmit(DEST), "request": lambda: R.gn_ls_request(DEST, "req-new")}, sched)
        if sched.failed:
            return False, "replay scheduler: " + sched.failed
        buf = R._ls_packet_buffers.get(DEST, [])
        bad = [f"{n} raised {r[1]!r}" for n, r in res.items() if r[0] == "raised"]
        if vals["retransmit_count"] < MAXR:
            if "req-new" not in buf:
                bad.append("new request lost although the lookup continues")
            if vals["one_request_already_buffered"] and "old" not in buf:
                bad.append("earlier request lost although the lookup continues")
            if not flag["v"]:
                bad.append("lookup no longer pending although the retry limit was not reached")
        else:
            if "req-new" in buf and not flag["v"]:
                bad.append("new request buffered without a pending lookup (would never be sent nor dropped)")
        if buf.count("req-new") > 1:
            bad.append("new request buffered twice")
        return bool(bad), "retransmission || request: " + ("; ".join(bad) or "ok") + f" (buffer {buf}, pending {flag['v']}, LS requests {len(sent)}, switch points {sched.trace})"
    feasible(ctx, il, "X3d-some-schedule")
    solve(ctx, il, "X3d-no-exception", exc, vars=vars_, replay=replay)
    solve(ctx, il, "X3d-requests-kept-while-the-lookup-continues", z3.And(cnt < MAXR, z3.Or(z3.Not(has(501)), z3.And(st["has_old"], z3.Not(has(500))), z3.Not(pend))),
          vars=vars_, replay=replay, desc="below the retry limit a retransmission never drops a buffered request, old or concurrently added, and the lookup stays pending")
    solve(ctx, il, "X3d-no-orphan-after-giving-up", z3.And(cnt >= MAXR, has(501), z3.Not(pend)), vars=vars_, replay=replay,
          desc="at the retry limit the new request is either dropped with the others or buffered under a freshly started (pending) lookup")
    no_deadlock(ctx, il, "X3d")
    bounds_ok(ctx, il, "X3d")
    note_blocks(ctx, il, "_ls_retransmit || gn_ls_request (same destination)")


# ---------------------------------------------------------------------------------------------- X4 ego position vector
PV_FIELDS = ["latitude", "longitude", "tst", "s", "h"]


@vc("C15", "X4-emitted-position-vector-is-a-snapshot")
def ego_pv(ctx):
    """beacon emission racing with two position refreshes: the emitted vector equals, field by field, one value the ego position held"""
    st = {}

    def build(E):
        R, ll, got = real_router()
        Ro = E.lift(R)
        shape = RecS(LongPositionVector, PV_FIELDS, const=dict(gn_addr=R.mib.itsGnLocalGnAddr, pai=True))
        pv0 = shape.fresh(E, "pv0")
        Ro.fields["ego_position_vector"] = pv0
        E.share(Ro, "ego_position_vector", shape, "ego_position_vector_lock")
        news, emitted = [], []

        def refresh(it, a, k, pc):
            n = shape.fresh(it, f"pv_new{len(news)}")
            news.append((pc, n))
            return n
        E.stubs[LongPositionVector.refresh_with_tpv_data] = refresh

        def enc(it, a, k, pc):
            emitted.append((pc, shape.flat(it, a[0])))
            it.events.append((pc, "pv_encoded", None))
            return bytes(24)
        E.stubs[LongPositionVector.encode] = enc
        E.stubs[BasicHeader.encode_to_bytes] = lambda it, a, k, pc: bytes(4)
        E.stubs[CommonHeader.encode_to_bytes] = lambda it, a, k, pc: bytes(8)
        lls = Opaque("link_layer")
        E.stubs[id(lls)] = lambda it, name, a, k, pc: None
        Ro.fields["link_layer"] = lls
        st.update(R=R, Ro=Ro, pv0=pv0, news=news, emitted=emitted, shape=shape)
        tpv = {"lat": 1.0}
        return dict(threads=[("beacon", Router.gn_data_request_beacon, [Ro]), ("gps1", Router.refresh_ego_position_vector, [Ro, tpv]),
                             ("gps2", Router.refresh_ego_position_vector, [Ro, tpv])],
                    locks=[R.ego_position_vector_lock], lock_names=["ego_position_vector_lock"])
    il = Ilv(build).run()
    il.cons = il.encode()
    E = il.E
    shape = st["shape"]
    cands = [shape.flat(E, st["pv0"])] + [shape.flat(E, n) for _, n in st["news"]]
    exc = z3.Or(*[c for nm in ("beacon", "gps1", "gps2") for c, k in il.rets[nm][1]]) if any(il.rets[nm][1] for nm in ("beacon", "gps1", "gps2")) else FALSE
    fin = il.final(st["Ro"], "ego_position_vector")

    def replay(vals):
        R, ll, got = real_router()
        sched = Scheduler(vals["schedule"])
        seen = []
        import flexstack.geonet.position_vector as PVM
        pvs = [dataclasses.replace(LongPositionVector(), gn_addr=R.mib.itsGnLocalGnAddr, latitude=10 * (i + 1), longitude=100 * (i + 1), s=i + 1) for i in range(3)]
        R.ego_position_vector = pvs[0]
        it = iter(pvs[1:])
        from unittest import mock
        gate_object(R, {"ego_position_vector": "ego_position_vector_lock"}, sched, il.und_names)
        with mock.patch.object(PVM.LongPositionVector, "refresh_with_tpv_data", lambda self, tpv: next(it)):
            res, sched = run_schedule(vals["schedule"], {"beacon": R.gn_data_request_beacon, "gps1": lambda: R.refresh_ego_position_vector({}),
                                                         "gps2": lambda: R.refresh_ego_position_vector({})}, sched)
        if sched.failed:
            return False, "replay scheduler: " + sched.failed
        bad = [f"{n} raised {r[1]!r}" for n, r in res.items() if r[0] == "raised"]
        if len(ll.sent) != 1:
            bad.append(f"{len(ll.sent)} beacons sent")
        else:
            got_pv = LongPositionVector.decode(ll.sent[0][12:36])
            if not any((got_pv.latitude, got_pv.longitude, got_pv.s) == (p.latitude, p.longitude, p.s) for p in pvs):
                bad.append(f"emitted vector (lat {got_pv.latitude}, lon {got_pv.longitude}, speed {got_pv.s}) is none of the vectors the ego position ever held")
        fin_ = object.__getattribute__(R, "ego_position_vector")
        if fin_ is not pvs[2] and fin_ is not pvs[1]:
            bad.append("a refresh was lost entirely")
        return bool(bad), "beacon || refresh || refresh: " + ("; ".join(bad) or "ok") + f" (switch points {sched.trace})"
    feasible(ctx, il, "X4-some-schedule")
    for j in range(len(cands)):
        feasible(ctx, il, f"X4-beacon-can-carry-vector-{j}", z3.And(*[z3.And(c, *[e == x for e, x in zip(fl, cands[j])]) for c, fl in st["emitted"]]))
    solve(ctx, il, "X4-no-exception", exc, vars={}, replay=replay)
    for c, fl in st["emitted"]:
        solve(ctx, il, "X4-emitted-vector-is-one-of-the-ego-positions", z3.And(c, z3.Not(z3.Or(*[z3.And(*[e == x for e, x in zip(fl, cand)]) for cand in cands]))),
              vars={}, replay=replay, desc="all fields of the emitted position vector come from one and the same ego position value (initial or written by a refresh): no torn vector")
    solve(ctx, il, "X4-final-position-is-the-last-refresh", z3.Not(z3.Or(*[z3.And(*[e == x for e, x in zip(fin, cand)]) for cand in cands[1:]])), vars={}, replay=replay,
          desc="after both refreshes the ego position is one of the two new vectors (a refresh is never undone by the other's stale write)")
    no_deadlock(ctx, il, "X4")
    note_blocks(ctx, il, "gn_data_request_beacon || refresh_ego_position_vector x 2")
    ctx.stub("refresh_with_tpv_data returns a fresh arbitrary position vector (its computation is C11/C01 material); header and vector encoders return placeholders, "
             "the encoded vector's fields are recorded")


# ---------------------------------------------------------------------------------------------- thorough tier: three actors
@vc("C15", "X2-cbf-expiry-versus-two-receptions", tiers=("thorough",))
def cbf_three_actors(ctx):
    """timer expiry racing with two receptions of the same packet (the second reception re-buffers what the first one cancelled)"""
    state = {}
    present = z3.Bool("entry_present")
    pending = z3.Int("pending_timer")
    own_buffered = z3.And(present, pending == OWN)

    def build(E):
        R, Ro, sends, cancels = _cbf_env(E, present)
        state.update(R=R, Ro=Ro, sends=sends, cancels=cancels)
        pkt = SBytes([z3.BitVecVal(i, 8) for i in range(8)])
        args = [Ro, BasicHeader(), CommonHeader(), EXT, b"PAYLOAD"]
        return dict(threads=[("expiry", Router._cbf_timeout, [Ro, CBF_KEY, pkt]), ("rx1", Router.gn_area_cbf_forwarding, list(args)),
                             ("rx2", Router.gn_area_cbf_forwarding, list(args))], locks=[R._cbf_lock], lock_names=["_cbf_lock"])
    il = Ilv(build).run()
    il.cons = il.encode()
    sends, cancels = state["sends"], state["cancels"]
    names = ("expiry", "rx1", "rx2")
    sent = z3.Or(*[c for c, i, p in sends]) if sends else FALSE
    nsent = sum([z3.If(c, 1, 0) for c, i, p in sends]) if sends else z3.IntVal(0)
    own_cancelled = z3.Or(*[z3.And(c, t == OWN) for c, i, t in cancels]) if cancels else FALSE
    exc = z3.Or(*[c for nm in names for c, k in il.rets[nm][1]]) if any(il.rets[nm][1] for nm in names) else FALSE
    vars_ = {"entry_present": present, "own_copy_buffered": own_buffered}

    def replay(vals):
        from unittest import mock
        import flexstack.geonet.router as RM
        R, ll, got = real_router()
        sched = Scheduler(vals["schedule"])
        own = _OwnTimer(None, "expiry", ll)
        if vals["own_copy_buffered"]:
            R._cbf_buffer[CBF_KEY] = own
        elif vals["entry_present"]:
            R._cbf_buffer[CBF_KEY] = _FakeTimer(ll)

        def mk(target, name):
            own.function = target
            return own
        gate_object(R, {"_cbf_buffer": "_cbf_lock"}, sched, il.und_names)
        rx = lambda: R.gn_area_cbf_forwarding(BasicHeader(), CommonHeader(), EXT, b"PAYLOAD")
        with mock.patch.object(RM, "Timer", lambda *a, **k: _FakeTimer(ll)):
            res, sched = run_schedule(vals["schedule"], {"expiry": lambda: R._cbf_timeout(CBF_KEY, b"PKT"), "rx1": rx, "rx2": rx}, sched, mk_thread={"expiry": mk})
        if sched.failed:
            return False, "replay scheduler: " + sched.failed
        bad = [f"{n} raised {r[1]!r}" for n, r in res.items() if r[0] == "raised"]
        if not vals["own_copy_buffered"] and ll.sent:
            bad.append("the expired timer's copy was transmitted although its entry had already been removed")
        if vals["own_copy_buffered"] and own.cancelled and ll.sent:
            bad.append("own copy both cancelled and transmitted")
        if len(ll.sent) > 1:
            bad.append(f"transmitted {len(ll.sent)} times")
        return bool(bad), f"expiry || reception || reception from entry_present={vals['entry_present']} own_copy_buffered={vals['own_copy_buffered']}: " + \
            ("; ".join(bad) or "ok") + f" (switch points {sched.trace})"
    feasible(ctx, il, "X2d-some-schedule")
    feasible(ctx, il, "X2d-cancelled-then-rebuffered", z3.And(own_buffered, own_cancelled, il.final(state["Ro"], "_cbf_buffer")[0]))
    solve(ctx, il, "X2d-no-exception", exc, vars=vars_, replay=replay)
    solve(ctx, il, "X2d-never-both-cancelled-and-transmitted", z3.And(own_buffered, sent, own_cancelled), vars=vars_, replay=replay)
    solve(ctx, il, "X2d-cancelled-copy-never-transmitted", z3.And(z3.Not(own_buffered), sent), vars=vars_, replay=replay)
    solve(ctx, il, "X2d-transmitted-at-most-once", nsent > 1, vars=vars_, replay=replay)
    no_deadlock(ctx, il, "X2d")
    note_blocks(ctx, il, "_cbf_timeout || gn_area_cbf_forwarding || gn_area_cbf_forwarding (same packet)")


@vc("C15", "X3-location-service-request-reply-retransmission", tiers=("thorough",))
def ls_three_actors(ctx):
    """a new unicast request, the LS reply and the retransmission timer of the same lookup, all three concurrent"""
    st = {}

    def build(E):
        R, Ro, entry = _ls_env(E, st)
        E.assumptions.append(st["pending0"])
        _ls_reply_env(E, st)
        st["r1"] = E.tokref(z3.IntVal(501))
        return dict(threads=[("request", Router.gn_ls_request, [Ro, DEST, st["r1"]]), ("timer", Router._ls_retransmit, [Ro, DEST]),
                             ("reply", Router.gn_data_indicate_ls_reply, [Ro, bytes(60), CommonHeader(), BasicHeader()])],
                    locks=[R._ls_lock], lock_names=["_ls_lock"])
    il = Ilv(build, unroll=4).run()
    il.cons = il.encode()
    names = ("request", "timer", "reply")
    fin, pend, has, nguc, nsent, exc, vars_ = _ls_common(il, st, names)
    cnt = z3.Int("retransmit_count")

    def replay(vals):
        from unittest import mock
        import flexstack.geonet.router as RM
        R, sched, flag, sent, guc, old_timer = _ls_real(vals, il, names)
        R.duplicate_address_detection = lambda a: None
        packet = st["reply_hdr"].encode()
        with mock.patch.object(RM, "Timer", lambda *a, **k: mock.Mock()):
            res, sched = run_schedule(vals["schedule"], {"request": lambda: R.gn_ls_request(DEST, "req-new"), "timer": lambda: R._ls_retransmit(DEST),
                                                         "reply": lambda: R.gn_data_indicate_ls_reply(packet, CommonHeader(), BasicHeader())}, sched)
        if sched.failed:
            return False, "replay scheduler: " + sched.failed
        buf = R._ls_packet_buffers.get(DEST, [])
        bad = [f"{n} raised {r[1]!r}" for n, r in res.items() if r[0] == "raised"]
        for r, was in (("req-new", True), ("old", vals["one_request_already_buffered"])):
            if not was:
                continue
            n_sent, waiting = guc.count(r), (r in buf and flag["v"])
            if n_sent > 1:
                bad.append(f"{r} sent {n_sent} times")
            if n_sent == 1 and r in buf:
                bad.append(f"{r} sent and still buffered")
            if n_sent == 0 and not waiting and vals["retransmit_count"] < MAXR:
                bad.append(f"{r} neither sent after the reply nor waiting for a pending lookup although the retry limit was not reached (lost)")
        return bool(bad), "request || retransmission || reply: " + ("; ".join(bad) or "ok") + f" (sent {guc}, buffer {buf}, pending {flag['v']}, switch points {sched.trace})"
    ok = lambda tok: z3.Or(z3.And(nguc(tok) == 1, z3.Not(has(tok))), z3.And(nguc(tok) == 0, has(tok), pend), z3.And(nguc(tok) == 0, z3.Not(has(tok)), cnt >= MAXR))
    feasible(ctx, il, "X3e-some-schedule")
    solve(ctx, il, "X3e-no-exception", exc, vars=vars_, replay=replay)
    solve(ctx, il, "X3e-new-request-sent-once-waiting-or-dropped-at-the-limit", z3.Not(ok(501)), vars=vars_, replay=replay,
          desc="sent exactly once after the reply, or still buffered under a pending lookup, or dropped by the give-up at the retry limit - never lost otherwise, never twice")
    solve(ctx, il, "X3e-earlier-request-sent-once-waiting-or-dropped-at-the-limit", z3.And(st["has_old"], z3.Not(ok(500))), vars=vars_, replay=replay)
    no_deadlock(ctx, il, "X3e", hang=_ls_reply_hangs(il, st))
    bounds_ok(ctx, il, "X3e")
    note_blocks(ctx, il, "gn_ls_request || _ls_retransmit || gn_data_indicate_ls_reply (same destination)")


# ---------------------------------------------------------------------------------------------- X5 concurrent origination
from flexstack.geonet.router import GNForwardingAlgorithmResponse
from flexstack.geonet.service_access_point import GNDataRequest, PacketTransportType, Area, TrafficClass, CommonNH, CommunicationProfile


def _gbc_request(tag):
    return GNDataRequest(upper_protocol_entity=CommonNH.BTP_B,
                         packet_transport_type=PacketTransportType(header_type=HeaderType.GEOBROADCAST, header_subtype=GeoBroadcastHST.GEOBROADCAST_CIRCLE),
                         communication_profile=CommunicationProfile.UNSPECIFIED, traffic_class=TrafficClass(), length=4, data=tag,
                         area=Area(latitude=415520000, longitude=21340000, a=500, b=500, angle=0), max_hop_limit=3)


@vc("C15", "X5-concurrent-origination-sequence-numbers-and-position")
def origination(ctx):
    """two geo-broadcast requests originated concurrently while the position is refreshed: the packets carry distinct sequence numbers
    (from every counter value) and each a position vector that was the ego position at some instant"""
    st = {}
    n = 3 if ctx.tier == "thorough" else 2
    names = [f"app{i}" for i in range(n)]

    def build(E):
        R, ll, got = real_router()
        Ro = E.lift(R)
        shape = RecS(LongPositionVector, PV_FIELDS, const=dict(gn_addr=R.mib.itsGnLocalGnAddr, pai=True))
        pv0 = shape.fresh(E, "pv0")
        Ro.fields["ego_position_vector"] = pv0
        sn0 = z3.Int("sn0")
        E.assumptions.append(z3.And(sn0 >= 0, sn0 <= 65534))
        Ro.fields["sequence_number"] = sn0
        E.share(Ro, "sequence_number", IntS(0, 65535), "sequence_number_lock")
        E.share(Ro, "ego_position_vector", shape, "ego_position_vector_lock")
        news, made = [], []

        def refresh(it, a, k, pc):
            v = shape.fresh(it, f"pv_new{len(news)}")
            news.append((pc, v))
            return v
        E.stubs[LongPositionVector.refresh_with_tpv_data] = refresh

        def mk_header(it, a, k, pc):
            sn, pv = a[-2], a[-1]          # (cls,) request, sequence number, ego position vector
            made.append((pc, it.cur_thread, it.tok(sn), shape.flat(it, pv)))
            return Obj(GBCExtendedHeader, dict(sn=sn, so_pv=pv))
        E.stubs[GBCExtendedHeader.initialize_with_request_sequence_number_ego_pv] = mk_header
        E.stubs[GBCExtendedHeader.encode] = lambda it, a, k, pc: bytes(44)
        E.stubs[BasicHeader.encode_to_bytes] = lambda it, a, k, pc: bytes(4)
        E.stubs[CommonHeader.encode_to_bytes] = lambda it, a, k, pc: bytes(8)
        E.stubs[Router._compute_area_size_m2] = lambda it, a, k, pc: 0
        E.stubs[Router.gn_forwarding_algorithm_selection] = lambda it, a, k, pc: GNForwardingAlgorithmResponse.AREA_FORWARDING
        lt = Opaque("location_table")
        E.stubs[id(lt)] = lambda it, name, a, k, pc: SList([(TRUE, Opaque("neighbour"))]) if name == "get_neighbours" else None
        Ro.fields["location_table"] = lt
        sends = []
        lls = Opaque("link_layer")
        E.stubs[id(lls)] = lambda it, name, a, k, pc: sends.append((pc, it.cur_thread))
        Ro.fields["link_layer"] = lls
        st.update(R=R, Ro=Ro, pv0=pv0, news=news, made=made, sends=sends, shape=shape, sn0=sn0)
        ths = [(nm, Router.gn_data_request_gbc, [Ro, _gbc_request(nm.encode())]) for nm in names]
        ths.append(("gps", Router.refresh_ego_position_vector, [Ro, {"lat": 1.0}]))
        return dict(threads=ths, locks=[R.sequence_number_lock, R.ego_position_vector_lock], lock_names=["sequence_number_lock", "ego_position_vector_lock"])
    il = Ilv(build).run()
    il.cons = il.encode()
    E = il.E
    shape = st["shape"]
    made = st["made"]
    cands = [shape.flat(E, st["pv0"])] + [shape.flat(E, v) for _, v in st["news"]]
    allnames = names + ["gps"]
    exc = z3.Or(*[c for nm in allnames for c, k in il.rets[nm][1]]) if any(il.rets[nm][1] for nm in allnames) else FALSE
    vars_ = {"sn0": st["sn0"]}

    def replay(vals):
        import flexstack.geonet.position_vector as PVM
        from unittest import mock
        R, ll, got = real_router()
        R.sequence_number = vals["sn0"]
        pvs = [dataclasses.replace(LongPositionVector(), gn_addr=R.mib.itsGnLocalGnAddr, latitude=10 * (i + 1), longitude=100 * (i + 1), s=i + 1) for i in range(2)]
        R.ego_position_vector = pvs[0]
        R.location_table = mock.Mock()
        R.location_table.get_neighbours.return_value = [object()]
        R.gn_forwarding_algorithm_selection = lambda req, sender=None: GNForwardingAlgorithmResponse.AREA_FORWARDING
        sched = Scheduler(vals["schedule"])
        gate_object(R, {"sequence_number": "sequence_number_lock", "ego_position_vector": "ego_position_vector_lock"}, sched, il.und_names)
        fns = {nm: (lambda nm=nm: R.gn_data_request_gbc(_gbc_request(nm.encode()))) for nm in names}
        fns["gps"] = lambda: R.refresh_ego_position_vector({})
        with mock.patch.object(PVM.LongPositionVector, "refresh_with_tpv_data", lambda self, tpv: pvs[1]):
            res, sched = run_schedule(vals["schedule"], fns, sched)
        if sched.failed:
            return False, "replay scheduler: " + sched.failed
        bad = [f"{k} raised {r[1]!r}" for k, r in res.items() if r[0] == "raised"]
        sns, seen = [], []
        for p in ll.sent:
            hdr = GBCExtendedHeader.decode(p[12:56])
            sns.append(hdr.sn)
            if not any((hdr.so_pv.latitude, hdr.so_pv.longitude, hdr.so_pv.s) == (q.latitude, q.longitude, q.s) for q in pvs):
                bad.append(f"packet with SN {hdr.sn} carries a position vector (lat {hdr.so_pv.latitude}, lon {hdr.so_pv.longitude}, speed {hdr.so_pv.s}) the station never had")
        if len(ll.sent) != len(names):
            bad.append(f"{len(ll.sent)} packets for {len(names)} requests")
        if len(set(sns)) != len(sns):
            bad.append(f"sequence numbers not distinct: {sns}")
        return bool(bad), f"{len(names)} concurrent geo-broadcast originations from counter {vals['sn0']} + position refresh: " + ("; ".join(bad) or "ok") + f" (SNs {sns}, switch points {sched.trace})"
    feasible(ctx, il, "X5-some-schedule")
    feasible(ctx, il, "X5-every-request-is-sent", z3.And(*[z3.Or(*[c for c, t in st["sends"] if t == nm]) if any(t == nm for c, t in st["sends"]) else FALSE for nm in names]))
    solve(ctx, il, "X5-no-exception", exc, vars=vars_, replay=replay)
    per = {nm: [(c, sn, pv) for c, t, sn, pv in made if t == nm] for nm in names}
    pairs = [(a, b) for i, a in enumerate(names) for b in names[:i]]
    solve(ctx, il, "X5-sequence-numbers-of-originated-packets-distinct",
          z3.Or(*[z3.And(ca, cb, sa == sb) for a, b in pairs for ca, sa, _ in per[a] for cb, sb, _ in per[b]]) if pairs else FALSE, vars=vars_, replay=replay,
          desc="the sequence numbers handed to the GBC headers of concurrently originated packets are pairwise distinct, from every counter value")
    solve(ctx, il, "X5-one-header-per-request", z3.Or(*[sum([z3.If(c, 1, 0) for c, _, _ in per[nm]]) != 1 for nm in names]), vars=vars_, replay=replay)
    solve(ctx, il, "X5-position-vector-of-every-packet-is-an-ego-position",
          z3.Or(*[z3.And(c, z3.Not(z3.Or(*[z3.And(*[e == x for e, x in zip(pv, cand)]) for cand in cands]))) for nm in names for c, _, pv in per[nm]]), vars=vars_, replay=replay,
          desc="every field of the source position vector of an originated packet comes from one and the same value the ego position held (no torn vector)")
    no_deadlock(ctx, il, "X5")
    note_blocks(ctx, il, f"{len(names)} x gn_data_request_gbc || refresh_ego_position_vector")
    ctx.stub("area size 0, forwarding selection = area forwarding, one neighbour, header encoders return placeholders; the GBC header initialiser records the sequence "
             "number and position vector it is given; refresh_with_tpv_data returns a fresh arbitrary vector")


@vc("C15", "X3-location-service-duplicate-replies", tiers=("thorough",))
def ls_two_replies(ctx):
    """the LS reply received twice concurrently (two paths): every waiting request is sent exactly once"""
    st = {}

    def build(E):
        R, Ro, entry = _ls_env(E, st)
        E.assumptions.append(st["pending0"])
        _ls_reply_env(E, st)
        args = [Ro, bytes(60), CommonHeader(), BasicHeader()]
        return dict(threads=[("reply1", Router.gn_data_indicate_ls_reply, list(args)), ("reply2", Router.gn_data_indicate_ls_reply, list(args))],
                    locks=[R._ls_lock], lock_names=["_ls_lock"])
    il = Ilv(build, unroll=4).run()
    il.cons = il.encode()
    names = ("reply1", "reply2")
    fin, pend, has, nguc, nsent, exc, vars_ = _ls_common(il, st, names)

    def replay(vals):
        from unittest import mock
        R, sched, flag, sent, guc, old_timer = _ls_real(vals, il, names)
        R.duplicate_address_detection = lambda a: None
        packet = st["reply_hdr"].encode()
        fn = lambda: R.gn_data_indicate_ls_reply(packet, CommonHeader(), BasicHeader())
        res, sched = run_schedule(vals["schedule"], {"reply1": fn, "reply2": fn}, sched)
        if sched.failed:
            return False, "replay scheduler: " + sched.failed
        bad = [f"{n} raised {r[1]!r}" for n, r in res.items() if r[0] == "raised"]
        again = vals.get("flushed_request_500_unresolved_again")
        buf = R._ls_packet_buffers.get(DEST, [])
        if vals["one_request_already_buffered"] and not ((guc.count("old") == 1 and "old" not in buf) or (guc.count("old") == 0 and "old" in buf and flag["v"])):
            bad.append(f"waiting request sent {guc.count('old')} times, buffered {buf.count('old')} times")
        if not again and (DEST in R._ls_packet_buffers or flag["v"]):
            bad.append("buffer or pending flag left behind")
        return bool(bad), "reply || reply: " + ("; ".join(bad) or "ok") + f" (sent {guc}, switch points {sched.trace})"
    feasible(ctx, il, "X3f-some-schedule")
    feasible(ctx, il, "X3f-waiting-request-can-be-sent", z3.And(st["has_old"], nguc(500) == 1))
    solve(ctx, il, "X3f-no-exception", exc, vars=vars_, replay=replay)
    fb500 = st["fallback"][500]
    solve(ctx, il, "X3f-waiting-request-sent-exactly-once-or-waiting-again", z3.And(st["has_old"], z3.Not(z3.Or(z3.And(nguc(500) == 1, z3.Not(has(500))),
                                                                                                     z3.And(nguc(500) == 0, has(500), pend)))), vars=vars_, replay=replay)
    solve(ctx, il, "X3f-nothing-buffered-or-pending-afterwards", z3.And(z3.Not(fb500), z3.Or(fin[0], pend)), vars=vars_, replay=replay)
    no_deadlock(ctx, il, "X3f", hang=_ls_reply_hangs(il, st))
    bounds_ok(ctx, il, "X3f")
    note_blocks(ctx, il, "gn_data_indicate_ls_reply || gn_data_indicate_ls_reply (same sought station)")


# ---------------------------------------------------------------------------------------------- X6 location table under concurrent receptions
from flexstack.geonet.location_table import LocationTable


@vc("C15", "X6-location-table-concurrent-receptions")
def loct_concurrent(ctx):
    """two frames from two stations the table does not know yet are processed at the same time (each: insert the source, update it, refresh the
    table): afterwards both sources - and a third one that was already known - are in the table, and no thread failed"""
    from .c08 import sym_entry, time_stub, clock_ms, P32
    from flexstack.geonet.mib import MIB
    from flexstack.utils.time_service import TimeService, ITS_EPOCH, ELAPSED_SECONDS
    st = {}
    addrs = [GNAddress(m=M.GN_UNICAST, st=ST.PASSENGER_CAR, mid=MID(bytes([i + 1] * 6))) for i in range(3)]

    def build(E):
        mib = MIB()
        T = LocationTable(mib)
        To = E.lift(T)
        now = time_stub(E)
        ents = []
        for i, nm in enumerate(("known", "first", "second")):
            e = sym_entry(E, nm, mib)
            e.fields["position_vector"].fields["gn_addr"] = addrs[i]
            ents.append(e)
            # every position timestamp is fresh: expiry is C08's subject, here nothing may disappear
            cur = clock_ms(z3.ToInt(now))
            E.assumptions.append((cur - e.fields["position_vector"].fields["tst"].fields["msec"]) % P32 <= mib.itsGnLifetimeLocTE * 1000 - 2000)
        known = z3.Bool("third_station_known")
        To.fields["loc_t"] = SDict([(known, addrs[0], ents[0], False)])
        E.share(To, "loc_t", MapS(addrs, RefS(ents)), "loc_t_lock")
        # the entry a reception creates for an unknown source is the pre-built one of that actor
        E.stubs[LocationTableEntry] = lambda it, a, k, pc: {"rx1": ents[1], "rx2": ents[2]}[it.cur_thread]
        E.stubs[LocationTableEntry.update_with_shb_packet] = lambda it, a, k, pc: None          # the entry's own update: C08
        st.update(T=T, To=To, ents=ents, known=known, now=now)
        pvs = [ents[1].fields["position_vector"], ents[2].fields["position_vector"]]
        return dict(threads=[("rx1", LocationTable.new_shb_packet, [To, pvs[0], b"P1"]), ("rx2", LocationTable.new_shb_packet, [To, pvs[1], b"P2"])],
                    locks=[T.loc_t_lock], lock_names=["loc_t_lock"])
    il = Ilv(build).run()
    il.cons = il.encode()
    fin = il.final(st["To"], "loc_t")          # per key: present, entry index
    names = ("rx1", "rx2")
    exc = z3.Or(*[c for nm in names for c, k in il.rets[nm][1]]) if any(il.rets[nm][1] for nm in names) else FALSE
    vars_ = {"third_station_known": st["known"]}

    def replay(vals):
        from unittest import mock
        import dataclasses as dc
        mib = MIB()
        T = LocationTable(mib)
        now_s = 1.7e9
        tst_ms = int(((int(now_s) - ITS_EPOCH + ELAPSED_SECONDS) * 1000) % 2 ** 32)
        from flexstack.geonet.position_vector import TST as TST_
        pv = lambda a: dc.replace(LongPositionVector(), gn_addr=a, tst=TST_(msec=tst_ms - 1000))
        if vals["third_station_known"]:
            e0 = LocationTableEntry(mib)
            e0.position_vector = pv(addrs[0])
            T.loc_t[addrs[0]] = e0
        sched = Scheduler(vals["schedule"])
        gate_object(T, {"loc_t": "loc_t_lock"}, sched, il.und_names)
        with mock.patch.object(TimeService, "time", staticmethod(lambda: now_s)):
            res, sched = run_schedule(vals["schedule"], {"rx1": lambda: T.new_shb_packet(pv(addrs[1]), b"P1"), "rx2": lambda: T.new_shb_packet(pv(addrs[2]), b"P2")}, sched)
        if sched.failed:
            return False, "replay scheduler: " + sched.failed
        bad = [f"{n} raised {r[1]!r}" for n, r in res.items() if r[0] == "raised"]
        table = object.__getattribute__(T, "loc_t")
        for i, what in ((1, "source of the first frame"), (2, "source of the second frame")) + (((0, "station known before"),) if vals["third_station_known"] else ()):
            if addrs[i] not in table:
                bad.append(f"{what} is not in the location table afterwards")
        return bool(bad), "two concurrent receptions from unknown stations: " + ("; ".join(bad) or "ok") + f" (switch points {sched.trace})"
    feasible(ctx, il, "X6-some-schedule")
    solve(ctx, il, "X6-no-exception", exc, vars=vars_, replay=replay)
    solve(ctx, il, "X6-both-sources-in-the-table", z3.Not(z3.And(fin[2], fin[4])), vars=vars_, replay=replay,
          desc="the location-table entry created by one reception is not lost to the table refresh of the other")
    solve(ctx, il, "X6-known-station-kept", z3.And(st["known"], z3.Not(fin[0])), vars=vars_, replay=replay)
    no_deadlock(ctx, il, "X6")
    bounds_ok(ctx, il, "X6")
    note_blocks(ctx, il, "LocationTable.new_shb_packet || LocationTable.new_shb_packet (two unknown sources)")
    ctx.bound("three stations (one possibly known before), all position timestamps within the entry lifetime; the in-place mutation of a dict that another thread "
              "iterates (RuntimeError in CPython) is not modelled - the lost update it goes with is")
    ctx.stub("LocationTableEntry() returns the actor's pre-built entry; LocationTableEntry.update_with_shb_packet is a no-op here (C08); TimeService.time one symbolic instant")
