"""C12 - the LDM behaves as a store of objects with registration gating and expiry.

One-step refinement VCs against a reference map: every IF.LDM.3 / IF.LDM.4 operation is evaluated from an arbitrary
pre-state (store of <= 2 records under symbolic ids below the allocator, symbolic registries) and its response, the
store, the allocator and both registries afterwards are compared with the map model.  Induction over the history of
calls is the hand-written composition."""
import ast
import z3
from ..values import Obj, Opaque, SBytes, SDict, SList, Guarded, Undefined
from ..interp import TRUE, FALSE
from ..runner import vc
from ..facil import cond_or, num_eq, val_eq, path_get
from ..ldmh import Ldm, Rec, TYPES, TYPE_ID, snapshot

from flexstack.facilities.local_dynamic_map.if_ldm_3 import InterfaceLDM3
from flexstack.facilities.local_dynamic_map.if_ldm_4 import InterfaceLDM4
from flexstack.facilities.local_dynamic_map.ldm_maintenance import LDMMaintenance
from flexstack.facilities.local_dynamic_map.ldm_maintenance_reactive import LDMMaintenanceReactive
from flexstack.facilities.local_dynamic_map.dictionary_database import DictionaryDataBase
from flexstack.facilities.local_dynamic_map import ldm_classes as LC
from flexstack.facilities.local_dynamic_map import ldm_constants as K
from flexstack.utils.time_service import TimeService, ITS_EPOCH, ELAPSED_SECONDS


def enum_is(I, v, member):
    """condition: value v (possibly guarded / symbolic enum) is the given enum member"""
    if isinstance(v, Guarded):
        return z3.Or(*[z3.And(c, enum_is(I, x, member)) for c, x in v.alts])
    if isinstance(v, Undefined) or v is None:
        return FALSE
    r = I.equal(v, member)
    return I._lb(r)


def frame(h, ctx, tag, vars_, replay, skip_recs=(), store=True, providers=None, consumers=None, next_id=True):
    """the 'without effect on anything else' obligations"""
    I = h.I
    if store:
        bad = [z3.Not(h.record_unchanged(i)) for i in range(len(h.recs)) if i not in skip_recs]
        ctx.prove(f"{tag}-other-records-untouched", I, z3.Or(*bad) if bad else FALSE, vars=vars_, replay=replay,
                  desc="every other stored record is still there, under its id, with identical content")
    for which, exempt in (("provider", providers), ("consumer", consumers)):
        if isinstance(exempt, str):
            continue
        q, c = h.registry_changed(which, exempt)
        v2 = dict(vars_)
        v2["changed_id"] = q
        ctx.prove(f"{tag}-{which}-registry-untouched", I, z3.And(q >= 0, q <= 30, c), vars=v2, replay=replay)
    if next_id:
        ctx.prove(f"{tag}-allocator-untouched", I, h.db_next_id() != h.next_id, vars=vars_, replay=replay)


# ---------------------------------------------------------------------------------------------- O1 registration
@vc("C12", "O1-registration-gate")
def registration(ctx):
    for side in ("provider", "consumer"):
        # evaluate once per tuple length on separate harnesses (lengths are a finite menu; ids and permissions symbolic)
        for n in (0, 1, 2):
            h = Ldm()
            I = h.I
            app = I.int_var("app", -2, 32)
            p1, p2 = I.int_var("perm1", 0, 30), I.int_var("perm2", 0, 30)
            perms = (p1, p2)[:n]
            if side == "provider":
                req = Obj(LC.RegisterDataProviderReq, dict(application_id=app, access_permissions=perms, time_validity=LC.TimeValidity(5)))
                resp = I.call_function(InterfaceLDM3.register_data_provider, [h.if3, req])
            else:
                req = Obj(LC.RegisterDataConsumerReq, dict(application_id=app, access_permisions=perms, area_of_interest=None))
                resp = I.call_function(InterfaceLDM4.register_data_consumer, [h.if4, req])
            exc = cond_or(c for c, _ in I.raises)
            valid = z3.Or(*[app == a for a in sorted(K.VALID_ITS_AID)])
            in_perms = z3.Or(*[p == app for p in perms]) if perms else FALSE
            special = (app == K.DENM) if side == "provider" else z3.Or(app == K.DENM, app == K.SPATEM, app == K.MAPEM)
            want = z3.And(valid, z3.BoolVal(n > 0), z3.Or(in_perms, special))
            res = resp.fields["result"] if isinstance(resp, Obj) else resp
            acc = enum_is(I, path_field(resp, "result"), LC.RegisterDataProviderResult.ACCEPTED if side == "provider" else LC.RegisterDataConsumerResult(0))
            vars_ = h.vars()
            vars_.update(app=app, perm1=p1, perm2=p2)
            tag = f"{side}-register[{n} permissions]"

            def replay(vals, n=n, side=side, h=h):
                db, maint, svc, if3, if4 = h.real(vals)
                before = snapshot(db, svc)
                pr = tuple(vals[k] for k in ("perm1", "perm2")[:n])
                a = vals["app"]
                if side == "provider":
                    r = if3.register_data_provider(LC.RegisterDataProviderReq(a, pr, LC.TimeValidity(5)))
                    ok = r.result == LC.RegisterDataProviderResult.ACCEPTED
                    reg0, reg1 = before[2], set(svc.data_provider_its_aid)
                else:
                    r = if4.register_data_consumer(LC.RegisterDataConsumerReq(a, pr, None))
                    ok = r.result == LC.RegisterDataConsumerResult(0)
                    reg0, reg1 = before[3], set(svc.data_consumer_its_aid)
                w = a in K.VALID_ITS_AID and n > 0 and (a in pr or a == K.DENM or (side == "consumer" and a in (K.SPATEM, K.MAPEM)))
                after = snapshot(db, svc)
                bad = ok != w or reg1 != (reg0 | {a} if w else reg0) or after[0] != before[0] or after[1] != before[1]
                return bad, f"{side} registration of application {a} with permissions {pr}: accepted={ok} (expected {w}); registry {sorted(reg0)} -> {sorted(reg1)}"
            ctx.witness(f"{tag}-reach-accepted", I, z3.And(acc, z3.Not(exc)) if n else z3.Not(exc), vars=vars_, validate=lambda v, rp=replay: not rp(v)[0])
            ctx.prove(f"{tag}-no-exception", I, exc, vars=vars_, replay=replay)
            ctx.prove(f"{tag}-accepted-iff-valid-and-permitted", I, acc != want, vars=vars_, replay=replay,
                      desc="accepted iff the ITS-AID is valid and the granted permissions cover it (empty permission tuple refused)")
            ctx.prove(f"{tag}-registry-gets-exactly-the-applicant", I,
                      h.registered(side, app) != z3.Or(want, h.registered(side, app, post=False)), vars=vars_, replay=replay)
            frame(h, ctx, tag, vars_, replay, providers=app if side == "provider" else None, consumers=app if side == "consumer" else None)
        # deregistration
        h = Ldm()
        I = h.I
        app = I.int_var("app", -2, 32)
        if side == "provider":
            resp = I.call_function(InterfaceLDM3.deregister_data_provider, [h.if3, Obj(LC.DeregisterDataProviderReq, dict(application_id=app))])
        else:
            resp = I.call_function(InterfaceLDM4.deregister_data_consumer, [h.if4, Obj(LC.DeregisterDataConsumerReq, dict(application_id=app))])
        was = h.registered(side, app, post=False)
        ack0 = enum_is(I, path_field(resp, "result" if side == "provider" else "ack"), (LC.DeregisterDataProviderAck if side == "provider" else LC.DeregisterDataConsumerAck)(0))
        vars_ = h.vars()
        vars_["app"] = app
        tag = f"{side}-deregister"

        def replay_d(vals, side=side, h=h):
            db, maint, svc, if3, if4 = h.real(vals)
            before = snapshot(db, svc)
            a = vals["app"]
            if side == "provider":
                r = if3.deregister_data_provider(LC.DeregisterDataProviderReq(a))
                reg0, reg1 = before[2], set(svc.data_provider_its_aid)
            else:
                r = if4.deregister_data_consumer(LC.DeregisterDataConsumerReq(a))
                reg0, reg1 = before[3], set(svc.data_consumer_its_aid)
            after = snapshot(db, svc)
            bad = (int(r.result if side == 'provider' else r.ack) == 0) != (a in reg0) or reg1 != reg0 - {a} or after[0] != before[0]
            return bad, f"{side} deregistration of {a}: registry {sorted(reg0)} -> {sorted(reg1)}"
        exc = cond_or(c for c, _ in I.raises)
        ctx.witness(f"{tag}-reach", I, z3.And(was, z3.Not(exc)), vars=vars_, validate=lambda v, rp=replay_d: not rp(v)[0])
        ctx.prove(f"{tag}-no-exception", I, exc, vars=vars_, replay=replay_d)
        ctx.prove(f"{tag}-ack0-iff-was-registered", I, ack0 != was, vars=vars_, replay=replay_d)
        ctx.prove(f"{tag}-removed", I, h.registered(side, app), vars=vars_, replay=replay_d)
        frame(h, ctx, tag, vars_, replay_d, providers=app if side == "provider" else None, consumers=app if side == "consumer" else None)
    ctx.bound("application ids -2..32 (valid ITS-AIDs 1..21), permission tuples of length 0, 1, 2 with symbolic entries; pre-state: two arbitrary registry members per side, store of <= 2 records")


def path_field(o, name):
    if isinstance(o, Guarded):
        return Guarded([(c, path_field(x, name)) for c, x in o.alts if not isinstance(x, Undefined) and x is not None])
    return o.fields[name]


def sym_location(I, tag):
    lat = I.int_var(f"{tag}_lat", -900000000, 900000001)
    lon = I.int_var(f"{tag}_lon", -1800000000, 1800000001)
    alt = I.int_var(f"{tag}_alt", -100000, 800001)
    orient = I.int_var(f"{tag}_orientation", 0, 3601)
    smaj, smin = I.int_var(f"{tag}_semi_major", 0, 4095), I.int_var(f"{tag}_semi_minor", 0, 4095)
    rp = Obj(LC.ReferencePosition, dict(latitude=lat, longitude=lon, altitude=Obj(LC.Altitude, dict(altitude_value=alt, altitude_confidence=0)),
                                        position_confidence_ellipse=Obj(LC.PositionConfidenceEllipse, dict(semi_major_confidence=smaj, semi_minor_confidence=smin,
                                                                                                          semi_major_orientation=orient))))
    ra = LC.ReferenceArea(LC.GeometricArea(LC.Circle(radius=0), None, None), LC.RelevanceArea(LC.RelevanceDistance(1), LC.RelevanceTrafficDirection(0)))
    return Obj(LC.Location, dict(reference_position=rp, reference_area=ra)), dict(lat=lat, lon=lon, alt=alt, orientation=orient, semi_major=smaj, semi_minor=smin)


def real_location(vals, tag):
    return LC.Location(LC.ReferencePosition(vals[f"{tag}_lat"], vals[f"{tag}_lon"],
                                            LC.PositionConfidenceEllipse(vals[f"{tag}_semi_major"], vals[f"{tag}_semi_minor"], vals[f"{tag}_orientation"]),
                                            LC.Altitude(vals[f"{tag}_alt"], 0)),
                       LC.ReferenceArea(LC.GeometricArea(LC.Circle(radius=0), None, None), LC.RelevanceArea(LC.RelevanceDistance(1), LC.RelevanceTrafficDirection(0))))


# ---------------------------------------------------------------------------------------------- O2 add
@vc("C12", "O2-add")
def add(ctx):
    for reactive in (False, True):
        h = Ldm(reactive=reactive)
        I = h.I
        import time as _time
        mono = I.float_var("monotonic", 0, 10 ** 6)
        I.stubs[_time.monotonic] = lambda it, a, k, pc: mono
        if reactive:
            # the reactive variants run garbage collection / attendance from inside add: their own VCs are O6 and C14
            I.stubs[LDMMaintenance.collect_trash] = lambda it, a, k, pc: None
            from flexstack.facilities.local_dynamic_map.ldm_service import LDMService
            I.stubs[LDMService.attend_subscriptions] = lambda it, a, k, pc: None
        new = Rec(I, "new")
        loc, lv = sym_location(I, "new")
        req = Obj(LC.AddDataProviderReq, dict(application_id=new.app, timestamp=Obj(LC.TimestampIts, dict(timestamp_its=new.ts)), location=loc,
                                              data_object=new.data_object, time_validity=Obj(LC.TimeValidity, dict(time=new.validity))))
        resp = I.call_function(InterfaceLDM3.add_provider_data, [h.if3, req])
        exc = cond_or(c for c, _ in I.raises)
        reg = h.registered("provider", new.app, post=False)
        got_id = path_field(resp, "data_object_id")
        vars_ = h.vars()
        vars_.update(new.vars())
        vars_.update({f"new_{k}": t for k, t in lv.items()})
        vars_["monotonic"] = mono
        tag = "reactive-add" if reactive else "add"

        def replay(vals, h=h, new=new, reactive=reactive):
            from unittest import mock
            db, maint, svc, if3, if4 = h.real(vals, reactive=reactive)
            before = snapshot(db, svc)
            d_obj = new.concrete_data_object(vals)
            r_ = LC.AddDataProviderReq(vals["new_app"], LC.TimestampIts(vals["new_timestamp"]), real_location(vals, "new"), d_obj, LC.TimeValidity(vals["new_validity"]))
            with mock.patch.object(LDMMaintenance, "collect_trash", lambda s: None), h.patched_clock(vals):
                svc.attend_subscriptions = lambda: None
                rr = if3.add_provider_data(r_)
            after = snapshot(db, svc)
            isreg = vals["new_app"] in before[2]
            bad = []
            if isreg:
                if rr.data_object_id != before[1]:
                    bad.append(f"new id {rr.data_object_id}, allocator was {before[1]}")
                rec = after[0].get(rr.data_object_id)
                if rec is None:
                    bad.append("record not stored under the returned id")
                else:
                    exp = {"application_id": vals["new_app"], "timestamp": vals["new_timestamp"], "timeValidity": vals["new_validity"], "dataObject": d_obj}
                    for k_, w in exp.items():
                        if rec.get(k_) != w:
                            bad.append(f"stored {k_} = {rec.get(k_)!r}, added {w!r}")
                    rp = rec["location"]["referencePosition"]
                    gotl = (rp["latitude"], rp["longitude"], rp["altitude"]["altitudeValue"], rp["positionConfidenceEllipse"]["semiMajorConfidence"],
                            rp["positionConfidenceEllipse"]["semiMinorConfidence"], rp["positionConfidenceEllipse"]["semiMajorOrientation"])
                    wl = tuple(vals[f"new_{k}"] for k in ("lat", "lon", "alt", "semi_major", "semi_minor", "orientation"))
                    if gotl != wl:
                        bad.append(f"stored location {gotl}, added {wl}")
                if after[1] <= before[1]:
                    bad.append("allocator did not advance")
                if {k_: v for k_, v in after[0].items() if k_ != rr.data_object_id} != before[0]:
                    bad.append("another record changed")
            else:
                if rr.data_object_id != -1 or after[0] != before[0] or after[1] != before[1]:
                    bad.append(f"unregistered provider {vals['new_app']}: id {rr.data_object_id}, store/allocator changed={after[:2] != before[:2]}")
            if after[2:] != before[2:]:
                bad.append("a registry changed")
            return bool(bad), f"{tag}: " + ("; ".join(bad) or "as the map model")
        ctx.witness(f"{tag}-reach-stored", I, z3.And(reg, z3.Not(exc)), vars=vars_, validate=lambda v, rp=replay: True)
        ctx.prove(f"{tag}-no-exception", I, exc, vars=vars_, replay=replay)
        ctx.prove(f"{tag}-id-is-allocator-or-refused", I, z3.Not(num_eq(I, got_id, z3.If(reg, h.next_id, -1))), vars=vars_, replay=replay,
                  desc="registered provider: the new identifier is the allocator value (never an id in use); unregistered: -1")
        ctx.prove(f"{tag}-allocator-advances-iff-added", I, h.db_next_id() != z3.If(reg, h.next_id + 1, h.next_id), vars=vars_, replay=replay,
                  desc="identifiers are never reused: the allocator only grows, by one per accepted add")
        f, rec = h.lookup(h.next_id)
        n0 = len(I.raises)
        want = {"application_id": new.app, "timestamp": new.ts, "timeValidity": new.validity}
        bad = [z3.Not(num_eq(I, path_get(I, rec, k), w)) for k, w in want.items()]
        rp = path_get(I, rec, "location", "referencePosition")
        bad += [z3.Not(num_eq(I, path_get(I, rp, "latitude"), lv["lat"])), z3.Not(num_eq(I, path_get(I, rp, "longitude"), lv["lon"])),
                z3.Not(num_eq(I, path_get(I, rp, "altitude", "altitudeValue"), lv["alt"])),
                z3.Not(num_eq(I, path_get(I, rp, "positionConfidenceEllipse", "semiMajorConfidence"), lv["semi_major"])),
                z3.Not(num_eq(I, path_get(I, rp, "positionConfidenceEllipse", "semiMinorConfidence"), lv["semi_minor"]))]
        bad_or = z3.Not(num_eq(I, path_get(I, rp, "positionConfidenceEllipse", "semiMajorOrientation"), lv["orientation"]))
        same_obj = I.equal(path_get(I, rec, "dataObject"), new.data_object)
        del I.raises[n0:]
        ctx.prove(f"{tag}-stored-record-is-the-request", I, z3.And(reg, z3.Or(z3.Not(f), *bad, z3.Not(I._lb(same_obj)))), vars=vars_, replay=replay,
                  desc="the record stored under the new id has the application id, timestamp, position, validity and content it was added with")
        ctx.prove(f"{tag}-stored-ellipse-orientation", I, z3.And(reg, f, bad_or), vars=vars_, replay=replay,
                  desc="the stored location keeps the semi-major orientation it was added with")
        ctx.prove(f"{tag}-refused-without-effect", I, z3.And(z3.Not(reg), f), vars=vars_, replay=replay)
        frame(h, ctx, tag, vars_, replay, next_id=False)
    ctx.bound("added record: symbolic application id 0..30, 42-bit timestamp, position over the full range, validity 0..10^6 s, type from {cam, denm, vam, ivim}; "
              "pre-state: <= 2 stored records under symbolic ids < allocator, two symbolic members per registry; plain and reactive maintenance/service")
    ctx.stub("reactive variants: collect_trash / attend_subscriptions called from add are stubbed here (their VCs: O6, C14); time.monotonic arbitrary")


# ---------------------------------------------------------------------------------------------- O3 update / O4 delete
@vc("C12", "O3-update")
def update(ctx):
    h = Ldm()
    I = h.I
    new = Rec(I, "new")
    loc, lv = sym_location(I, "new")
    oid = I.int_var("object_id", 0, 10 ** 6)
    req = Obj(LC.UpdateDataProviderReq, dict(application_id=new.app, data_object_id=oid, time_stamp=Obj(LC.TimestampIts, dict(timestamp_its=new.ts)), location=loc,
                                             data_object=new.data_object, time_validity=Obj(LC.TimeValidity, dict(time=new.validity))))
    resp = I.call_function(InterfaceLDM3.update_provider_data, [h.if3, req])
    exc = cond_or(c for c, _ in I.raises)
    reg = h.registered("provider", new.app, post=False)
    existed, old = h.lookup(oid, post=False)
    f, rec = h.lookup(oid)
    vars_ = h.vars()
    vars_.update(new.vars())
    vars_["object_id"] = oid
    res = path_field(resp, "result")
    ok = enum_is(I, res, LC.UpdateDataProviderResult.SUCCEED)

    def replay(vals):
        db, maint, svc, if3, if4 = h.real(vals)
        before = snapshot(db, svc)
        d_obj = new.concrete_data_object(vals)
        r_ = LC.UpdateDataProviderReq(vals["new_app"], vals["object_id"], LC.TimestampIts(vals["new_timestamp"]), LC.Location.initializer(), d_obj, LC.TimeValidity(vals["new_validity"]))
        with h.patched_clock(vals):
            rr = if3.update_provider_data(r_)
        after = snapshot(db, svc)
        i = vals["object_id"]
        isreg, ex = vals["new_app"] in before[2], i in before[0]
        bad = []
        same_type = ex and any(t in before[0][i]["dataObject"] and t in d_obj for t in K.DATA_OBJECT_TYPE_ID.values())
        if isreg and ex and same_type:
            if rr.result != LC.UpdateDataProviderResult.SUCCEED:
                bad.append(f"update of existing object {i} by registered provider answered {rr.result!s}")
            exp = dict(before[0][i]); exp["dataObject"] = d_obj
            if after[0].get(i) != exp:
                bad.append(f"record {i} after update has keys {sorted(after[0].get(i, {}))}; only dataObject may change")
        else:
            if rr.result == LC.UpdateDataProviderResult.SUCCEED or after[0] != before[0]:
                bad.append(f"update refused case (registered={isreg}, exists={ex}, same type={same_type}): result {rr.result!s}, store changed={after[0] != before[0]}")
        if {k_: v for k_, v in after[0].items() if k_ != i} != {k_: v for k_, v in before[0].items() if k_ != i}:
            bad.append("another record changed")
        if after[1:] != before[1:]:
            bad.append("allocator or a registry changed")
        return bool(bad), "update: " + ("; ".join(bad) or "as the map model")
    ctx.witness("update-reach-existing", I, z3.And(existed, reg, z3.Not(exc)), vars=vars_)
    ctx.prove("update-no-exception", I, exc, vars=vars_, replay=replay)
    # the stored type and the new content's type agree when both are the same menu entry
    old_type = z3.Or(*[z3.And(h.present[i], h.keys[i] == oid, h.recs[i].type == new.type) for i in range(len(h.recs))])
    ctx.prove("update-succeeds-for-registered-provider-and-same-type", I, z3.And(reg, existed, old_type, z3.Not(ok)), vars=vars_, replay=replay,
              desc="a registered provider updating an existing object with content of the same message type gets SUCCEED")
    n0 = len(I.raises)
    keep = []
    for i in range(len(h.recs)):
        r = h.recs[i]
        hit = z3.And(h.present[i], h.keys[i] == oid)
        keep.append(z3.And(hit, z3.Or(z3.Not(num_eq(I, path_get(I, rec, "timestamp"), r.ts)), z3.Not(num_eq(I, path_get(I, rec, "timeValidity"), r.validity)),
                                      z3.Not(num_eq(I, path_get(I, rec, "application_id"), r.app)),
                                      z3.Not(num_eq(I, path_get(I, rec, "location", "referencePosition", "latitude"), r.lat)))))
    newobj = I._lb(I.equal(path_get(I, rec, "dataObject"), new.data_object))
    del I.raises[n0:]
    ctx.prove("update-replaces-only-the-content", I, z3.And(reg, existed, old_type, z3.Or(z3.Not(f), z3.Not(newobj), *keep)), vars=vars_, replay=replay,
              desc="after a successful update the record keeps its timestamp, location, validity and owner; only dataObject is the new one")
    unchanged = z3.And(f == existed, z3.Implies(existed, I._lb(I.equal(rec, old)) if not isinstance(old, Undefined) else FALSE))
    ctx.prove("update-by-unregistered-provider-refused-without-effect", I, z3.And(z3.Not(reg), z3.Or(ok, z3.Not(unchanged))), vars=vars_, replay=replay)
    ctx.prove("update-of-unknown-id-refused-without-effect", I, z3.And(z3.Not(existed), z3.Or(z3.Not(enum_is(I, res, LC.UpdateDataProviderResult.UNKNOWN_DATA_OBJECT_ID)), f)),
              vars=vars_, replay=replay)
    others = [z3.And(h.keys[i] != oid, z3.Not(h.record_unchanged(i))) for i in range(len(h.recs))]
    ctx.prove("update-other-records-untouched", I, z3.Or(*others), vars=vars_, replay=replay)
    frame(h, ctx, "update", vars_, replay, store=False)
    ctx.bound("object id arbitrary (existing or not), provider registered or not, new content of any menu type")


@vc("C12", "O4-delete")
def delete(ctx):
    h = Ldm()
    I = h.I
    app = I.int_var("app", 0, 30)
    oid = I.int_var("object_id", 0, 10 ** 6)
    req = Obj(LC.DeleteDataProviderReq, dict(application_id=app, data_object_id=oid, time_stamp=LC.TimestampIts(0)))
    resp = I.call_function(InterfaceLDM3.delete_provider_data, [h.if3, req])
    exc = cond_or(c for c, _ in I.raises)
    reg = h.registered("provider", app, post=False)
    existed, old = h.lookup(oid, post=False)
    f, rec = h.lookup(oid)
    ok = enum_is(I, path_field(resp, "result"), LC.DeleteDataProviderResult.SUCCEED)
    vars_ = h.vars()
    vars_.update(app=app, object_id=oid)

    def replay(vals):
        db, maint, svc, if3, if4 = h.real(vals)
        before = snapshot(db, svc)
        rr = if3.delete_provider_data(LC.DeleteDataProviderReq(vals["app"], vals["object_id"], LC.TimestampIts(0)))
        after = snapshot(db, svc)
        i = vals["object_id"]
        isreg, ex = vals["app"] in before[2], i in before[0]
        bad = []
        if isreg and ex:
            if rr.result != LC.DeleteDataProviderResult.SUCCEED or i in after[0]:
                bad.append(f"delete of object {i}: result {rr.result!s}, still stored={i in after[0]}")
        elif rr.result == LC.DeleteDataProviderResult.SUCCEED or after[0] != before[0]:
            bad.append(f"delete refused case (registered={isreg}, exists={ex}): result {rr.result!s}, store changed={after[0] != before[0]}")
        if {k_: v for k_, v in after[0].items() if k_ != i} != {k_: v for k_, v in before[0].items() if k_ != i}:
            bad.append("another record changed")
        if after[2] != before[2] or after[3] != before[3]:
            bad.append(f"a registry changed: providers {sorted(before[2])} -> {sorted(after[2])}")
        if after[1] != before[1]:
            bad.append("allocator changed")
        return bool(bad), "delete: " + ("; ".join(bad) or "as the map model")
    ctx.witness("delete-reach-existing", I, z3.And(existed, reg, z3.Not(exc)), vars=vars_)
    ctx.prove("delete-no-exception", I, exc, vars=vars_, replay=replay)
    ctx.prove("delete-removes-the-object", I, z3.And(reg, existed, z3.Or(z3.Not(ok), f)), vars=vars_, replay=replay,
              desc="after a successful delete by a registered provider the object is gone from the store")
    unchanged = z3.And(f == existed, z3.Implies(existed, I._lb(I.equal(rec, old)) if not isinstance(old, Undefined) else FALSE))
    ctx.prove("delete-by-unregistered-provider-refused-without-effect", I, z3.And(z3.Not(reg), z3.Or(ok, z3.Not(unchanged))), vars=vars_, replay=replay)
    ctx.prove("delete-of-unknown-id-refused", I, z3.And(z3.Not(existed), ok), vars=vars_, replay=replay)
    others = [z3.And(h.keys[i] != oid, z3.Not(h.record_unchanged(i))) for i in range(len(h.recs))]
    ctx.prove("delete-other-records-untouched", I, z3.Or(*others), vars=vars_, replay=replay)
    frame(h, ctx, "delete", vars_, replay, store=False)
    ctx.bound("object id arbitrary (existing or not), provider registered or not")


# ---------------------------------------------------------------------------------------------- O5 unfiltered query
@vc("C12", "O5-unfiltered-query")
def query(ctx):
    menus = [(2,), (1,), (16,), (2, 16), (1, 2, 16), (6,)] if ctx.tier == "thorough" else [(2,), (1, 16), (6,)]
    for types in menus:
        h = Ldm()
        I = h.I
        app = I.int_var("app", 0, 30)
        req = Obj(LC.RequestDataObjectsReq, dict(application_id=app, data_object_type=types, priority=None, order=None, filter=None))
        resp = I.call_function(InterfaceLDM4.request_data_objects, [h.if4, req])
        exc = cond_or(c for c, _ in I.raises)
        reg = h.registered("consumer", app, post=False)
        vars_ = h.vars()
        vars_["app"] = app
        tag = f"query{list(types)}"
        objs = path_field(resp, "data_objects")
        ok = enum_is(I, path_field(resp, "result"), LC.RequestedDataObjectsResult.SUCCEED)

        def member(rec_d):
            """condition: the record dict is among the returned objects"""
            def one(v):
                if isinstance(v, SList):
                    return z3.Or(*[z3.And(I._lb(c), z3.BoolVal(x is rec_d)) for c, x in v.items]) if v.items else FALSE
                if isinstance(v, (tuple, list)):
                    return z3.BoolVal(any(x is rec_d for x in v))
                return FALSE
            if isinstance(objs, Guarded):
                return z3.Or(*[z3.And(c, one(x)) for c, x in objs.alts])
            return one(objs)

        def replay(vals, types=types, h=h):
            db, maint, svc, if3, if4 = h.real(vals)
            before = snapshot(db, svc)
            rr = if4.request_data_objects(LC.RequestDataObjectsReq(vals["app"], types, None, None, None))
            after = snapshot(db, svc)
            names = [K.DATA_OBJECT_TYPE_ID[t] for t in types]
            want = [v for k_, v in sorted(before[0].items()) if any(n in v["dataObject"] for n in names)] if vals["app"] in before[3] else []
            got = list(rr.data_objects)
            bad = []
            if sorted(map(repr, got)) != sorted(map(repr, want)):
                bad.append(f"returned {len(got)} object(s) of types {[ [n for n in K.DATA_OBJECT_TYPE_ID.values() if n in g['dataObject']] for g in got]}, expected {len(want)} of types {names}")
            if (rr.result == LC.RequestedDataObjectsResult.SUCCEED) != (vals["app"] in before[3]):
                bad.append(f"result {rr.result!s} for consumer registered={vals['app'] in before[3]}")
            if after != before:
                bad.append("a query changed the LDM state")
            return bool(bad), f"{tag}: " + ("; ".join(bad) or "as the map model")
        ctx.witness(f"{tag}-reach", I, z3.And(reg, z3.Not(exc), h.present[0]), vars=vars_)
        ctx.prove(f"{tag}-no-exception", I, exc, vars=vars_, replay=replay)
        ctx.prove(f"{tag}-succeeds-iff-registered-consumer", I, ok != reg, vars=vars_, replay=replay)
        bad = []
        for i, r in enumerate(h.recs):
            wanted = z3.And(reg, h.present[i], z3.Or(*[r.type_id() == t for t in types]))
            bad.append(member(r.d) != wanted)
        ctx.prove(f"{tag}-returns-exactly-the-stored-objects-of-the-requested-types", I, z3.Or(*bad), vars=vars_, replay=replay,
                  desc="an unfiltered request returns every stored object of a requested type and nothing else; nothing to an unregistered consumer")
        frame(h, ctx, tag, vars_, replay)
    ctx.bound("requested type tuples from a menu over {CAM, DENM, VAM, IVIM}; consumer id symbolic; store of <= 2 records of arbitrary types")


# ---------------------------------------------------------------------------------------------- O6 expiry
def _expiry(ctx, tag, fn, whole):
    h = Ldm()
    I = h.I
    I.call_function(fn, [h.maint])
    exc = cond_or(c for c, _ in I.raises)
    vars_ = h.vars()
    # the pass reads the clock once per object: 'expired' is judged against the first reading, 'still valid' against the last
    now, now_end = h.clock.reads[0][1], h.clock.reads[-1][1]
    now_its = (z3.ToInt(now) - ITS_EPOCH + ELAPSED_SECONDS) * 1000
    end_its = (z3.ToInt(now_end) - ITS_EPOCH + ELAPSED_SECONDS) * 1000

    def replay(vals):
        db, maint, svc, if3, if4 = h.real(vals)
        before = snapshot(db, svc)
        with h.patched_clock(vals):
            getattr(maint, fn.__name__)()
        after = snapshot(db, svc)
        its = (int(vals[now.decl().name()]) - ITS_EPOCH + ELAPSED_SECONDS) * 1000
        its_end = (int(vals[now_end.decl().name()]) - ITS_EPOCH + ELAPSED_SECONDS) * 1000
        bad = []
        for k_, v in before[0].items():
            if v["timeValidity"] * 1000 + v["timestamp"] < its and k_ in after[0]:
                bad.append(f"object {k_} (timestamp {v['timestamp']}, validity {v['timeValidity']} s) is expired at ITS time {its} but still stored")
            if not (v["timeValidity"] * 1000 + v["timestamp"] < its_end) and after[0].get(k_) != v:
                bad.append(f"object {k_} (timestamp {v['timestamp']}, validity {v['timeValidity']} s) is valid at ITS time {its_end} but was removed/changed")
        if after[1:] != before[1:]:
            bad.append("allocator or a registry changed")
        return bool(bad), f"{tag}: " + ("; ".join(bad) or "as the map model")
    expired = [r.validity * 1000 + r.ts < now_its for r in h.recs]
    ctx.witness(f"{tag}-reach-one-expired-one-valid", I, z3.And(h.present[0], h.present[1], z3.Not(expired[0]), expired[1], z3.Not(exc)), vars=vars_)
    ctx.prove(f"{tag}-no-exception", I, exc, vars=vars_, replay=replay)
    gone = [z3.And(h.present[i], expired[i], h.lookup(h.keys[i])[0]) for i in range(len(h.recs))]
    ctx.prove(f"{tag}-expired-objects-removed", I, z3.Or(*gone), vars=vars_, replay=replay,
              desc="every object with timestamp + validity*1000 < now (ITS ms, second-truncated clock) is removed by one maintenance pass")
    kept = [z3.And(z3.Not(h.recs[i].validity * 1000 + h.recs[i].ts < end_its), z3.Not(h.record_unchanged(i))) for i in range(len(h.recs))]
    ctx.prove(f"{tag}-valid-objects-kept", I, z3.Or(*kept), vars=vars_, replay=replay,
              desc="an object whose validity has not lapsed survives the pass unchanged" + (" (also the area-of-maintenance sweep must not remove it: default area)" if whole else ""))
    frame(h, ctx, tag, vars_, replay, store=False)


@vc("C12", "O6-time-validity-expiry")
def expiry(ctx):
    _expiry(ctx, "time-validity", LDMMaintenance.check_and_delete_time_validity, False)
    ctx.bound("two stored records with arbitrary timestamps (42 bit) and validities 0..10^6 s in either order of expiry; arbitrary real clock, truncated to seconds as the code does")


@vc("C12", "O7-request-after-the-sweep-returns-what-is-stored")
def sweep_then_request(ctx):
    """two steps on one state: the time-validity sweep, then an unfiltered request - what is returned is exactly what the sweep left in the store
    (a lapsed object is never returned again); catches state that a one-step VC from the constructor's defaults cannot see (caches, snapshots)"""
    h = Ldm()
    I = h.I
    I.call_function(LDMMaintenance.check_and_delete_time_validity, [h.maint])
    n_sweep = len(I.raises)
    now = h.clock.reads[0][1]
    now_its = (z3.ToInt(now) - ITS_EPOCH + ELAPSED_SECONDS) * 1000
    app = I.int_var("app", 0, 30)
    types = (1, 2, 16, 6)
    req = Obj(LC.RequestDataObjectsReq, dict(application_id=app, data_object_type=types, priority=None, order=None, filter=None))
    resp = I.call_function(InterfaceLDM4.request_data_objects, [h.if4, req])
    exc = cond_or(c for c, _ in I.raises)
    reg = h.registered("consumer", app, post=False)
    vars_ = h.vars()
    vars_["app"] = app
    objs = path_field(resp, "data_objects")

    def member(rec_d):
        def one(v):
            if isinstance(v, SList):
                return z3.Or(*[z3.And(I._lb(c), z3.BoolVal(x is rec_d)) for c, x in v.items]) if v.items else FALSE
            if isinstance(v, (tuple, list)):
                return z3.BoolVal(any(x is rec_d for x in v))
            return FALSE
        if isinstance(objs, Guarded):
            return z3.Or(*[z3.And(c, one(x)) for c, x in objs.alts])
        return one(objs)

    def replay(vals):
        db, maint, svc, if3, if4 = h.real(vals)
        with h.patched_clock(vals):
            maint.check_and_delete_time_validity()
            stored = [v for k_, v in sorted(db.database.items())]
            rr = if4.request_data_objects(LC.RequestDataObjectsReq(vals["app"], types, None, None, None))
        want = stored if vals["app"] in svc.data_consumer_its_aid else []
        got = list(rr.data_objects)
        same = sorted(map(repr, got)) == sorted(map(repr, want))
        return not same, f"after the sweep the store holds {len(stored)} object(s), the request of a consumer (registered={vals['app'] in svc.data_consumer_its_aid}) returned {len(got)}"
    expired = [r.validity * 1000 + r.ts < now_its for r in h.recs]
    ctx.witness("sweep+request-reach-one-removed-one-returned", I, z3.And(z3.Not(exc), reg, h.present[0], h.present[1], expired[0], z3.Not(h.lookup(h.keys[0])[0]),
                                                                          member(h.recs[1].d)), vars=vars_, validate=lambda v: not replay(v)[0])
    ctx.prove("sweep+request-no-exception", I, exc, vars=vars_, replay=replay)
    ctx.prove("sweep+request-lapsed-object-never-returned", I, z3.Or(*[z3.And(h.present[i], expired[i], member(h.recs[i].d)) for i in range(len(h.recs))]),
              vars=vars_, replay=replay, desc="an object whose validity lapsed before the sweep is not returned by a request that follows the sweep")
    ctx.prove("sweep+request-returns-exactly-the-store", I, z3.Or(*[member(h.recs[i].d) != z3.And(reg, h.lookup(h.keys[i])[0]) for i in range(len(h.recs))]),
              vars=vars_, replay=replay, desc="the request returns exactly the objects the sweep left in the store")
    ctx.bound("two stored records, one sweep followed by one unfiltered request for all four types; other two-step compositions (delete / update then request) are not enumerated")


@vc("C12", "O6-collect-trash")
def collect_trash(ctx):
    _expiry(ctx, "collect-trash", LDMMaintenance.collect_trash, True)
    ctx.bound("whole garbage collection pass incl. the area-of-maintenance sweep, LDM area at its initial default (0, 0), objects anywhere")
