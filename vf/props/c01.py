"""C01 - end-to-end payload delivery between stations through BTP and GeoNetworking."""
import z3
from ..calls import make
from ..values import Obj, EnumSym, SBytes, Guarded, SDict, SList, Opaque, UNDEF
from ..interp import TRUE, FALSE
from ..runner import vc
from .. import symgn as G
from .. import wire as W
from .. import emit as E
from ..gnharness import Harness, sym_request, all_vars, build_real, eval_term, real_router, LOCAL_MID

from flexstack.btp.router import Router as BTPRouter
from flexstack.btp.service_access_point import BTPDataRequest, BTPDataIndication
from flexstack.btp.btp_header import BTPAHeader, BTPBHeader
from flexstack.geonet.router import Router
from flexstack.geonet.mib import MIB
from flexstack.geonet.gn_address import GNAddress, M, ST, MID
from flexstack.geonet.service_access_point import (GNDataRequest, GNDataIndication, CommonNH, HeaderType, TopoBroadcastHST, GeoBroadcastHST,
                                                    GeoAnycastHST, HeaderSubType, PacketTransportType, Area, TrafficClass, CommunicationProfile)
from flexstack.security.security_profiles import SecurityProfile


def exc_of(I, n0=0):
    r = I.raises[n0:]
    return z3.Or(*[c for c, _ in r]) if r else FALSE


# ------------------------------------------------------------------------------------------------ V1 BTP request
def _btp_request(ctx, btp_type, L):
    I = make("bv", 128)
    payload = G.sym_bytes("p", L)
    dest = G.sym_gn_addr(I, "dst")
    area = Obj(Area, dict(latitude=I.int_var("alat", -900000000, 900000000), longitude=I.int_var("alon", -1800000000, 1800000000),
                          a=I.int_var("aa", 0, 65535), b=I.int_var("ab", 0, 65535), angle=I.int_var("ang", 0, 359)))
    ptt = Obj(PacketTransportType, dict(header_type=G.sym_enum(I, "ht", HeaderType), header_subtype=HeaderSubType.UNSPECIFIED))
    req = Obj(BTPDataRequest, dict(
        btp_type=btp_type, source_port=I.int_var("sport", 0, 65535), destination_port=I.int_var("dport", 0, 65535),
        destination_port_info=I.int_var("dinfo", 0, 65535), gn_packet_transport_type=ptt, gn_destination_address=dest, gn_area=area,
        gn_max_hop_limit=I.int_var("hl", 0, 255), gn_max_packet_lifetime=None, gn_repetition_interval=None, gn_max_repetition_time=None,
        communication_profile=CommunicationProfile.UNSPECIFIED, traffic_class=G.sym_tc(I, "tc"), security_profile=SecurityProfile.NO_SECURITY,
        its_aid=I.int_var("aid", 0, 65535), security_permissions=b"\x00", length=L, data=payload))
    got = []

    class FakeGN:
        pass
    gn = FakeGN()
    I.stubs[id(gn)] = lambda it, name, a, k, pc: got.append((pc, name, a[0])) if name == "gn_data_request" else None
    r = BTPRouter.__new__(BTPRouter)
    ro = Obj(BTPRouter, dict(logging=Opaque("logger"), pre_indication_callbacks={}, indication_callbacks=None, gn_router=gn))
    I.stubs[id(ro.fields["logging"])] = lambda it, name, a, k, pc: None
    I.call_function(BTPRouter.btp_data_request, [ro, req])
    tag = f"{btp_type.name}[L={L}]"
    vars_ = G.vars_of(I, req)
    hdr_layout = W.BTPB if btp_type == CommonNH.BTP_B else W.BTPA
    hv = {"destination_port": req.fields["destination_port"]}
    if btp_type == CommonNH.BTP_B:
        hv["destination_port_info"] = req.fields["destination_port_info"]
    else:
        hv["source_port"] = req.fields["source_port"]
    hb, _ = E.pack_vals(I, hv, hdr_layout)
    want = z3.Concat(hb, W.bits_of_bytes(payload)) if L else hb
    bad = []
    for pc, name, g in got:
        d = I.sbytes(g.fields["data"])
        cs = [TRUE if len(d.bs) != L + 4 else W.bits_of_bytes(d) != want,
              z3.Not(I._lb(I.equal(g.fields["length"], L + 4))),
              z3.Not(I._lb(I.equal(g.fields["upper_protocol_entity"], btp_type))),
              z3.Not(I._lb(I.equal(g.fields["packet_transport_type"], ptt))),
              z3.Not(I._lb(I.equal(g.fields["area"], area))),
              z3.Not(I._lb(I.equal(g.fields["traffic_class"], req.fields["traffic_class"]))),
              z3.Not(I._lb(I.equal(g.fields["max_hop_limit"], req.fields["gn_max_hop_limit"]))),
              z3.Not(I._lb(I.identical(g.fields["max_packet_lifetime"], None))),
              z3.Not(I._lb(I.equal(g.fields["its_aid"], req.fields["its_aid"])))]
        dst = g.fields.get("destination")
        cs.append(TRUE if dst is None else z3.Not(I._lb(I.equal(dst, dest))))
        bad.append(z3.And(pc, z3.Or(*cs)))
    once = z3.And(*[pc for pc, _, _ in got]) if len(got) == 1 else FALSE

    def replay(vals):
        from unittest import mock
        rq = G.concretize(req, vals)
        seen = []
        gnr = mock.Mock()
        gnr.gn_data_request = lambda x: seen.append(x)
        br = BTPRouter(gnr)
        try:
            br.btp_data_request(rq)
        except Exception as e:
            return True, f"{tag}: raised {e!r}"
        if len(seen) != 1:
            return True, f"{tag}: {len(seen)} GN requests for one BTP request"
        g = seen[0]
        hdr = rq.destination_port.to_bytes(2, "big") + (rq.destination_port_info if btp_type == CommonNH.BTP_B else rq.source_port).to_bytes(2, "big")
        msgs = []
        if g.data != hdr + rq.data:
            msgs.append(f"GN SDU {g.data.hex()} != BTP header {hdr.hex()} | payload {rq.data.hex()}")
        if g.length != len(rq.data) + 4:
            msgs.append(f"GN length {g.length} != {len(rq.data) + 4} octets handed down")
        if g.upper_protocol_entity != btp_type or g.packet_transport_type != rq.gn_packet_transport_type or g.area != rq.gn_area \
                or g.traffic_class != rq.traffic_class or g.max_hop_limit != rq.gn_max_hop_limit:
            msgs.append("transport parameters not passed through")
        if g.destination is None or g.destination != rq.gn_destination_address:
            msgs.append(f"GN destination address {g.destination} != requested {rq.gn_destination_address}")
        return bool(msgs), f"{tag}: " + "; ".join(msgs)
    ctx.witness(f"{tag}-reach", I, z3.And(once, z3.Not(exc_of(I))), vars=vars_)
    ctx.prove(f"{tag}-exactly-one-gn-request", I, z3.Or(exc_of(I), z3.Not(once)), vars=vars_, replay=replay)
    ctx.prove(f"{tag}-header-prepended-and-parameters-passed", I, z3.Or(*bad) if bad else TRUE, vars=vars_, replay=replay,
              desc="GN SDU = BTP header | payload (EN 302 636-5-1 clause 7), length = SDU octets, transport type / area / TC / hop limit / "
                   "destination address handed to GN-DATA.request unchanged")


@vc("C01", "V1-btp-request")
def btp_request(ctx):
    for t in (CommonNH.BTP_A, CommonNH.BTP_B):
        for L in ((0, 5) if ctx.tier == "quick" else (0, 1, 5, 64, 1400)):
            _btp_request(ctx, t, L)
    ctx.bound("BTP-A/BTP-B, payload lengths {0,5} (quick) / {0,1,5,64,1400} (thorough) with all octets symbolic, every 16-bit port / port info, "
              "symbolic transport type, area, traffic class, hop limit, destination address")
    ctx.stub("GN router replaced by a recorder of gn_data_request; logging is a no-op")


# ------------------------------------------------------------------------------------------------ V1 BTP indication / demux
def _btp_indication(ctx, nh, L):
    I = make("bv", 128)
    data = G.sym_bytes("d", 4 + L)
    spv = G.sym_lpv(I, "so")
    tcl = G.sym_tc(I, "tc")
    ptt = Obj(PacketTransportType, dict(header_type=G.sym_enum(I, "ht", HeaderType), header_subtype=HeaderSubType.UNSPECIFIED))
    ind = Obj(GNDataIndication, dict(upper_protocol_entity=nh, packet_transport_type=ptt, destination_area=None, source_position_vector=spv,
                                     traffic_class=tcl, remaining_packet_lifetime=None, remaining_hop_limit=I.int_var("rhl", 0, 255),
                                     length=4 + L, data=data))
    r1, r2 = I.int_var("r1", 0, 65535), I.int_var("r2", 0, 65535)
    I.assumptions.append(r1 != r2)
    calls = {1: [], 2: []}
    cb1, cb2 = (lambda x: None), (lambda x: None)
    I.stubs[id(cb1)] = lambda it, name, a, k, pc: calls[1].append((pc, a[0]))
    I.stubs[id(cb2)] = lambda it, name, a, k, pc: calls[2].append((pc, a[0]))
    ro = Obj(BTPRouter, dict(logging=Opaque("logger"), pre_indication_callbacks={}, gn_router=None,
                             indication_callbacks=SDict([(TRUE, r1, cb1, False), (TRUE, r2, cb2, False)])))
    I.stubs[id(ro.fields["logging"])] = lambda it, name, a, k, pc: None
    I.call_function(BTPRouter.btp_data_indication, [ro, ind])
    port = z3.ZeroExt(I.W - 16, z3.Concat(data.bs[0], data.bs[1]))
    second = z3.ZeroExt(I.W - 16, z3.Concat(data.bs[2], data.bs[3]))
    tag = f"{nh.name}[L={L}]"
    vars_ = G.vars_of(I, ind)
    vars_.update(r1=r1, r2=r2)

    def hit(k):
        return z3.Or(*[c for c, _ in calls[k]]) if calls[k] else FALSE

    def content_bad(k):
        out = []
        for c, x in calls[k]:
            d = I.sbytes(x.fields["data"])
            cs = [TRUE if len(d.bs) != L else (W.bits_of_bytes(d) != W.bits_of_bytes(SBytes(data.bs[4:])) if L else FALSE),
                  z3.Not(I._lb(I.equal(x.fields["length"], L))),
                  I.num(x.fields["destination_port"]) != port,
                  z3.Not(I._lb(I.equal(x.fields["gn_packet_transport_type"], ptt))),
                  z3.Not(I._lb(I.equal(x.fields["gn_traffic_class"], tcl))),
                  z3.Not(I._lb(I.identical(x.fields["gn_source_position_vector"], spv)) if isinstance(x.fields["gn_source_position_vector"], Obj) else FALSE)]
            if nh == CommonNH.BTP_B:
                cs.append(I.num(x.fields["destination_port_info"]) != second)
            else:
                cs.append(I.num(x.fields["source_port"]) != second)
            out.append(z3.And(c, z3.Or(*cs)))
        return z3.Or(*out) if out else FALSE
    multi = []
    for k in (1, 2):
        for i in range(len(calls[k])):
            for j in range(i):
                multi.append(z3.And(calls[k][i][0], calls[k][j][0]))

    def replay(vals):
        from unittest import mock
        gi = G.concretize(ind, vals)
        seen = {1: [], 2: []}
        br = BTPRouter(mock.Mock())
        br.register_indication_callback_btp(vals["r1"], seen[1].append)
        br.register_indication_callback_btp(vals["r2"], seen[2].append)
        br.freeze_callbacks()
        try:
            br.btp_data_indication(gi)
        except Exception as e:
            return True, f"{tag}: raised {e!r}"
        p = int.from_bytes(gi.data[0:2], "big")
        s2 = int.from_bytes(gi.data[2:4], "big")
        msgs = []
        for k, rk in ((1, vals["r1"]), (2, vals["r2"])):
            want = 1 if p == rk else 0
            if len(seen[k]) != want:
                msgs.append(f"handler of port {rk} invoked {len(seen[k])} times for a packet to port {p}")
            for x in seen[k]:
                if x.data != gi.data[4:] or x.destination_port != p or (x.destination_port_info if nh == CommonNH.BTP_B else x.source_port) != s2 \
                        or x.gn_source_position_vector != gi.source_position_vector or x.gn_packet_transport_type != gi.packet_transport_type:
                    msgs.append(f"indication content differs: data={x.data.hex()} port={x.destination_port}")
        return bool(msgs), f"{tag}: " + "; ".join(msgs)
    ctx.witness(f"{tag}-reach", I, z3.And(hit(1), z3.Not(exc_of(I))), vars=vars_, validate=lambda v: not replay(v)[0])
    ctx.prove(f"{tag}-no-exception", I, exc_of(I), vars=vars_, replay=replay)
    ctx.prove(f"{tag}-handler-iff-its-port", I, z3.Or(hit(1) != (port == r1), hit(2) != (port == r2)), vars=vars_, replay=replay,
              desc="exactly the handler registered for the destination port is invoked; none for an unregistered port")
    ctx.prove(f"{tag}-at-most-once", I, z3.Or(*multi) if multi else FALSE, vars=vars_, replay=replay)
    ctx.prove(f"{tag}-payload-and-parameters-intact", I, z3.Or(content_bad(1), content_bad(2)), vars=vars_, replay=replay,
              desc="handler receives the payload behind the 4 header octets byte-identical, with port / port info (source port), transport type, "
                   "traffic class and the sender's position vector")


@vc("C01", "V1-btp-indication")
def btp_indication(ctx):
    for nh in (CommonNH.BTP_A, CommonNH.BTP_B):
        for L in ((0, 5) if ctx.tier == "quick" else (0, 1, 5, 64, 1400)):
            _btp_indication(ctx, nh, L)
    ctx.bound("two registered ports r1 != r2 (symbolic, all 16-bit values), GN-SDU of 4+L symbolic octets, L in {0,5} (quick) / {0,1,5,64,1400} (thorough)")


# ------------------------------------------------------------------------------------------------ V2 source -> wire -> receiver
RX_MID = b"\x22\x33\x44\x55\x66\x77"
WID = 8 * 24 + 128 + 64


def _rx(h_tx, pkt_cond_list, receiver_mid, name):
    """feed every packet the sender may emit into a second (receiving) router"""
    mib = MIB(itsGnLocalGnAddr=GNAddress(m=M.GN_UNICAST, st=ST.CYCLIST, mid=MID(receiver_mid)))
    hr = Harness(8 * 24 + 128 + 64, mib=mib, geom="free", greedy="free", area_size="free", ego="sym")
    hr.I._nfresh = 1000 if name == "rx" else 2000          # keep fresh names of the two evaluators apart
    # rename the receiver's ego variables so that they differ from the sender's
    hr.ego = G.sym_lpv(hr.I, name + "ego")
    hr.ego.fields["gn_addr"] = mib.itsGnLocalGnAddr
    hr.Ro.fields["ego_position_vector"] = hr.ego
    hr.add_entry(name + "e")
    for c, p in pkt_cond_list:
        hr.call(Router.gn_data_indicate, hr.I.sbytes(p), pc=c)
    return hr


def _e2e(ctx, tag, h, req, sends_expected_type, L):
    I = h.I
    sent = [(c, I.sbytes(p)) for c, p in h.sent]
    hr = _rx(h, sent, RX_MID, "rx")
    hs = _rx(h, sent, LOCAL_MID, "self")          # the sender hearing its own packet
    Ir = hr.I
    assum = list(I.assumptions) + list(Ir.assumptions) + list(hs.I.assumptions)
    nodup = z3.And(*[z3.Not(d) for d in list(hr.dup.values())]) if hr.dup else TRUE
    anysend = h.any_send()
    pre = z3.And(nodup, z3.Not(h.exc()))
    inds = hr.indications
    delivered = hr.any_indication()
    f_rx = [f for pc, a, f in hr.F]
    ego_F = [(pc, f) for pc, a, f in hr.F if a[2] is hr.ego.fields["latitude"]]        # F at the receiver's own position
    inside = z3.And(*[z3.Implies(pc, f >= 0) for pc, f in ego_F]) if ego_F else TRUE
    outside = z3.Or(*[z3.And(pc, f < 0) for pc, f in ego_F]) if ego_F else FALSE
    vars_ = all_vars(h, req)
    vars_.update(all_vars(hr))
    vars_.update(all_vars(hs))
    S = z3.Solver

    class Both:            # minimal stand-in so that ctx.prove adds both evaluators' assumptions
        assumptions = assum
        calls = set(I.calls) | set(Ir.calls)
        unwind = []
    B = Both()
    content_bad = []
    for c, ind in inds:
        d = Ir.sbytes(ind.fields["data"])
        cs = [TRUE if len(d.bs) != L else (W.bits_of_bytes(d) != W.bits_of_bytes(req.fields["data"]) if L else FALSE),
              z3.Not(Ir._lb(Ir.equal(ind.fields["length"], L))),
              z3.Not(Ir._lb(Ir.equal(ind.fields["upper_protocol_entity"], req.fields["upper_protocol_entity"]))),
              z3.Not(Ir._lb(Ir.equal(ind.fields["traffic_class"], req.fields["traffic_class"])))]
        spv = ind.fields["source_position_vector"]
        for path, off, bits, kind in W.flat(W.LPV):
            if kind == "z":
                continue
            got = W.get_path(spv, path)
            want = W.get_path(h.ego, path)
            cs.append(z3.Not(Ir._lb(Ir.equal(got, want))))
        ptt = ind.fields["packet_transport_type"]
        ht_got = ptt.fields["header_type"] if isinstance(ptt, Obj) else ptt.header_type
        cs.append(z3.Not(Ir._lb(Ir.equal(ht_got, sends_expected_type))))
        content_bad.append(z3.And(c, z3.Or(*cs)))
    multi = [z3.And(inds[i][0], inds[j][0]) for i in range(len(inds)) for j in range(i)]

    def replay(vals):
        from flexstack.geonet.location_table import LocationTable
        Rt, llt, gott, patches = build_real(h, vals)
        rq = G.concretize(req, vals)
        with patches:
            try:
                Rt.gn_data_request(rq)
            except Exception as e:
                return True, f"{tag}: source operation raised {e!r}"
        msgs = []
        for p in llt.sent:
            Rr, llr, gotr, patches_r = build_real(hr, vals)
            with patches_r:
                try:
                    Rr.gn_data_indicate(p)
                except Exception as e:
                    msgs.append(f"receiver raised {e!r}")
                    continue
            fvals = [vals[f.decl().name()] for pc, a, f in hr.F if a[2] is hr.ego.fields["latitude"] and vals.get("__pc__" + f.decl().name(), True)]
            must = all(v >= 0 for v in fvals) and not Rr.location_table.dup_methods
            mustnot = any(v < 0 for v in fvals)
            if must and len(gotr) != 1:
                msgs.append(f"receiver inside the area / in range got {len(gotr)} indications")
            if mustnot and gotr:
                msgs.append("receiver outside the destination area was delivered to")
            for g in gotr:
                if g.data != rq.data:
                    msgs.append(f"payload {g.data.hex()} != sent {rq.data.hex()}")
                sp, eg = g.source_position_vector, Rt.ego_position_vector
                if (sp.latitude, sp.longitude, sp.s, sp.h, sp.pai, sp.tst.msec, sp.gn_addr.mid.mid) != (eg.latitude, eg.longitude, eg.s, eg.h, eg.pai, eg.tst.msec, eg.gn_addr.mid.mid):
                    msgs.append(f"source position vector {sp} differs from the sender's ego PV {eg}")
                if g.upper_protocol_entity != rq.upper_protocol_entity or g.packet_transport_type.header_type != sends_expected_type:
                    msgs.append("transport type / next header differ")
            # the sender hearing itself
            Rs, lls, gots, patches_s = build_real(hs, vals)
            with patches_s:
                try:
                    Rs.gn_data_indicate(p)
                except Exception:
                    pass
            if gots:
                msgs.append("the sender delivered its own packet to its upper layer")
        return bool(msgs), f"{tag}: " + "; ".join(msgs)
    ctx.witness(f"{tag}-reach-delivery", B, z3.And(pre, anysend, delivered, z3.Not(hr.exc())), vars=vars_)
    ctx.prove(f"{tag}-receiver-does-not-fail", B, z3.And(pre, hr.exc()), vars=vars_, replay=replay)
    ctx.prove(f"{tag}-delivered-when-inside", B, z3.And(pre, anysend, inside, z3.Not(delivered)), vars=vars_, replay=replay,
              desc="every emitted packet reaches the upper layer of a receiver in range / inside the destination area")
    ctx.prove(f"{tag}-not-delivered-outside", B, z3.And(pre, outside, delivered), vars=vars_, replay=replay,
              desc="a receiver outside the destination area never delivers the packet")
    ctx.prove(f"{tag}-exactly-once", B, z3.And(pre, z3.Or(*multi)) if multi else FALSE, vars=vars_, replay=replay)
    ctx.prove(f"{tag}-payload-pv-and-transport-intact", B, z3.And(pre, z3.Or(*content_bad)) if content_bad else FALSE, vars=vars_, replay=replay,
              desc="indication carries the byte-identical payload, the sender's ego position vector field by field (signed coordinates), "
                   "traffic class, next header and transport type")
    ctx.prove(f"{tag}-sender-ignores-own-packet", B, z3.And(pre, hs.any_indication()), vars=vars_, replay=replay,
              desc="the same frame heard by the sender itself is not delivered (duplicate address detection)")
    ctx.functions |= set(hr.I.calls) | set(hs.I.calls)


@vc("C01", "V2-end-to-end-shb")
def e2e_shb(ctx):
    for L in ((0, 4) if ctx.tier == "quick" else (0, 1, 4, 8, 64)):
        h, req, conf, ex, lt_ms = E.case_shb(L, None, width=WID)
        _e2e(ctx, f"SHB[L={L}]", h, req, HeaderType.TSB, L)
    ctx.bound("two symbolic stations (ego PVs over the full signed WGS-84 range), payload of L symbolic octets, symbolic traffic class / next header")
    ctx.stub("location tables = symbolic tables (no duplicate reported); link layer = the sender's send log fed to the receiver's gn_data_indicate")


@vc("C01", "V2-end-to-end-gbc-gac")
def e2e_gbc(ctx):
    cases = [(HeaderType.GEOBROADCAST, GeoBroadcastHST.GEOBROADCAST_CIRCLE), (HeaderType.GEOANYCAST, GeoAnycastHST.GEOANYCAST_ELIP)]
    if ctx.tier == "thorough":
        cases = [(HeaderType.GEOBROADCAST, x) for x in GeoBroadcastHST] + [(HeaderType.GEOANYCAST, x) for x in GeoAnycastHST]
    for ht, hst in cases:
        for L in ((4,) if ctx.tier == "quick" else (0, 4, 64)):
            h, req, conf, ex, lt_ms, info = E.case_gbc(ht, hst, L, None, width=WID)
            _e2e(ctx, f"{hst.name}[L={L}]", h, req, ht, L)
    ctx.bound("GBC/GAC: area centre/axes/angle, hop limit, sequence number symbolic; receiver inside <=> its geometric function value >= 0 (free real, decided in C07)")


@vc("C01", "V2-end-to-end-guc")
def e2e_guc(ctx):
    for L in ((4,) if ctx.tier == "quick" else (0, 4, 64)):
        h, req, conf, ex, lt_ms, info = E.case_guc(L, None, width=WID)
        # the unicast destination is the receiving station
        for i in range(6):
            h.I.assumptions.append(req.fields["destination"].fields["mid"].fields["mid"].bs[i] == RX_MID[i])
        _e2e(ctx, f"GUC[L={L}]", h, req, HeaderType.GEOUNICAST, L)
    ctx.bound("GUC to a destination known to the sender's location table (arbitrary entry), destination = the receiving station")


# ------------------------------------------------------------------------------------------------ V3 location-service buffering
from ..values import TimerRec
from ..facil import cond_or
from flexstack.geonet.location_table import LocationTableEntry
from flexstack.geonet.ls_extended_header import LSReplyExtendedHeader
from flexstack.geonet.position_vector import LongPositionVector, ShortPositionVector
from flexstack.geonet.service_access_point import ResultCode
import dataclasses as _dc

LS_DEST = GNAddress(m=M.GN_UNICAST, st=ST.PASSENGER_CAR, mid=MID(b"\x0a\x0a\x0a\x0a\x0a\x0a"))


def _list_view(I, v, n=4):
    """(length term, is_at(i, obj) -> Bool) of a possibly guarded symbolic list"""
    alts = [(c, x) for c, x in v.alts if isinstance(x, SList)] if isinstance(v, Guarded) else ([(TRUE, v)] if isinstance(v, SList) else [])
    lens = []
    for c, x in alts:
        k = sum([z3.If(I._lb(cc), 1, 0) for cc, _ in x.items]) if x.items else z3.IntVal(0)
        lens.append((c, k if isinstance(k, z3.ExprRef) else z3.IntVal(k)))
    ln = z3.IntVal(0)
    for c, k in reversed(lens):
        ln = z3.If(c, k, ln)

    def is_at(i, obj):
        out = []
        for c, x in alts:
            n1 = len(I.raises)
            e = I.slist_index(x, i, TRUE) if x.items else None
            del I.raises[n1:]
            if e is None:
                continue
            out.append(z3.And(c, I._lb(I.identical(e, obj))))
        return z3.Or(*out) if out else FALSE
    return ln, is_at


def _gnum(I, v):
    """integer term of a possibly guarded number"""
    if isinstance(v, Guarded):
        alts = [(c, _gnum(I, x)) for c, x in v.alts if not isinstance(x, type(UNDEF)) and x is not None]
        r = alts[-1][1]
        for c, x in reversed(alts[:-1]):
            r = z3.If(c, x, r)
        return r
    return I.num(v)


def _ls_harness(nbuf=2):
    """router whose location-service bookkeeping is in an arbitrary state for one destination: LocTE present or not, lookup pending
    or not, up to `nbuf` requests already waiting, arbitrary retransmission count"""
    h = Harness(8 * 24 + 128, table="none", ego="real")
    I = h.I
    present, pending, flag = z3.Bool("locte_present"), z3.Bool("lookup_pending"), z3.Bool("locte_ls_pending_flag")
    # the LocTE flag is only set while the router's own bookkeeping says a lookup is in progress; the converse does not hold
    # (the placeholder LocTE expires with the next table refresh and may be re-created by any reception from that station)
    I.assumptions.append(z3.Implies(flag, z3.And(pending, present)))
    entry = Obj(LocationTableEntry, dict(mib=h.R.mib, position_vector=G.sym_lpv(I, "de_pv"), is_neighbour=z3.Bool("de_nb"), ls_pending=flag,
                                         pdr=I.const(0) if hasattr(I, "const") else 0))
    entry.fields["position_vector"].fields["gn_addr"] = LS_DEST
    fresh_entry = Obj(LocationTableEntry, dict(mib=h.R.mib, position_vector=I.lift_value(_dc.replace(LongPositionVector(), gn_addr=LS_DEST)),
                                               is_neighbour=False, ls_pending=False, pdr=0))
    created = []
    lt = Opaque("location_table")

    def table(it, name, a, k, pc):
        it.events.append((pc, "tbl." + name, a))
        if name == "get_entry":
            return it.ite(z3.Or(present, cond_or(c for c in created)), it.ite(present, entry, fresh_entry), None)
        if name == "ensure_entry":
            created.append(z3.And(pc, z3.Not(present)))
            return it.ite(present, entry, fresh_entry)
        if name == "get_neighbours":
            return SList([(z3.Bool("has_neighbour"), entry)])
        if name.startswith("new_"):
            return None
        raise NotImplementedError(name)
    I.stubs[id(lt)] = table
    h.Ro.fields["location_table"] = lt
    ls_sent, guc = [], []
    I.stubs[Router._send_ls_request_packet] = lambda it, a, k, pc: ls_sent.append(pc)
    olds = [Opaque(f"waiting_request_{i}") for i in range(nbuf)]
    hasw = [z3.Bool(f"request_{i}_waiting") for i in range(nbuf)]
    for i in range(1, nbuf):
        I.assumptions.append(z3.Implies(hasw[i], hasw[i - 1]))
    nold = sum([z3.If(b, 1, 0) for b in hasw])
    cnt = I.int_var("retransmit_count", 0, 12)
    timer0 = TimerRec(1.0, None, [], TRUE)
    I.assumptions.append(z3.Implies(z3.Not(pending), z3.Not(hasw[0])))
    h.Ro.fields["_ls_packet_buffers"] = SDict([(pending, LS_DEST, SList([(hasw[i], olds[i]) for i in range(nbuf)]), False)])
    h.Ro.fields["_ls_retransmit_counters"] = SDict([(pending, LS_DEST, cnt, False)])
    h.Ro.fields["_ls_timers"] = SDict([(pending, LS_DEST, timer0, False)])
    vars_ = {"locte_present": present, "lookup_pending": pending, "locte_ls_pending_flag": flag, "retransmit_count": cnt}
    vars_.update({f"request_{i}_waiting": hasw[i] for i in range(nbuf)})
    return h, dict(present=present, pending=pending, flag=flag, entry=entry, fresh=fresh_entry, ls_sent=ls_sent, guc=guc, olds=olds, nold=nold, cnt=cnt, timer0=timer0,
                   created=created, vars=vars_)


def _ls_real_router(vals, nbuf=2):
    from unittest import mock
    R, ll, got = real_router()
    state = {"pending": bool(vals["lookup_pending"]), "present": bool(vals["locte_present"])}

    class Entry:
        def __init__(self, pending):
            self.ls_pending = pending
            self.position_vector = _dc.replace(LongPositionVector(), gn_addr=LS_DEST, latitude=415520000, longitude=21340000)
            self.is_neighbour = True
            self.pdr = 0.0
    ent = Entry(bool(vals.get("locte_ls_pending_flag", state["pending"])))
    holder = {"e": ent if state["present"] else None}
    lt = mock.Mock()
    lt.get_entry.side_effect = lambda a: holder["e"]

    def ensure(a):
        if holder["e"] is None:
            holder["e"] = Entry(False)
            holder["e"].position_vector = _dc.replace(LongPositionVector(), gn_addr=LS_DEST)
        return holder["e"]
    lt.ensure_entry.side_effect = ensure
    lt.get_neighbours.return_value = [ent]
    R.location_table = lt
    waiting = [f"waiting-{i}" for i in range(nbuf) if vals.get(f"request_{i}_waiting")]
    timer0 = mock.Mock()
    if state["pending"]:
        R._ls_packet_buffers[LS_DEST] = list(waiting)
        R._ls_retransmit_counters[LS_DEST] = vals["retransmit_count"]
        R._ls_timers[LS_DEST] = timer0
    ls_sent = []
    R._send_ls_request_packet = lambda a: ls_sent.append(a)
    return R, ll, holder, waiting, timer0, ls_sent


@vc("C01", "V3-ls-request-while-unknown-or-pending")
def ls_request_buffered(ctx):
    """a geo-unicast request for a destination that is unknown, or whose lookup is pending, is not sent but queued last; exactly one
    LS request starts a new lookup"""
    h, s = _ls_harness()
    I = h.I
    req = sym_request(I, "rq", HeaderType.GEOUNICAST, TopoBroadcastHST.SINGLE_HOP, 4, None, destination=LS_DEST)
    req.fields["packet_transport_type"] = PacketTransportType(header_type=HeaderType.GEOUNICAST, header_subtype=HeaderSubType.UNSPECIFIED)
    n0 = len(I.raises)
    conf = h.call(Router.gn_data_request_guc, req)
    exc = exc_of(I, n0)
    unresolved = z3.Or(z3.Not(s["present"]), s["flag"])
    sent = cond_or(c for c, _ in h.sent)
    buf_found, buf = I.sdict_lookup(I._as_sdict(h.Ro.fields["_ls_packet_buffers"]), LS_DEST)
    blen, is_at = _list_view(I, buf)
    last_is_req = z3.Or(*[z3.And(blen == k + 1, is_at(k, req)) for k in range(3)])
    olds_kept = z3.And(*[z3.Implies(s["nold"] > i, is_at(i, s["olds"][i])) for i in range(2)])
    n_ls = sum([z3.If(c, 1, 0) for c in s["ls_sent"]]) if s["ls_sent"] else z3.IntVal(0)
    # afterwards a lookup is in progress: the router holds a buffer for the destination, and a LocTE created for a new lookup is flagged
    pend_after = z3.And(I._lb(buf_found), z3.Implies(z3.And(z3.Not(s["present"]), z3.Not(s["pending"])), I.to_bool(s["fresh"].fields["ls_pending"])))

    def replay(vals):
        R, ll, holder, waiting, timer0, ls_sent = _ls_real_router(vals)
        from unittest import mock
        import flexstack.geonet.router as RM
        rq = GNDataRequest(upper_protocol_entity=CommonNH.BTP_B, packet_transport_type=PacketTransportType(header_type=HeaderType.GEOUNICAST, header_subtype=HeaderSubType.UNSPECIFIED),
                           communication_profile=CommunicationProfile.UNSPECIFIED, traffic_class=TrafficClass(), length=4, data=b"DATA", destination=LS_DEST)
        with mock.patch.object(RM, "Timer", lambda *a, **k: mock.Mock()):
            conf_ = R.gn_data_request_guc(rq)
        buf_ = R._ls_packet_buffers.get(LS_DEST, [])
        unresolved_ = (not vals["locte_present"]) or vals["locte_ls_pending_flag"]
        bad = []
        if unresolved_:
            if ll.sent:
                bad.append(f"{len(ll.sent)} packet(s) put on the air although the destination is not resolved (destination position vector "
                           f"lat={holder['e'].position_vector.latitude} lon={holder['e'].position_vector.longitude})")
            if not buf_ or buf_[-1] is not rq:
                bad.append("the request is not the last one waiting for the lookup")
            if buf_[:len(waiting)] != waiting and not (buf_ and buf_[-1] is not rq):
                bad.append("requests that were already waiting were dropped or reordered")
            if len(ls_sent) != (0 if vals["lookup_pending"] else 1):
                bad.append(f"{len(ls_sent)} LS requests emitted")
            if LS_DEST not in R._ls_packet_buffers or (not vals["locte_present"] and not vals["lookup_pending"] and not holder["e"].ls_pending):
                bad.append("no lookup in progress afterwards")
        return bool(bad), "geo-unicast request, " + ("no LocTE" if not vals["locte_present"] else "placeholder LocTE of a pending lookup" if vals["locte_ls_pending_flag"] else "destination known") + \
            (", lookup in progress" if vals["lookup_pending"] else ", no lookup in progress") + \
            ": " + ("; ".join(bad) or "ok") + f" (buffer {buf_})"
    vars_ = dict(s["vars"])
    ctx.witness("ls-request-reach-unknown", I, z3.And(z3.Not(s["present"]), z3.Not(exc)), vars=vars_)
    ctx.witness("ls-request-reach-pending", I, z3.And(s["present"], s["flag"], s["nold"] == 1, z3.Not(exc)), vars=vars_)
    ctx.witness("ls-request-reach-pending-with-expired-placeholder", I, z3.And(z3.Not(s["present"]), s["pending"], s["nold"] == 2, z3.Not(exc)), vars=vars_)
    ctx.prove("ls-request-no-exception", I, exc, vars=vars_, replay=replay)
    ctx.prove("ls-request-nothing-sent-while-unresolved", I, z3.And(unresolved, sent), vars=vars_, replay=replay,
              desc="no packet of the request reaches the link layer while the destination is unknown or its lookup is pending")
    ctx.prove("ls-request-queued-last", I, z3.And(unresolved, z3.Not(z3.And(I._lb(buf_found), last_is_req))), vars=vars_, replay=replay,
              desc="the request is appended after the requests already waiting for that destination (order per destination)")
    ctx.prove("ls-request-earlier-requests-kept", I, z3.And(unresolved, z3.Not(olds_kept)), vars=vars_, replay=replay)
    ctx.prove("ls-request-one-ls-request-per-new-lookup", I, z3.And(unresolved, n_ls != z3.If(s["pending"], 0, 1)), vars=vars_, replay=replay)
    ctx.prove("ls-request-lookup-pending-afterwards", I, z3.And(unresolved, z3.Not(pend_after)), vars=vars_, replay=replay)
    ctx.bound("one destination; LocTE present or not, its ls_pending flag set or not, lookup in progress or not (flag implies lookup and LocTE, not conversely: the placeholder "
              "LocTE may have expired or been re-created by an unrelated reception), 0..2 requests already waiting; payload 4 octets (content irrelevant here)")
    ctx.stub("location table answers for the one destination (get_entry / ensure_entry / get_neighbours); _send_ls_request_packet recorded; threading.Timer recorded")


@vc("C01", "V3-ls-reply-flushes-in-order")
def ls_reply_flush(ctx):
    """the LS reply of the sought station hands every waiting request, in order, exactly once to the geo-unicast source operation"""
    h, s = _ls_harness()
    I = h.I
    I.assumptions.append(s["pending"])
    hdr = LSReplyExtendedHeader(sn=5, so_pv=_dc.replace(LongPositionVector(), gn_addr=LS_DEST),
                                de_pv=_dc.replace(ShortPositionVector(), gn_addr=h.R.mib.itsGnLocalGnAddr))
    I.stubs[LSReplyExtendedHeader.decode] = lambda it, a, k, pc: hdr
    order = []
    I.stubs[Router.gn_data_request_guc] = lambda it, a, k, pc: order.append((pc, a[1]))
    from flexstack.geonet.basic_header import BasicHeader
    from flexstack.geonet.common_header import CommonHeader
    n0 = len(I.raises)
    h.call(Router.gn_data_indicate_ls_reply, bytes(60), CommonHeader(), BasicHeader())
    exc = exc_of(I, n0)
    nold = s["nold"]
    calls_of = lambda o: sum([z3.If(z3.And(c, I._lb(I.identical(r, o))), 1, 0) for c, r in order]) if order else z3.IntVal(0)
    in_order = TRUE
    if len(order) >= 2:
        # the k-th executed hand-over is the k-th waiting request
        in_order = z3.And(*[z3.Implies(order[i][0], I._lb(I.identical(order[i][1], s["olds"][i]))) for i in range(min(len(order), 2))])
    buf_found, _ = I.sdict_lookup(I._as_sdict(h.Ro.fields["_ls_packet_buffers"]), LS_DEST)
    pend_after = I.to_bool(s["entry"].fields["ls_pending"])
    cancelled = s["timer0"].cancelled if hasattr(s["timer0"], "cancelled") else None

    def replay(vals):
        vals = dict(vals, lookup_pending=True)
        R, ll, holder, waiting, timer0, ls_sent = _ls_real_router(vals)
        handed = []
        R.gn_data_request_guc = lambda r: handed.append(r)
        R.duplicate_address_detection = lambda a: None
        R.gn_data_indicate_ls_reply(hdr.encode(), CommonHeader(), BasicHeader())
        bad = []
        if handed != waiting:
            bad.append(f"waiting requests {waiting} were handed over as {handed}")
        if LS_DEST in R._ls_packet_buffers:
            bad.append("buffer not emptied")
        if holder["e"] is not None and holder["e"].ls_pending:
            bad.append("lookup still pending")
        if not timer0.cancel.called:
            bad.append("retransmission timer not stopped")
        return bool(bad), f"LS reply with {len(waiting)} waiting request(s), LocTE flag ls_pending={vals['lookup_pending']} present={vals['locte_present']}: " + ("; ".join(bad) or "ok")
    vars_ = dict(s["vars"])
    ctx.witness("ls-reply-reach-two-waiting", I, z3.And(nold == 2, z3.Not(exc)), vars=vars_)
    ctx.prove("ls-reply-no-exception", I, exc, vars=vars_, replay=replay)
    for i in range(2):
        ctx.prove(f"ls-reply-waiting-request-{i}-handed-over-exactly-once", I, z3.And(nold > i, calls_of(s["olds"][i]) != 1), vars=vars_, replay=replay,
                  desc="also when the LocTE flag of the sought station was lost in between (entry expired and re-created by the reply)")
    ctx.prove("ls-reply-nothing-else-handed-over", I, (sum([z3.If(c, 1, 0) for c, r in order]) if order else z3.IntVal(0)) != nold, vars=vars_, replay=replay)
    ctx.prove("ls-reply-in-request-order", I, z3.Not(in_order), vars=vars_, replay=replay)
    ctx.prove("ls-reply-buffer-emptied-and-lookup-closed", I, z3.Or(I._lb(buf_found), z3.And(s["present"], pend_after)), vars=vars_, replay=replay)
    ctx.bound("reply from the sought station addressed to this station; 0..2 waiting requests; the LocTE of the sought station present or not, its ls_pending flag arbitrary")
    ctx.stub("LS reply decoder returns the tracked header; gn_data_request_guc recorded (its own behaviour: V2 / V3-ls-request); location table as in V3-ls-request")


@vc("C01", "V3-ls-retransmission-and-give-up")
def ls_retransmit(ctx):
    """retransmission timer: below the retry limit the LS request is repeated and every waiting request is kept; at the limit the
    waiting requests are dropped and the lookup is closed"""
    h, s = _ls_harness()
    I = h.I
    I.assumptions.append(s["pending"])
    I.assumptions.append(s["present"])
    n0 = len(I.raises)
    h.call(Router._ls_retransmit, LS_DEST)
    exc = exc_of(I, n0)
    MAXR = h.R.mib.itsGnLocationServiceMaxRetrans
    cnt = I.num(s["cnt"])
    buf_found, buf = I.sdict_lookup(I._as_sdict(h.Ro.fields["_ls_packet_buffers"]), LS_DEST)
    cfound, cval = I.sdict_lookup(I._as_sdict(h.Ro.fields["_ls_retransmit_counters"]), LS_DEST)
    n_ls = sum([z3.If(c, 1, 0) for c in s["ls_sent"]]) if s["ls_sent"] else z3.IntVal(0)
    blen, _ = _list_view(I, buf)
    pend_after = I.to_bool(s["entry"].fields["ls_pending"])

    def replay(vals):
        vals = dict(vals, lookup_pending=True, locte_present=True)
        from unittest import mock
        import flexstack.geonet.router as RM
        R, ll, holder, waiting, timer0, ls_sent = _ls_real_router(vals)
        with mock.patch.object(RM, "Timer", lambda *a, **k: mock.Mock()):
            R._ls_retransmit(LS_DEST)
        bad = []
        if vals["retransmit_count"] < MAXR:
            if R._ls_packet_buffers.get(LS_DEST) != waiting:
                bad.append("waiting requests changed by a retransmission")
            if len(ls_sent) != 1:
                bad.append(f"{len(ls_sent)} LS requests sent")
            if R._ls_retransmit_counters.get(LS_DEST) != vals["retransmit_count"] + 1:
                bad.append("retry counter not advanced by one")
            if holder["e"].ls_pending != bool(vals.get("locte_ls_pending_flag")):
                bad.append("LocTE lookup flag changed by a retransmission below the limit")
        else:
            if LS_DEST in R._ls_packet_buffers or holder["e"].ls_pending or ls_sent or ll.sent:
                bad.append("give-up did not drop the waiting requests / close the lookup, or something was sent")
        return bool(bad), f"retransmission with count {vals['retransmit_count']} (limit {MAXR}), {len(waiting)} waiting: " + ("; ".join(bad) or "ok")
    vars_ = dict(s["vars"])
    ctx.witness("ls-retransmit-reach-give-up", I, z3.And(cnt >= MAXR, z3.Not(exc)), vars=vars_)
    ctx.witness("ls-retransmit-reach-repeat", I, z3.And(cnt < MAXR, s["nold"] == 2, z3.Not(exc)), vars=vars_)
    ctx.prove("ls-retransmit-no-exception", I, exc, vars=vars_, replay=replay)
    ctx.prove("ls-retransmit-below-limit-repeats-and-keeps", I, z3.And(cnt < MAXR, z3.Not(z3.And(I._lb(buf_found), blen == s["nold"], n_ls == 1, I._lb(cfound),
                                                                                              _gnum(I, cval) == cnt + 1, pend_after == s["flag"]))), vars=vars_, replay=replay,
              desc="a retransmission below the limit repeats the LS request once, advances the counter and leaves waiting requests and the LocTE flag alone")
    ctx.prove("ls-retransmit-at-limit-drops-and-closes", I, z3.And(cnt >= MAXR, z3.Or(I._lb(buf_found), n_ls != 0, pend_after, cond_or(c for c, _ in h.sent))), vars=vars_, replay=replay)
    ctx.bound("retry count 0..12 against itsGnLocationServiceMaxRetrans of the default MIB; 0..2 waiting requests")
