"""C01 - end-to-end payload delivery between stations through BTP and GeoNetworking."""
import z3
from ..calls import make
from ..values import Obj, EnumSym, SBytes, Guarded, SDict, SList, Opaque, UNDEF
from ..interp import TRUE, FALSE
from ..runner import vc
from .. import symgn as G
from .. import wire as W
from .. import emit as E
from ..gnharness import Harness, sym_request, all_vars, build_real, eval_term, real_router, LOCAL_MID

from flexstack.btp.router import Router as BTPRouter
from flexstack.btp.service_access_point import BTPDataRequest, BTPDataIndication
from flexstack.btp.btp_header import BTPAHeader, BTPBHeader
from flexstack.geonet.router import Router
from flexstack.geonet.mib import MIB
from flexstack.geonet.gn_address import GNAddress, M, ST, MID
from flexstack.geonet.service_access_point import (GNDataRequest, GNDataIndication, CommonNH, HeaderType, TopoBroadcastHST, GeoBroadcastHST,
                                                    GeoAnycastHST, HeaderSubType, PacketTransportType, Area, TrafficClass, CommunicationProfile)
from flexstack.security.security_profiles import SecurityProfile


def exc_of(I, n0=0):
    r = I.raises[n0:]
    return z3.Or(*[c for c, _ in r]) if r else FALSE


# ------------------------------------------------------------------------------------------------ V1 BTP request
def _btp_request(ctx, btp_type, L):
    I = make("bv", 128)
    payload = G.sym_bytes("p", L)
    dest = G.sym_gn_addr(I, "dst")
    area = Obj(Area, dict(latitude=I.int_var("alat", -900000000, 900000000), longitude=I.int_var("alon", -1800000000, 1800000000),
                          a=I.int_var("aa", 0, 65535), b=I.int_var("ab", 0, 65535), angle=I.int_var("ang", 0, 359)))
    ptt = Obj(PacketTransportType, dict(header_type=G.sym_enum(I, "ht", HeaderType), header_subtype=HeaderSubType.UNSPECIFIED))
    req = Obj(BTPDataRequest, dict(
        btp_type=btp_type, source_port=I.int_var("sport", 0, 65535), destination_port=I.int_var("dport", 0, 65535),
        destination_port_info=I.int_var("dinfo", 0, 65535), gn_packet_transport_type=ptt, gn_destination_address=dest, gn_area=area,
        gn_max_hop_limit=I.int_var("hl", 0, 255), gn_max_packet_lifetime=None, gn_repetition_interval=None, gn_max_repetition_time=None,
        communication_profile=CommunicationProfile.UNSPECIFIED, traffic_class=G.sym_tc(I, "tc"), security_profile=SecurityProfile.NO_SECURITY,
        its_aid=I.int_var("aid", 0, 65535), security_permissions=b"\x00", length=L, data=payload))
    got = []

    class FakeGN:
        pass
    gn = FakeGN()
    I.stubs[id(gn)] = lambda it, name, a, k, pc: got.append((pc, name, a[0])) if name == "gn_data_request" else None
    r = BTPRouter.__new__(BTPRouter)
    ro = Obj(BTPRouter, dict(logging=Opaque("logger"), pre_indication_callbacks={}, indication_callbacks=None, gn_router=gn))
    I.stubs[id(ro.fields["logging"])] = lambda it, name, a, k, pc: None
    I.call_function(BTPRouter.btp_data_request, [ro, req])
    tag = f"{btp_type.name}[L={L}]"
    vars_ = G.vars_of(I, req)
    hdr_layout = W.BTPB if btp_type == CommonNH.BTP_B else W.BTPA
    hv = {"destination_port": req.fields["destination_port"]}
    if btp_type == CommonNH.BTP_B:
        hv["destination_port_info"] = req.fields["destination_port_info"]
    else:
        hv["source_port"] = req.fields["source_port"]
    hb, _ = E.pack_vals(I, hv, hdr_layout)
    want = z3.Concat(hb, W.bits_of_bytes(payload)) if L else hb
    bad = []
    for pc, name, g in got:
        d = I.sbytes(g.fields["data"])
        cs = [TRUE if len(d.bs) != L + 4 else W.bits_of_bytes(d) != want,
              z3.Not(I._lb(I.equal(g.fields["length"], L + 4))),
              z3.Not(I._lb(I.equal(g.fields["upper_protocol_entity"], btp_type))),
              z3.Not(I._lb(I.equal(g.fields["packet_transport_type"], ptt))),
              z3.Not(I._lb(I.equal(g.fields["area"], area))),
              z3.Not(I._lb(I.equal(g.fields["traffic_class"], req.fields["traffic_class"]))),
              z3.Not(I._lb(I.equal(g.fields["max_hop_limit"], req.fields["gn_max_hop_limit"]))),
              z3.Not(I._lb(I.identical(g.fields["max_packet_lifetime"], None))),
              z3.Not(I._lb(I.equal(g.fields["its_aid"], req.fields["its_aid"])))]
        dst = g.fields.get("destination")
        cs.append(TRUE if dst is None else z3.Not(I._lb(I.equal(dst, dest))))
        bad.append(z3.And(pc, z3.Or(*cs)))
    once = z3.And(*[pc for pc, _, _ in got]) if len(got) == 1 else FALSE

    def replay(vals):
        from unittest import mock
        rq = G.concretize(req, vals)
        seen = []
        gnr = mock.Mock()
        gnr.gn_data_request = lambda x: seen.append(x)
        br = BTPRouter(gnr)
        try:
            br.btp_data_request(rq)
        except Exception as e:
            return True, f"{tag}: raised {e!r}"
        if len(seen) != 1:
            return True, f"{tag}: {len(seen)} GN requests for one BTP request"
        g = seen[0]
        hdr = rq.destination_port.to_bytes(2, "big") + (rq.destination_port_info if btp_type == CommonNH.BTP_B else rq.source_port).to_bytes(2, "big")
        msgs = []
        if g.data != hdr + rq.data:
            msgs.append(f"GN SDU {g.data.hex()} != BTP header {hdr.hex()} | payload {rq.data.hex()}")
        if g.length != len(rq.data) + 4:
            msgs.append(f"GN length {g.length} != {len(rq.data) + 4} octets handed down")
        if g.upper_protocol_entity != btp_type or g.packet_transport_type != rq.gn_packet_transport_type or g.area != rq.gn_area \
                or g.traffic_class != rq.traffic_class or g.max_hop_limit != rq.gn_max_hop_limit:
            msgs.append("transport parameters not passed through")
        if g.destination is None or g.destination != rq.gn_destination_address:
            msgs.append(f"GN destination address {g.destination} != requested {rq.gn_destination_address}")
        return bool(msgs), f"{tag}: " + "; ".join(msgs)
    ctx.witness(f"{tag}-reach", I, z3.And(once, z3.Not(exc_of(I))), vars=vars_)
    ctx.prove(f"{tag}-exactly-one-gn-request", I, z3.Or(exc_of(I), z3.Not(once)), vars=vars_, replay=replay)
    ctx.prove(f"{tag}-header-prepended-and-parameters-passed", I, z3.Or(*bad) if bad else TRUE, vars=vars_, replay=replay,
              desc="GN SDU = BTP header | payload (EN 302 636-5-1 clause 7), length = SDU octets, transport type / area / TC / hop limit / "
                   "destination address handed to GN-DATA.request unchanged")


@vc("C01", "V1-btp-request")
def btp_request(ctx):
    for t in (CommonNH.BTP_A, CommonNH.BTP_B):
        for L in ((0, 5) if ctx.tier == "quick" else (0, 1, 5, 64, 1400)):
            _btp_request(ctx, t, L)
    ctx.bound("BTP-A/BTP-B, payload lengths {0,5} (quick) / {0,1,5,64,1400} (thorough) with all octets symbolic, every 16-bit port / port info, "
              "symbolic transport type, area, traffic class, hop limit, destination address")
    ctx.stub("GN router replaced by a recorder of gn_data_request; logging is a no-op")


# ------------------------------------------------------------------------------------------------ V1 BTP indication / demux
def _btp_indication(ctx, nh, L):
    I = make("bv", 128)
    data = G.sym_bytes("d", 4 + L)
    spv = G.sym_lpv(I, "so")
    tcl = G.sym_tc(I, "tc")
    ptt = Obj(PacketTransportType, dict(header_type=G.sym_enum(I, "ht", HeaderType), header_subtype=HeaderSubType.UNSPECIFIED))
    ind = Obj(GNDataIndication, dict(upper_protocol_entity=nh, packet_transport_type=ptt, destination_area=None, source_position_vector=spv,
                                     traffic_class=tcl, remaining_packet_lifetime=None, remaining_hop_limit=I.int_var("rhl", 0, 255),
                                     length=4 + L, data=data))
    r1, r2 = I.int_var("r1", 0, 65535), I.int_var("r2", 0, 65535)
    I.assumptions.append(r1 != r2)
    calls = {1: [], 2: []}
    cb1, cb2 = (lambda x: None), (lambda x: None)
    I.stubs[id(cb1)] = lambda it, name, a, k, pc: calls[1].append((pc, a[0]))
    I.stubs[id(cb2)] = lambda it, name, a, k, pc: calls[2].append((pc, a[0]))
    ro = Obj(BTPRouter, dict(logging=Opaque("logger"), pre_indication_callbacks={}, gn_router=None,
                             indication_callbacks=SDict([(TRUE, r1, cb1, False), (TRUE, r2, cb2, False)])))
    I.stubs[id(ro.fields["logging"])] = lambda it, name, a, k, pc: None
    I.call_function(BTPRouter.btp_data_indication, [ro, ind])
    port = z3.ZeroExt(I.W - 16, z3.Concat(data.bs[0], data.bs[1]))
    second = z3.ZeroExt(I.W - 16, z3.Concat(data.bs[2], data.bs[3]))
    tag = f"{nh.name}[L={L}]"
    vars_ = G.vars_of(I, ind)
    vars_.update(r1=r1, r2=r2)

    def hit(k):
        return z3.Or(*[c for c, _ in calls[k]]) if calls[k] else FALSE

    def content_bad(k):
        out = []
        for c, x in calls[k]:
            d = I.sbytes(x.fields["data"])
            cs = [TRUE if len(d.bs) != L else (W.bits_of_bytes(d) != W.bits_of_bytes(SBytes(data.bs[4:])) if L else FALSE),
                  z3.Not(I._lb(I.equal(x.fields["length"], L))),
                  I.num(x.fields["destination_port"]) != port,
                  z3.Not(I._lb(I.equal(x.fields["gn_packet_transport_type"], ptt))),
                  z3.Not(I._lb(I.equal(x.fields["gn_traffic_class"], tcl))),
                  z3.Not(I._lb(I.identical(x.fields["gn_source_position_vector"], spv)) if isinstance(x.fields["gn_source_position_vector"], Obj) else FALSE)]
            if nh == CommonNH.BTP_B:
                cs.append(I.num(x.fields["destination_port_info"]) != second)
            else:
                cs.append(I.num(x.fields["source_port"]) != second)
            out.append(z3.And(c, z3.Or(*cs)))
        return z3.Or(*out) if out else FALSE
    multi = []
    for k in (1, 2):
        for i in range(len(calls[k])):
            for j in range(i):
                multi.append(z3.And(calls[k][i][0], calls[k][j][0]))

    def replay(vals):
        from unittest import mock
        gi = G.concretize(ind, vals)
        seen = {1: [], 2: []}
        br = BTPRouter(mock.Mock())
        br.register_indication_callback_btp(vals["r1"], seen[1].append)
        br.register_indication_callback_btp(vals["r2"], seen[2].append)
        br.freeze_callbacks()
        try:
            br.btp_data_indication(gi)
        except Exception as e:
            return True, f"{tag}: raised {e!r}"
        p = int.from_bytes(gi.data[0:2], "big")
        s2 = int.from_bytes(gi.data[2:4], "big")
        msgs = []
        for k, rk in ((1, vals["r1"]), (2, vals["r2"])):
            want = 1 if p == rk else 0
            if len(seen[k]) != want:
                msgs.append(f"handler of port {rk} invoked {len(seen[k])} times for a packet to port {p}")
            for x in seen[k]:
                if x.data != gi.data[4:] or x.destination_port != p or (x.destination_port_info if nh == CommonNH.BTP_B else x.source_port) != s2 \
                        or x.gn_source_position_vector != gi.source_position_vector or x.gn_packet_transport_type != gi.packet_transport_type:
                    msgs.append(f"indication content differs: data={x.data.hex()} port={x.destination_port}")
        return bool(msgs), f"{tag}: " + "; ".join(msgs)
    ctx.witness(f"{tag}-reach", I, z3.And(hit(1), z3.Not(exc_of(I))), vars=vars_, validate=lambda v: not replay(v)[0])
    ctx.prove(f"{tag}-no-exception", I, exc_of(I), vars=vars_, replay=replay)
    ctx.prove(f"{tag}-handler-iff-its-port", I, z3.Or(hit(1) != (port == r1), hit(2) != (port == r2)), vars=vars_, replay=replay,
              desc="exactly the handler registered for the destination port is invoked; none for an unregistered port")
    ctx.prove(f"{tag}-at-most-once", I, z3.Or(*multi) if multi else FALSE, vars=vars_, replay=replay)
    ctx.prove(f"{tag}-payload-and-parameters-intact", I, z3.Or(content_bad(1), content_bad(2)), vars=vars_, replay=replay,
              desc="handler receives the payload behind the 4 header octets byte-identical, with port / port info (source port), transport type, "
                   "traffic class and the sender's position vector")


@vc("C01", "V1-btp-indication")
def btp_indication(ctx):
    for nh in (CommonNH.BTP_A, CommonNH.BTP_B):
        for L in ((0, 5) if ctx.tier == "quick" else (0, 1, 5, 64, 1400)):
            _btp_indication(ctx, nh, L)
    ctx.bound("two registered ports r1 != r2 (symbolic, all 16-bit values), GN-SDU of 4+L symbolic octets, L in {0,5} (quick) / {0,1,5,64,1400} (thorough)")


# ------------------------------------------------------------------------------------------------ V2 source -> wire -> receiver
RX_MID = b"\x22\x33\x44\x55\x66\x77"
WID = 8 * 24 + 128 + 64


def _rx(h_tx, pkt_cond_list, receiver_mid, name):
    """feed every packet the sender may emit into a second (receiving) router"""
    mib = MIB(itsGnLocalGnAddr=GNAddress(m=M.GN_UNICAST, st=ST.CYCLIST, mid=MID(receiver_mid)))
    hr = Harness(8 * 24 + 128 + 64, mib=mib, geom="free", greedy="free", area_size="free", ego="sym")
    hr.I._nfresh = 1000 if name == "rx" else 2000          # keep fresh names of the two evaluators apart
    # rename the receiver's ego variables so that they differ from the sender's
    hr.ego = G.sym_lpv(hr.I, name + "ego")
    hr.ego.fields["gn_addr"] = mib.itsGnLocalGnAddr
    hr.Ro.fields["ego_position_vector"] = hr.ego
    hr.add_entry(name + "e")
    for c, p in pkt_cond_list:
        hr.call(Router.gn_data_indicate, hr.I.sbytes(p), pc=c)
    return hr


def _e2e(ctx, tag, h, req, sends_expected_type, L):
    I = h.I
    sent = [(c, I.sbytes(p)) for c, p in h.sent]
    hr = _rx(h, sent, RX_MID, "rx")
    hs = _rx(h, sent, LOCAL_MID, "self")          # the sender hearing its own packet
    Ir = hr.I
    assum = list(I.assumptions) + list(Ir.assumptions) + list(hs.I.assumptions)
    nodup = z3.And(*[z3.Not(d) for d in list(hr.dup.values())]) if hr.dup else TRUE
    anysend = h.any_send()
    pre = z3.And(nodup, z3.Not(h.exc()))
    inds = hr.indications
    delivered = hr.any_indication()
    f_rx = [f for pc, a, f in hr.F]
    ego_F = [(pc, f) for pc, a, f in hr.F if a[2] is hr.ego.fields["latitude"]]        # F at the receiver's own position
    inside = z3.And(*[z3.Implies(pc, f >= 0) for pc, f in ego_F]) if ego_F else TRUE
    outside = z3.Or(*[z3.And(pc, f < 0) for pc, f in ego_F]) if ego_F else FALSE
    vars_ = all_vars(h, req)
    vars_.update(all_vars(hr))
    vars_.update(all_vars(hs))
    S = z3.Solver

    class Both:            # minimal stand-in so that ctx.prove adds both evaluators' assumptions
        assumptions = assum
        calls = set(I.calls) | set(Ir.calls)
        unwind = []
    B = Both()
    content_bad = []
    for c, ind in inds:
        d = Ir.sbytes(ind.fields["data"])
        cs = [TRUE if len(d.bs) != L else (W.bits_of_bytes(d) != W.bits_of_bytes(req.fields["data"]) if L else FALSE),
              z3.Not(Ir._lb(Ir.equal(ind.fields["length"], L))),
              z3.Not(Ir._lb(Ir.equal(ind.fields["upper_protocol_entity"], req.fields["upper_protocol_entity"]))),
              z3.Not(Ir._lb(Ir.equal(ind.fields["traffic_class"], req.fields["traffic_class"])))]
        spv = ind.fields["source_position_vector"]
        for path, off, bits, kind in W.flat(W.LPV):
            if kind == "z":
                continue
            got = W.get_path(spv, path)
            want = W.get_path(h.ego, path)
            cs.append(z3.Not(Ir._lb(Ir.equal(got, want))))
        ptt = ind.fields["packet_transport_type"]
        ht_got = ptt.fields["header_type"] if isinstance(ptt, Obj) else ptt.header_type
        cs.append(z3.Not(Ir._lb(Ir.equal(ht_got, sends_expected_type))))
        content_bad.append(z3.And(c, z3.Or(*cs)))
    multi = [z3.And(inds[i][0], inds[j][0]) for i in range(len(inds)) for j in range(i)]

    def replay(vals):
        from flexstack.geonet.location_table import LocationTable
        Rt, llt, gott, patches = build_real(h, vals)
        rq = G.concretize(req, vals)
        with patches:
            try:
                Rt.gn_data_request(rq)
            except Exception as e:
                return True, f"{tag}: source operation raised {e!r}"
        msgs = []
        for p in llt.sent:
            Rr, llr, gotr, patches_r = build_real(hr, vals)
            with patches_r:
                try:
                    Rr.gn_data_indicate(p)
                except Exception as e:
                    msgs.append(f"receiver raised {e!r}")
                    continue
            fvals = [vals[f.decl().name()] for pc, a, f in hr.F if a[2] is hr.ego.fields["latitude"] and vals.get("__pc__" + f.decl().name(), True)]
            must = all(v >= 0 for v in fvals) and not Rr.location_table.dup_methods
            mustnot = any(v < 0 for v in fvals)
            if must and len(gotr) != 1:
                msgs.append(f"receiver inside the area / in range got {len(gotr)} indications")
            if mustnot and gotr:
                msgs.append("receiver outside the destination area was delivered to")
            for g in gotr:
                if g.data != rq.data:
                    msgs.append(f"payload {g.data.hex()} != sent {rq.data.hex()}")
                sp, eg = g.source_position_vector, Rt.ego_position_vector
                if (sp.latitude, sp.longitude, sp.s, sp.h, sp.pai, sp.tst.msec, sp.gn_addr.mid.mid) != (eg.latitude, eg.longitude, eg.s, eg.h, eg.pai, eg.tst.msec, eg.gn_addr.mid.mid):
                    msgs.append(f"source position vector {sp} differs from the sender's ego PV {eg}")
                if g.upper_protocol_entity != rq.upper_protocol_entity or g.packet_transport_type.header_type != sends_expected_type:
                    msgs.append("transport type / next header differ")
            # the sender hearing itself
            Rs, lls, gots, patches_s = build_real(hs, vals)
            with patches_s:
                try:
                    Rs.gn_data_indicate(p)
                except Exception:
                    pass
            if gots:
                msgs.append("the sender delivered its own packet to its upper layer")
        return bool(msgs), f"{tag}: " + "; ".join(msgs)
    ctx.witness(f"{tag}-reach-delivery", B, z3.And(pre, anysend, delivered, z3.Not(hr.exc())), vars=vars_)
    ctx.prove(f"{tag}-receiver-does-not-fail", B, z3.And(pre, hr.exc()), vars=vars_, replay=replay)
    ctx.prove(f"{tag}-delivered-when-inside", B, z3.And(pre, anysend, inside, z3.Not(delivered)), vars=vars_, replay=replay,
              desc="every emitted packet reaches the upper layer of a receiver in range / inside the destination area")
    ctx.prove(f"{tag}-not-delivered-outside", B, z3.And(pre, outside, delivered), vars=vars_, replay=replay,
              desc="a receiver outside the destination area never delivers the packet")
    ctx.prove(f"{tag}-exactly-once", B, z3.And(pre, z3.Or(*multi)) if multi else FALSE, vars=vars_, replay=replay)
    ctx.prove(f"{tag}-payload-pv-and-transport-intact", B, z3.And(pre, z3.Or(*content_bad)) if content_bad else FALSE, vars=vars_, replay=replay,
              desc="indication carries the byte-identical payload, the sender's ego position vector field by field (signed coordinates), "
                   "traffic class, next header and transport type")
    ctx.prove(f"{tag}-sender-ignores-own-packet", B, z3.And(pre, hs.any_indication()), vars=vars_, replay=replay,
              desc="the same frame heard by the sender itself is not delivered (duplicate address detection)")
    ctx.functions |= set(hr.I.calls) | set(hs.I.calls)


@vc("C01", "V2-end-to-end-shb")
def e2e_shb(ctx):
    for L in ((0, 4) if ctx.tier == "quick" else (0, 1, 4, 8, 64)):
        h, req, conf, ex, lt_ms = E.case_shb(L, None, width=WID)
        _e2e(ctx, f"SHB[L={L}]", h, req, HeaderType.TSB, L)
    ctx.bound("two symbolic stations (ego PVs over the full signed WGS-84 range), payload of L symbolic octets, symbolic traffic class / next header")
    ctx.stub("location tables = symbolic tables (no duplicate reported); link layer = the sender's send log fed to the receiver's gn_data_indicate")


@vc("C01", "V2-end-to-end-gbc-gac")
def e2e_gbc(ctx):
    cases = [(HeaderType.GEOBROADCAST, GeoBroadcastHST.GEOBROADCAST_CIRCLE), (HeaderType.GEOANYCAST, GeoAnycastHST.GEOANYCAST_ELIP)]
    if ctx.tier == "thorough":
        cases = [(HeaderType.GEOBROADCAST, x) for x in GeoBroadcastHST] + [(HeaderType.GEOANYCAST, x) for x in GeoAnycastHST]
    for ht, hst in cases:
        for L in ((4,) if ctx.tier == "quick" else (0, 4, 64)):
            h, req, conf, ex, lt_ms, info = E.case_gbc(ht, hst, L, None, width=WID)
            _e2e(ctx, f"{hst.name}[L={L}]", h, req, ht, L)
    ctx.bound("GBC/GAC: area centre/axes/angle, hop limit, sequence number symbolic; receiver inside <=> its geometric function value >= 0 (free real, decided in C07)")


@vc("C01", "V2-end-to-end-guc")
def e2e_guc(ctx):
    for L in ((4,) if ctx.tier == "quick" else (0, 4, 64)):
        h, req, conf, ex, lt_ms, info = E.case_guc(L, None, width=WID)
        # the unicast destination is the receiving station
        for i in range(6):
            h.I.assumptions.append(req.fields["destination"].fields["mid"].fields["mid"].bs[i] == RX_MID[i])
        _e2e(ctx, f"GUC[L={L}]", h, req, HeaderType.GEOUNICAST, L)
    ctx.bound("GUC to a destination known to the sender's location table (arbitrary entry), destination = the receiving station")
