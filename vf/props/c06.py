"""C06 - multi-hop packets: at-most-once delivery and forwarding, shrinking hop budget."""
import z3
from ..calls import make
from ..values import Obj, EnumSym, SBytes, Guarded, SDict, SList, TimerRec, UNDEF
from ..interp import TRUE, FALSE
from ..runner import vc
from .. import symgn as G
from .. import wire as W
from ..gnharness import Harness, all_vars, build_real, eval_term, real_router, LOCAL_MID

from flexstack.geonet.router import Router
from flexstack.geonet.mib import MIB, AreaForwardingAlgorithm
from flexstack.geonet.location_table import LocationTable, LocationTableEntry
from flexstack.geonet.exceptions import DuplicatedPacketException
from flexstack.geonet.gn_address import GNAddress, M, ST, MID
from flexstack.geonet.position_vector import LongPositionVector, TST
from flexstack.geonet.gbc_extended_header import GBCExtendedHeader
from flexstack.geonet.basic_header import BasicHeader
from flexstack.geonet.common_header import CommonHeader
from flexstack.geonet.service_access_point import HeaderType, GeoBroadcastHST, TrafficClass, CommonNH

P32, HALF = 2 ** 32, 2 ** 31


# ------------------------------------------------------------------------------------------------ D1 duplicate list
@vc("C06", "D1-duplicate-packet-list")
def dpl(ctx):
    """one step of check_duplicate_sn from an arbitrary valid ring (length <= itsGnDPLLength), SN over 16 bits"""
    for maxlen in ((1, 3) if ctx.tier == "quick" else (1, 2, 3, 4, 8)):
        I = make("int")
        mib = MIB(itsGnDPLLength=maxlen)
        sns = [I.int_var(f"r{i}", 0, 65535) for i in range(maxlen)]
        n = I.int_var("n", 0, maxlen)
        pres = [n > i for i in range(maxlen)]
        for i in range(maxlen):
            for j in range(i):
                I.assumptions.append(z3.Implies(pres[i], sns[i] != sns[j]))      # invariant: distinct
        e = Obj(LocationTableEntry, dict(mib=mib, dpl_lock=None,
                                         dpl_set=SDict([(p, s, True, False) for p, s in zip(pres, sns)], is_set=True),
                                         dpl_deque=SList(list(zip(pres, sns)), maxlen=maxlen)))
        sn = I.int_var("sn", 0, 65535)
        q = I.int_var("q", 0, 65535)          # arbitrary probe value
        was = z3.Or(*[z3.And(p, s == q) for p, s in zip(pres, sns)])
        sn_was = z3.Or(*[z3.And(p, s == sn) for p, s in zip(pres, sns)])
        I.call_function(LocationTableEntry.check_duplicate_sn, [e, sn])
        dup = z3.Or(*[c for c, k in I.raises if k is DuplicatedPacketException]) if I.raises else FALSE
        other = z3.Or(*[c for c, k in I.raises if k is not DuplicatedPacketException]) if [1 for c, k in I.raises if k is not DuplicatedPacketException] else FALSE
        dq, st = e.fields["dpl_deque"], e.fields["dpl_set"]
        in_dq = I._lb(I.contains(dq, q))
        in_st = I._lb(I.contains(st, q))
        full = n == maxlen
        want = z3.If(sn_was, was, z3.Or(q == sn, z3.And(was, z3.Not(z3.And(full, q == sns[0])))))
        ln = I.len_(dq, TRUE)
        ln = ln if isinstance(ln, z3.ExprRef) else z3.IntVal(ln)
        vars_ = {f"r{i}": s for i, s in enumerate(sns)}
        vars_.update(n=n, sn=sn, q=q)

        def replay(vals, maxlen=maxlen, mib=mib):
            ent = LocationTableEntry(mib)
            ring = [vals[f"r{i}"] for i in range(vals["n"])]
            for s_ in ring:
                ent.dpl_deque.append(s_)
                ent.dpl_set.add(s_)
            try:
                ent.check_duplicate_sn(vals["sn"])
                d = False
            except DuplicatedPacketException:
                d = True
            exp_ring = ring if vals["sn"] in ring else (ring[1:] if len(ring) == maxlen else ring) + [vals["sn"]]
            bad = d != (vals["sn"] in ring) or list(ent.dpl_deque) != exp_ring or ent.dpl_set != set(exp_ring)
            return bad, f"ring {ring} (max {maxlen}) + SN {vals['sn']}: duplicate={d}, ring after={list(ent.dpl_deque)}, set after={sorted(ent.dpl_set)}; expected {exp_ring}"
        ctx.witness(f"len{maxlen}-reach-evict", I, z3.And(full, z3.Not(dup)), vars=vars_, validate=lambda v, rp=replay: not rp(v)[0])
        ctx.prove(f"len{maxlen}-duplicate-iff-member", I, dup != sn_was, vars=vars_, replay=replay,
                  desc="DuplicatedPacketException is raised exactly for sequence numbers inside the window")
        ctx.prove(f"len{maxlen}-no-other-exception", I, other, vars=vars_, replay=replay)
        ctx.prove(f"len{maxlen}-window-content", I, in_dq != want, vars=vars_, replay=replay,
                  desc="duplicate: unchanged; fresh: appended, oldest evicted only when the ring is full")
        ctx.prove(f"len{maxlen}-set-mirrors-ring", I, in_dq != in_st, vars=vars_, replay=replay)
        ctx.prove(f"len{maxlen}-length-bounded", I, z3.Or(ln > maxlen, ln < 0, z3.And(z3.Not(sn_was), ln != z3.If(full, n, n + 1))), vars=vars_, replay=replay)
    ctx.bound("ring lengths itsGnDPLLength in {1,3} (quick) / {1,2,3,4,8} (thorough), contents/fill level/SN symbolic over 16 bits incl. wrap")


# ------------------------------------------------------------------------------------------------ D2 forwarders
# kind -> (HT/HST octet, extended header octets, offset of SO address inside the packet, has DE PV)
KINDS = {
    "tsb": (0x51, 28, 12 + 4, False),
    "gbc-circle": (0x40, 44, 12 + 4, False),
    "gbc-rect": (0x41, 44, 12 + 4, False),
    "gbc-elip": (0x42, 44, 12 + 4, False),
    "gac-circle": (0x30, 44, 12 + 4, False),
    "gac-rect": (0x31, 44, 12 + 4, False),
    "gac-elip": (0x32, 44, 12 + 4, False),
    "guc": (0x20, 48, 12 + 4, True),
    "ls-request": (0x60, 36, 12 + 4, False),
    "ls-reply": (0x61, 48, 12 + 4, True),
}
DE_OFF = 12 + 4 + 24      # DE PV (20 octets) inside GUC / LS reply packets


def _fwd_harness(kind, P, algo):
    code, ext, so_off, has_de = KINDS[kind]
    h = Harness(8 * 24 + 128 + 64, geom="free", greedy="free", area_size="free", ego="sym", itsGnAreaForwardingAlgorithm=algo)
    I = h.I
    L = 12 + ext + P
    pkt = G.sym_bytes("f", L)
    I.assumptions.append(pkt.bs[0] == 0x11)
    I.assumptions.append(pkt.bs[5] == code)
    # the location-table entries the handler may look up: the source, and (unicast kinds) the destination
    def addr_at(off):
        import ast as _a
        b0 = I.byte_to_int(pkt.bs[off])
        m = I.binop(_a.BitAnd(), I.binop(_a.RShift(), b0, 7, TRUE), 1, TRUE)
        st = I.binop(_a.BitAnd(), I.binop(_a.RShift(), b0, 2, TRUE), 31, TRUE)
        return Obj(GNAddress, dict(m=EnumSym(M, m), st=EnumSym(ST, st), mid=Obj(MID, dict(mid=SBytes(pkt.bs[off + 2: off + 8])))))
    so_e = h.add_entry("so", addr=addr_at(so_off), present=TRUE)   # after new_*_packet the source always has an entry
    de_e = None
    if has_de:
        de_e = h.add_entry("de", addr=addr_at(DE_OFF))
    # well-formed packet: reserved fields are zero (common header reserved nibble/octet, flags bits 6..0,
    # reserved bits of every GN address); forwarders normalise them, which is outside the claim
    I.assumptions.append(z3.And((pkt.bs[4] & 0x0F) == 0, pkt.bs[11] == 0, (pkt.bs[7] & 0x7F) == 0))
    for off in [so_off] + ([DE_OFF] if has_de else []) + ([12 + 28] if kind == "ls-request" else []):
        I.assumptions.append(z3.And((pkt.bs[off] & 0x03) == 0, pkt.bs[off + 1] == 0))
    nb_e = h.add_entry("nb")
    if has_de:
        # the destination is a third station: not the source itself and not the extra neighbour
        for other in (so_e, nb_e):
            I.assumptions.append(z3.Not(I._lb(I.equal(other.fields["position_vector"].fields["gn_addr"],
                                                      de_e.fields["position_vector"].fields["gn_addr"]))))
    h.call(Router.gn_data_indicate, pkt)
    return h, pkt, so_e, de_e


def _timers(h):
    return [(c, t) for c, k, t in h.I.events if k == "timer.new"]


def _fwd_vc(ctx, kind, P, algo):
    code, ext, so_off, has_de = KINDS[kind]
    h, pkt, so_e, de_e = _fwd_harness(kind, P, algo)
    I = h.I
    tag = f"{kind}[{algo.name},P={P}]"
    own = I._lb(I.equal(SBytes(pkt.bs[so_off + 2: so_off + 8]), LOCAL_MID))
    dupc = z3.Or(*h.dup.values()) if h.dup else FALSE
    rhl = pkt.bs[3]
    sends = [(c, I.sbytes(p)) for c, p in h.sent]
    timers = _timers(h)
    # packets that will go on air when a CBF timer fires = second timer argument
    buffered = []
    for c, t in timers:
        a = t.args.items if isinstance(t.args, SList) else [(TRUE, x) for x in t.args]
        buffered.append((c, I.sbytes(a[1][1])))
    out = sends + buffered
    table_upd = [c for c, n, a in h.table_calls if n.startswith("new_")]
    vars_ = all_vars(h)
    vars_["frame"] = pkt
    for c, t in timers:
        pass
    is_ls_to_us = FALSE
    if kind == "ls-request":
        is_ls_to_us = I._lb(I.equal(SBytes(pkt.bs[12 + 28 + 2: 12 + 36]), LOCAL_MID))      # sought address = ours -> reply, not a forward
    if kind == "ls-reply":
        is_ls_to_us = I._lb(I.equal(SBytes(pkt.bs[DE_OFF + 2: DE_OFF + 8]), LOCAL_MID))
    ctx.bound(f"{kind}: frames of 12+{ext}+{P} octets, every octet symbolic except version/NH and HT/HST; RHL and MHL 0..255; "
              f"area forwarding {algo.name}; symbolic ego PV; arbitrary table entries for source"
              + (", destination" if has_de else "") + " and one more station")
    ctx.stub("location table = symbolic table (new_*_packet may raise DuplicatedPacketException); geometry F, greedy decision and area size free-valued; "
             "threading.Timer records (delay, callback, args)")

    def expected_forward(vals, frame):
        f = bytearray(frame)
        f[3] = (f[3] - 1) % 256
        return bytes(f)

    def replay(vals):
        R, ll, got, patches = build_real(h, vals)
        frame = vals["frame"]
        timers_real = []
        import threading
        from unittest import mock

        class FakeTimer:
            def __init__(self, interval, function, args=None, kwargs=None):
                self.interval, self.function, self.args = interval, function, list(args or [])
                self.started = self.cancelled = False
                self.daemon = True
                timers_real.append(self)

            def start(self):
                self.started = True

            def cancel(self):
                self.cancelled = True
        dup_names = {n for n, d in h.dup_vars if vals.get(d.decl().name())}
        err = None
        with patches, mock.patch("flexstack.geonet.router.Timer", FakeTimer):
            try:
                R.gn_data_indicate(frame)
            except Exception as e:
                err = e
        outs = list(ll.sent) + [t.args[1] for t in timers_real if t.started]
        msgs = []
        own_v = frame[so_off + 2: so_off + 8] == LOCAL_MID
        table_updates = [c for c in getattr(R.location_table, "calls", []) if c.startswith("new_")]
        if own_v and (got or outs or table_updates):
            msgs.append(f"own source address: indications={len(got)} transmissions={len(outs)} location-table updates={table_updates}")
        if dup_names and (got or outs):
            msgs.append(f"duplicate: indications={len(got)} transmissions={len(outs)}")
        if len(got) > 1 or len(outs) > 1:
            msgs.append(f"{len(got)} indications, {len(outs)} transmissions for one packet")
        to_us = (kind == "ls-request" and frame[12 + 30: 12 + 36] == LOCAL_MID) or (kind == "ls-reply" and frame[DE_OFF + 2: DE_OFF + 8] == LOCAL_MID)
        if not to_us:
            for o in outs:
                if frame[3] in (0, 1):
                    msgs.append(f"received RHL={frame[3]} but a copy was transmitted with RHL={o[3]}")
                exp = expected_forward(vals, frame)
                same = o == exp
                if has_de and not same and len(o) == len(exp):
                    # destination PV may be refreshed (checked separately below)
                    same = o[:DE_OFF] == exp[:DE_OFF] and o[DE_OFF + 20:] == exp[DE_OFF + 20:]
                if not same:
                    msgs.append(f"forwarded copy {o.hex()} differs from the received packet beyond RHL-1 ({exp.hex()})")
                if has_de and len(o) == len(exp) and o[DE_OFF:DE_OFF + 20] != frame[DE_OFF:DE_OFF + 20]:
                    ent = R.location_table.get_entry(GNAddress.decode(frame[DE_OFF:DE_OFF + 8]))
                    wire_t = int.from_bytes(frame[DE_OFF + 8:DE_OFF + 12], "big")
                    ok = ent is not None and ent.is_neighbour and 0 < (ent.position_vector.tst.msec - wire_t) % P32 < HALF
                    if ok:
                        from flexstack.geonet.position_vector import ShortPositionVector
                        pv = ent.position_vector
                        ok = o[DE_OFF:DE_OFF + 20] == W.ref_pack({"gn_addr.m": pv.gn_addr.m, "gn_addr.st": pv.gn_addr.st, "gn_addr.mid.mid": pv.gn_addr.mid.mid,
                                                                  "tst.msec": pv.tst.msec, "latitude": pv.latitude, "longitude": pv.longitude}, W.SPV)
                    if not ok and (ent is None or (ent.position_vector.tst.msec - wire_t) % P32 != HALF):
                        msgs.append(f"destination PV changed from {frame[DE_OFF:DE_OFF + 20].hex()} to {o[DE_OFF:DE_OFF + 20].hex()} without a strictly newer neighbour PV in the table")
        return bool(msgs), f"{tag}: frame {frame.hex()} error={err!r}: " + "; ".join(msgs)
    ctx.witness(f"{tag}-reach-forward", I, z3.And(z3.Or(*[c for c, _ in out]) if out else FALSE, z3.Not(is_ls_to_us)), vars=vars_,
                validate=lambda v: not replay(v)[0])
    anyout = z3.Or(*[c for c, _ in out]) if out else FALSE
    anyind = h.any_indication()
    ctx.prove(f"{tag}-own-address-ignored", I, z3.And(own, z3.Or(anyout, anyind, *table_upd)), vars=vars_, replay=replay,
              desc="a packet bearing the station's own source address is neither delivered, forwarded nor entered into the table")
    ctx.prove(f"{tag}-duplicate-ignored", I, z3.And(dupc, z3.Or(anyout, anyind)), vars=vars_, replay=replay,
              desc="a packet inside the duplicate window is neither delivered nor re-transmitted")
    multi = []
    for i in range(len(out)):
        for j in range(i):
            multi.append(z3.And(out[i][0], out[j][0]))
    for i in range(len(h.indications)):
        for j in range(i):
            multi.append(z3.And(h.indications[i][0], h.indications[j][0]))
    ctx.prove(f"{tag}-at-most-once", I, z3.Or(*multi) if multi else FALSE, vars=vars_, replay=replay,
              desc="at most one indication and at most one (immediate or buffered) re-transmission per received packet")
    ctx.prove(f"{tag}-no-forward-at-rhl-0-1", I, z3.And(z3.Not(is_ls_to_us), z3.ULE(rhl, 1), anyout), vars=vars_, replay=replay,
              desc="nothing is re-transmitted when the received remaining hop limit is 0 or 1")
    diffs = []
    for c, p in out:
        if len(p.bs) != len(pkt.bs):
            diffs.append(z3.And(c, z3.Not(is_ls_to_us)))
            continue
        ds = []
        for i, (a, b) in enumerate(zip(p.bs, pkt.bs)):
            if i == 3:
                ds.append(a != b - 1)
            elif has_de and DE_OFF <= i < DE_OFF + 20:
                continue
            else:
                ds.append(a != b)
        diffs.append(z3.And(c, z3.Not(is_ls_to_us), z3.Or(*ds)))
    ctx.prove(f"{tag}-copy-equals-received-except-rhl-1", I, z3.Or(*diffs) if diffs else FALSE, vars=vars_, replay=replay,
              desc="every forwarded copy equals the received packet except for RHL exactly one lower")
    if has_de:
        # destination PV: either unchanged, or replaced by the table's PV of a neighbour with a strictly newer timestamp
        depv = de_e.fields["position_vector"]
        tbl_bits, _ = W.spec_pack(I, Obj(type("X", (), {}), dict(gn_addr=depv.fields["gn_addr"], tst=depv.fields["tst"],
                                                                latitude=depv.fields["latitude"], longitude=depv.fields["longitude"])), W.SPV)
        wire_tst = z3.Concat(*pkt.bs[DE_OFF + 8: DE_OFF + 12])
        t_new = z3.Extract(31, 0, depv.fields["tst"].fields["msec"])
        d = t_new - wire_tst
        newer = z3.And(d != 0, z3.ULT(d, z3.BitVecVal(HALF, 32)))
        present = [p for a, p, e in h.entries if e is de_e][0]
        bad = []
        for c, p in out:
            if len(p.bs) != len(pkt.bs):
                continue
            got = z3.Concat(*p.bs[DE_OFF: DE_OFF + 20])
            orig = z3.Concat(*pkt.bs[DE_OFF: DE_OFF + 20])
            legit_refresh = z3.And(present, I.to_bool(de_e.fields["is_neighbour"]), newer, got == tbl_bits)
            bad.append(z3.And(c, z3.Not(is_ls_to_us), d != z3.BitVecVal(HALF, 32), got != orig, z3.Not(legit_refresh)))
        ctx.prove(f"{tag}-de-pv-refreshed-only-by-newer", I, z3.Or(*bad) if bad else FALSE, vars=vars_, replay=replay,
                  desc="the destination PV of a forwarded unicast packet changes only to the table's PV of a neighbour with a strictly newer timestamp")


def _mk_fwd(kind):
    @vc("C06", f"D2-forward-{kind}", tiers=("quick", "thorough") if kind in ("tsb", "gbc-circle", "gac-rect", "guc", "ls-request", "ls-reply") else ("thorough",))
    def f(ctx):
        algos = [AreaForwardingAlgorithm.SIMPLE, AreaForwardingAlgorithm.CBF] if kind.startswith("gbc") else [AreaForwardingAlgorithm.CBF]
        for algo in algos:
            for P in ((2,) if ctx.tier == "quick" else (0, 2, 9)):
                _fwd_vc(ctx, kind, P, algo)
    return f


for _k in KINDS:
    _mk_fwd(_k)


# ------------------------------------------------------------------------------------------------ D3 / D4 contention-based forwarding
def _cbf_harness():
    h = Harness(8 * 24 + 128 + 64, geom="free", greedy="free", area_size="free", ego="sym")
    I = h.I
    h.dists = []
    I.stubs[Router._distance_m] = lambda it, a, k, pc: _nonneg(it, h)
    key_addr = G.sym_gn_addr(I, "k")
    key_sn = I.int_var("k_sn", 0, 65535)
    p0 = z3.Bool("buffered")
    t0 = TimerRec(0.05, None, [], TRUE)
    t0.started = TRUE
    h.Ro.fields["_cbf_buffer"] = SDict([(p0, (key_addr, key_sn), t0, False)])
    h.add_entry("se")
    return h, key_addr, key_sn, p0, t0


def _nonneg(it, h):
    d = z3.Real(it.fresh("dist"))
    it.assumptions.append(d >= 0)
    h.dists.append(d)
    return d


@vc("C06", "D3-cbf-buffer")
def cbf(ctx):
    """gn_area_cbf_forwarding / _cbf_timeout from an arbitrary buffer state"""
    h, key_addr, key_sn, p0, t0 = _cbf_harness()
    I = h.I
    bh = G.sym_basic(I, "bh")
    ch = G.sym_common(I, "ch", HeaderType.GEOBROADCAST)
    gh = G.sym_gbc(I, "gh")
    payload = G.sym_bytes("pl", 3)
    ret = h.call(Router.gn_area_cbf_forwarding, bh, ch, gh, payload)
    same_key = z3.And(p0, I._lb(I.equal(gh.fields["so_pv"].fields["gn_addr"], key_addr)), I.num(gh.fields["sn"]) == key_sn)
    timers = _timers(h)
    new_started = [z3.And(c, t.started) for c, t in timers]
    buf = h.Ro.fields["_cbf_buffer"]
    found_after, val_after = I.sdict_lookup(buf, (gh.fields["so_pv"].fields["gn_addr"], gh.fields["sn"]))
    found_after = I._lb(found_after)
    mib = h.R.mib
    lo, hi = mib.itsGnCbfMinTime / 1000.0, mib.itsGnCbfMaxTime / 1000.0
    vars_ = all_vars(h, bh, ch, gh, key_addr)
    vars_.update({"k_sn": key_sn, "buffered": p0, "pl": payload})
    vars_.update({d.decl().name(): d for d in h.dists})
    ok = z3.Not(h.exc())
    ctx.bound("one symbolic GBC packet (all header fields, 3 payload octets) against a CBF buffer holding one arbitrary (address, SN) key or nothing; "
              "distance to the sender an arbitrary non-negative real")
    ctx.stub("Router._distance_m returns an arbitrary non-negative real; threading.Timer records delay/callback/args and start/cancel")

    def replay(vals):
        import threading
        from unittest import mock
        R, ll, got, patches = build_real(h, vals)
        made = []

        class FT:
            def __init__(self, interval, function, args=None, kwargs=None):
                self.interval, self.function, self.args = interval, function, list(args or [])
                self.started = self.cancelled = False
                made.append(self)

            def start(self):
                self.started = True

            def cancel(self):
                self.cancelled = True
        old = FT(0.05, None, [])
        old.started = True
        made.clear()
        kaddr = G.concretize(key_addr, vals)
        if vals["buffered"]:
            R._cbf_buffer[(kaddr, vals["k_sn"])] = old
        g = G.concretize(gh, vals)
        dists = [v for k_, v in vals.items() if k_.startswith("dist!")]
        with patches, mock.patch("flexstack.geonet.router.Timer", FT), \
                mock.patch.object(Router, "_distance_m", staticmethod(lambda *a: float(dists[0]) if dists else 0.0)):
            r = R.gn_area_cbf_forwarding(G.concretize(bh, vals), G.concretize(ch, vals), g, vals["pl"])
        key = (g.so_pv.gn_addr, g.sn)
        was = vals["buffered"] and kaddr == g.so_pv.gn_addr and vals["k_sn"] == g.sn
        msgs = []
        if was:
            if r is not False or not old.cancelled or key in R._cbf_buffer or made:
                msgs.append(f"duplicate of a buffered packet: returned {r}, old timer cancelled={old.cancelled}, still buffered={key in R._cbf_buffer}, new timers={len(made)}")
        else:
            if r is not True or len(made) != 1 or not made[0].started or R._cbf_buffer.get(key) is not made[0]:
                msgs.append(f"new packet: returned {r}, timers created={len(made)}, started={[t.started for t in made]}")
            elif not (lo - 1e-12 <= made[0].interval <= hi + 1e-12):     # 1e-9 ms tolerance as in the query
                msgs.append(f"contention timer {made[0].interval} s outside [{lo},{hi}]")
        if ll.sent:
            msgs.append("packet transmitted immediately")
        return bool(msgs), "; ".join(msgs)
    ctx.witness("reach-buffered", I, z3.And(ok, z3.Not(same_key), *[z3.Or(*new_started)] if new_started else [FALSE]), vars=vars_, validate=lambda v: not replay(v)[0])
    ctx.witness("reach-duplicate", I, z3.And(ok, same_key), vars=vars_, validate=lambda v: not replay(v)[0])
    ctx.prove("no-exception", I, h.exc(), vars=vars_, replay=replay)
    ctx.prove("duplicate-cancels-buffered-copy", I, z3.And(ok, same_key, z3.Or(z3.Not(t0.cancelled), found_after, I.to_bool(ret), *[c for c, _ in timers])),
              vars=vars_, replay=replay, desc="key already buffered => old timer cancelled, entry removed, nothing new armed, returns False")
    one_new = z3.Or(*new_started) if new_started else FALSE
    # compared in milliseconds: (x / 1000.0) * 1000 is exact over the reals, so no float-literal artefact enters
    eps = z3.RealVal("1/1000000000")      # 1e-9 ms: absorbs the inexact float literal (TO_MIN-TO_MAX)/DIST_MAX, nothing else
    delays_bad = [z3.And(c, z3.Or(I.to_float(t.delay) * 1000 < mib.itsGnCbfMinTime - eps, I.to_float(t.delay) * 1000 > mib.itsGnCbfMaxTime + eps)) for c, t in timers]
    two = [z3.And(timers[i][0], timers[j][0]) for i in range(len(timers)) for j in range(i)]
    ctx.prove("fresh-packet-arms-exactly-one-timer", I, z3.And(ok, z3.Not(same_key), z3.Or(z3.Not(one_new), z3.Not(found_after), z3.Not(I.to_bool(ret)), t0.cancelled, *two)),
              vars=vars_, replay=replay, desc="key absent => exactly one started timer stored under the key, other entries untouched, returns True")
    ctx.prove("contention-time-in-[TO_MIN,TO_MAX]", I, z3.Or(*delays_bad) if delays_bad else FALSE, vars=vars_, replay=replay,
              desc="timer delay within [itsGnCbfMinTime, itsGnCbfMaxTime] (eq. F.1)")
    ctx.prove("nothing-sent-while-buffering", I, h.any_send(), vars=vars_, replay=replay)
    # the buffered bytes are the packet with the header objects handed in
    exp_b, okb = W.spec_pack(I, bh, W.BASIC)
    exp_c, okc = W.spec_pack(I, ch, W.COMMON)
    exp_g, okg = W.spec_pack(I, gh, W.GBC)
    exp = z3.Concat(exp_b, exp_c, exp_g, W.bits_of_bytes(payload))
    badbytes = []
    for c, t in timers:
        a = t.args.items if isinstance(t.args, SList) else [(TRUE, x) for x in t.args]
        pk = I.sbytes(a[1][1])
        badbytes.append(z3.And(c, W.bits_of_bytes(pk) != exp) if len(pk.bs) * 8 == exp.size() else c)
    ctx.prove("buffered-bytes-are-the-packet", I, z3.And(ok, z3.Or(*badbytes)) if badbytes else FALSE, vars=vars_, replay=replay)

    # ---- expiry
    h2, key_addr2, key_sn2, p02, t02 = _cbf_harness()
    I2 = h2.I
    pk = G.sym_bytes("bp", 6)
    ka, ks = G.sym_gn_addr(I2, "q"), I2.int_var("q_sn", 0, 65535)
    h2.call(Router._cbf_timeout, (ka, ks), pk)
    same2 = z3.And(p02, I2._lb(I2.equal(ka, key_addr2)), ks == key_sn2)
    f2, _ = I2.sdict_lookup(h2.Ro.fields["_cbf_buffer"], (ka, ks))
    sent_ok = z3.Or(*[z3.And(c, I2._lb(I2.equal(I2.sbytes(p), pk))) for c, p in h2.sent]) if h2.sent else FALSE
    vars2 = all_vars(h2, ka, key_addr2)
    vars2.update({"q_sn": ks, "k_sn": key_sn2, "buffered": p02, "bp": pk})

    def replay2(vals):
        R, ll, got, patches = build_real(h2, vals)
        kaddr = G.concretize(key_addr2, vals)
        if vals["buffered"]:
            R._cbf_buffer[(kaddr, vals["k_sn"])] = object()
        q = (G.concretize(ka, vals), vals["q_sn"])
        was = vals["buffered"] and q[0] == kaddr and q[1] == vals["k_sn"]
        R._cbf_timeout(q, vals["bp"])
        bad = (was and (ll.sent != [vals["bp"]] or q in R._cbf_buffer)) or ((not was) and ll.sent)
        return bool(bad), f"expiry for key buffered={was}: sent={[p.hex() for p in ll.sent]}"
    ctx.witness("expiry-reach", I2, z3.And(same2, h2.any_send()), vars=vars2, validate=lambda v: not replay2(v)[0])
    ctx.prove("expiry-sends-iff-still-buffered", I2, z3.Or(z3.And(same2, z3.Or(z3.Not(sent_ok), I2._lb(f2))), z3.And(z3.Not(same2), h2.any_send())),
              vars=vars2, replay=replay2, desc="timer expiry transmits the buffered copy exactly when its key is still in the buffer, and removes it")
    multi2 = [z3.And(h2.sent[i][0], h2.sent[j][0]) for i in range(len(h2.sent)) for j in range(i)]
    ctx.prove("expiry-sends-at-most-once", I2, z3.Or(*multi2) if multi2 else FALSE, vars=vars2, replay=replay2)


@vc("C06", "D4-duplicate-cancels-cbf-copy")
def cbf_dup(ctx):
    """a duplicate GBC overheard while its copy waits in the CBF buffer makes the station drop that copy"""
    h = Harness(8 * 24 + 128 + 64, geom="free", greedy="free", area_size="free", ego="sym", itsGnAreaForwardingAlgorithm=AreaForwardingAlgorithm.CBF)
    I = h.I
    P = 2
    pkt = G.sym_bytes("f", 12 + 44 + P)
    I.assumptions.append(pkt.bs[0] == 0x11)
    I.assumptions.append(z3.And(pkt.bs[5] >= 0x40, pkt.bs[5] <= 0x42))
    so_off = 16
    b0 = pkt.bs[so_off]
    import ast as _a
    bi = I.byte_to_int(b0)
    so_addr = Obj(GNAddress, dict(m=EnumSym(M, I.binop(_a.BitAnd(), I.binop(_a.RShift(), bi, 7, TRUE), 1, TRUE)),
                                  st=EnumSym(ST, I.binop(_a.BitAnd(), I.binop(_a.RShift(), bi, 2, TRUE), 31, TRUE)),
                                  mid=Obj(MID, dict(mid=SBytes(pkt.bs[so_off + 2: so_off + 8])))))
    sn = I.from_bytes([SBytes(pkt.bs[12:14]), "big"], {}, TRUE)
    t0 = TimerRec(0.05, None, [], TRUE)
    t0.started = TRUE
    p0 = z3.Bool("copy_buffered")
    h.Ro.fields["_cbf_buffer"] = SDict([(p0, (so_addr, sn), t0, False)])
    h.add_entry("so", addr=so_addr, present=TRUE)
    h.add_entry("nb")
    own = I._lb(I.equal(SBytes(pkt.bs[so_off + 2: so_off + 8]), LOCAL_MID))
    I.assumptions.append(z3.Not(own))
    h.call(Router.gn_data_indicate, pkt)
    dupc = h.dup.get("new_gbc_packet", FALSE)
    still, _ = I.sdict_lookup(h.Ro.fields["_cbf_buffer"], (so_addr, sn))
    still = I._lb(still)
    reached = z3.Or(*[c for c, n, a in h.table_calls if n == "new_gbc_packet"]) if h.table_calls else FALSE
    vars_ = all_vars(h)
    vars_.update({"frame": pkt, "copy_buffered": p0})

    def replay(vals):
        from unittest import mock
        R, ll, got, patches = build_real(h, vals)
        frame = vals["frame"]

        class FT:
            def __init__(self, *a, **k):
                self.cancelled = False
                self.started = False

            def start(self):
                self.started = True

            def cancel(self):
                self.cancelled = True
        old = FT()
        g = GBCExtendedHeader.decode(frame[12:56])
        key = (g.so_pv.gn_addr, g.sn)
        if vals["copy_buffered"]:
            R._cbf_buffer[key] = old
        with patches, mock.patch("flexstack.geonet.router.Timer", FT):
            try:
                R.gn_data_indicate(frame)
            except Exception as e:
                return False, f"raised {e!r}"
        dup = "new_gbc_packet" in R.location_table.dup_methods
        bad = vals["copy_buffered"] and dup and (not old.cancelled or key in R._cbf_buffer)
        return bool(bad), f"duplicate GBC (SN {g.sn}) overheard while the copy is buffered: timer cancelled={old.cancelled}, still in CBF buffer={key in R._cbf_buffer}"
    ctx.witness("reach-duplicate-while-buffered", I, z3.And(p0, dupc, reached), vars=vars_)
    ctx.prove("buffered-copy-dropped-on-duplicate", I, z3.And(p0, dupc, reached, z3.Or(still, z3.Not(t0.cancelled))), vars=vars_, replay=replay,
              desc="GBC duplicate while the copy waits for its contention timer => timer cancelled and buffer entry removed")
    ctx.bound("one symbolic GBC frame (58 octets, three area shapes) whose (source, SN) key is in the CBF buffer; duplicate detection answered by the table contract")


# ---------------------------------------------------------------------------------------------- D1c the same multi-hop packet twice
def _twice_vc(ctx, kind):
    """a multi-hop packet processed twice by the location table (source known or not): the second time it is reported as a duplicate"""
    from .c08 import KINDS, sym_entry, conc_entry, time_stub, clock_ms, P32
    from flexstack.utils.time_service import TimeService
    meth_name, mk = KINDS[kind]
    I = make("int")
    mib = MIB()
    now = time_stub(I)
    tbl = LocationTable(mib)
    T = I.lift(tbl)
    known = z3.Bool("S_known")
    e = sym_entry(I, "e", mib)
    hdr = mk(I, "hd")
    pv = hdr.fields["so_pv"]
    args = [hdr, G.sym_bytes("pl", 3)]
    e.fields["position_vector"].fields["gn_addr"] = pv.fields["gn_addr"]
    T.fields["loc_t"] = SDict([(known, pv.fields["gn_addr"], e, False)])
    e_init = Obj(e.cls, dict(e.fields))
    cur = clock_ms(z3.ToInt(now))
    life = mib.itsGnLifetimeLocTE * 1000
    fresh = z3.And((cur - pv.fields["tst"].fields["msec"]) % P32 <= life, z3.Or(z3.Not(known), (cur - e.fields["position_vector"].fields["tst"].fields["msec"]) % P32 <= life))
    n0 = len(I.raises)
    I.call_function(getattr(LocationTable, meth_name), [T] + args)
    first_raise = [c for c, k in I.raises[n0:]]
    first_ok = z3.Not(z3.Or(*first_raise)) if first_raise else TRUE
    n1 = len(I.raises)
    I.call_function(getattr(LocationTable, meth_name), [T] + args, {}, first_ok)
    dup2 = z3.Or(*[c for c, k in I.raises[n1:] if k is DuplicatedPacketException]) if [1 for c, k in I.raises[n1:] if k is DuplicatedPacketException] else FALSE
    vars_ = G.vars_of(I, e_init, *args)
    vars_.update({"S_known": known, "now": now})

    def replay(vals):
        from unittest import mock
        t = LocationTable(mib)
        if vals["S_known"]:
            r = conc_entry(e_init, vals, mib)
            t.loc_t[r.position_vector.gn_addr] = r
        cargs = [G.concretize(a, vals) for a in args]
        outcome = []
        with mock.patch.object(TimeService, "time", staticmethod(lambda: vals["now"])):
            for _ in range(2):
                try:
                    getattr(t, meth_name)(*cargs)
                    outcome.append("accepted")
                except DuplicatedPacketException:
                    outcome.append("duplicate")
                except Exception as ex:          # noqa
                    outcome.append(repr(ex))
        return outcome == ["accepted", "accepted"], f"{kind} packet with SN {cargs[0].sn} from a source that was {'known' if vals['S_known'] else 'unknown'}, processed twice: {outcome}"
    ctx.witness(f"{kind}-twice-reach", I, z3.And(fresh, first_ok, dup2), vars=vars_, validate=lambda v: not replay(v)[0])
    ctx.prove(f"{kind}-second-copy-is-a-duplicate", I, z3.And(fresh, first_ok, z3.Not(dup2)), vars=vars_, replay=replay,
              desc="the copy of a packet that was accepted is rejected as a duplicate, also when the first copy created the location-table entry of its source")
    ctx.bound(f"{kind}: arbitrary header / position vector, source known (arbitrary entry, empty duplicate list) or unknown; timestamps within the entry lifetime")


@vc("C06", "D1-same-packet-twice")
def same_packet_twice(ctx):
    for kind in ("gbc", "tsb", "guc"):
        _twice_vc(ctx, kind)
