"""C09 - trust store closure and signer authorisation (logic level, ideal coder / ideal signatures of vf/secm.py)."""
import ast
import z3
from ..calls import make
from ..values import Obj, Opaque, SBytes, SDict, SList, Guarded, Undefined
from ..interp import TRUE, FALSE
from ..runner import vc
from ..facil import cond_or, num_eq, val_eq, path_get, logger
from ..secm import Crypto, SymCert, ISSUER_KINDS, SIG_KINDS, KEY_KINDS

import flexstack.security.certificate as CM
from flexstack.security.certificate import Certificate, OwnCertificate, SECURITY_CODER
from flexstack.security.certificate_library import CertificateLibrary


class Model:
    def __init__(self):
        self.I = I = make("int")
        self.K = K = Crypto(I)
        K.install_coder(SECURITY_CODER)
        self._hids = {}
        I.stubs[Certificate.as_hashedid8] = self._hid
        I.stubs[OwnCertificate.as_hashedid8] = self._hid

    def _hid(self, it, a, k, pc):
        c = a[0]
        d = c.fields["certificate"] if isinstance(c, Obj) else c
        return self.hid_of(d)

    def hid_of(self, cert_dict):
        key = id(cert_dict)
        if key not in self._hids:
            t = self.K.inj("Hash", self.K.inj("EncCert", cert_dict))
            self.I.assumptions.append(z3.And(t >= 0, t < 2 ** 40))
            self._hids[key] = (self.K.term_bytes(t, 8, "hid"), cert_dict)
        return self._hids[key][0]

    def cert_obj(self, sc, issuer=None, cls=Certificate, **extra):
        f = dict(certificate=sc.d, issuer=issuer)
        f.update(extra)
        return Obj(cls, f)


def bytes_eq(a, b):
    return a.term == b.term


def verify_oracle(M, sub, issuer_sc, has_issuer):
    """TS 103 097 / IEEE 1609.2 acceptance of certificate `sub` whose attached issuer (if any) is `issuer_sc`:
    returns (condition, expected V application or None)"""
    K = M.K
    v = sub.v
    type_ok = z3.And(z3.Implies(v["type_is_explicit"], v["vki_is_verification_key"]), z3.Implies(z3.Not(v["type_is_explicit"]), z3.Not(v["vki_is_verification_key"])))
    nist = z3.And(v["signature_kind"] == 0, v["vki_is_verification_key"], v["key_kind"] == 0)
    data = K.inj("EncTbsCert", sub.tbs)
    sigt = K.inj("SigVal", M.I.container_get(sub.d, "signature", TRUE))
    issued = v["issuer_kind"] == 1
    if issuer_sc is not None:
        ikey = M.I.container_get(M.I.container_get(issuer_sc.tbs, "verifyKeyIndicator", TRUE), 1, TRUE)
        v_issuer = K.V(data, sigt, K.inj("KeyVal", ikey))
        by_issuer = z3.And(has_issuer, issued, bytes_eq(sub.issuer_digest, M.hid_of(issuer_sc.d)), sub.contained_in(issuer_sc), nist, v_issuer)
    else:
        by_issuer = FALSE
    own_key = M.I.container_get(M.I.container_get(sub.tbs, "verifyKeyIndicator", TRUE), 1, TRUE)
    v_self = K.V(data, sigt, K.inj("KeyVal", own_key))
    self_signed = z3.And(z3.Not(z3.And(has_issuer, issued)), v["issuer_kind"] == 0, nist, v_self)
    return z3.And(type_ok, z3.Or(by_issuer, self_signed))


# ---------------------------------------------------------------------------------------------- K2 Certificate.verify
@vc("C09", "K2-certificate-verify")
def certificate_verify(ctx):
    """Certificate.verify on an arbitrary certificate with an arbitrary attached issuer certificate"""
    M = Model()
    I, K = M.I, M.K
    sub, iss = SymCert(K, "cert"), SymCert(K, "issuer")
    has_issuer = z3.Bool("issuer_attached")
    iss_obj = M.cert_obj(iss)
    cert = M.cert_obj(sub, Guarded([(has_issuer, iss_obj), (z3.Not(has_issuer), None)]))
    r = I.to_bool(I.call_function(Certificate.verify, [cert, K.backend]))
    exc = cond_or(c for c, _ in I.raises)
    want = verify_oracle(M, sub, iss, has_issuer)
    vars_ = dict(sub.vars())
    vars_.update(iss.vars())
    vars_["issuer_attached"] = has_issuer
    vars_["_issuer_hid"] = M.hid_of(iss.d).term
    vcalls = K.verify_calls
    vars_["_v_issued"] = vcalls[0][4] if len(vcalls) > 0 else FALSE
    vars_["_v_self"] = vcalls[1][4] if len(vcalls) > 1 else (vcalls[0][4] if vcalls else FALSE)
    replay = _replay_verify(sub, iss)
    ctx.witness("reach-issued-accepted", I, z3.And(r, has_issuer, sub.v["issuer_kind"] == 1, z3.Not(exc)), vars=vars_)
    ctx.witness("reach-self-signed-accepted", I, z3.And(r, sub.v["issuer_kind"] == 0, z3.Not(exc)), vars=vars_)
    ctx.prove("no-exception", I, exc, vars=vars_, replay=replay)
    ctx.prove("accepted-only-if-issuer-digest-permissions-and-signature-hold", I, z3.And(r, z3.Not(want)), vars=vars_, replay=replay,
              desc="verify() true => type/verifyKeyIndicator consistent and either (issuer attached, stated digest = HashedId8 of that issuer, every needed PSID among the issuer's "
                   "issuing PSIDs or issuer may issue all, NIST P-256 signature/key, signature predicate on (encode(toBeSigned), signature, issuer key)) or properly self-signed")
    ctx.prove("conforming-certificate-is-accepted", I, z3.And(want, z3.Not(r)), vars=vars_, replay=replay,
              desc="a certificate meeting all those conditions verifies (needed by C05: honest chains are accepted)")
    ctx.bound("subject and issuer certificates: issuer choice self / sha256AndDigest / sha384AndDigest with symbolic 8-octet digest, explicit / implicit type, verification key or "
              "reconstruction value, NIST / Brainpool key and signature kinds, <= 2 application PSIDs, <= 2 certIssuePermissions groups (all / explicit with <= 2 PSIDs), every member optional")
    ctx.stub("OER coder = injective uninterpreted function of the encoded structure; HashedId8 = injective function of the encoded certificate; signature check = uninterpreted predicate (recorded with its arguments)")


def fake_coder():
    """patches that make the repository's coder an injective encoder of arbitrary dictionaries (repr), so that the real
    classes can be driven with the model's certificates without a valid ASN.1 structure"""
    from unittest import mock
    import contextlib
    st = contextlib.ExitStack()
    for name in ("encode_ToBeSignedCertificate", "encode_etsi_ts_103097_certificate", "encode_to_be_signed_data", "encode_etsi_ts_103097_data_signed"):
        st.enter_context(mock.patch.object(CM.SECURITY_CODER, name, lambda d, name=name: (name + repr(d)).encode()))
    return st


def _replay_verify(sub, iss):
    """replay on the real classes with a scripted backend that answers the model's value of the signature predicate and
    records what it was asked to verify; certificate dictionaries are rebuilt from the model"""
    def f(vals):
        cd, tb = build_cert(vals, sub.tag), build_cert(vals, iss.tag)
        with fake_coder():
            issuer = Certificate(certificate=tb) if vals["issuer_attached"] else None
            if issuer is not None and cd["issuer"][0] != "self" and vals[f"{sub.tag}_issuer_digest"] == vals["_issuer_hid"]:
                cd["issuer"] = (cd["issuer"][0], issuer.as_hashedid8())       # the model chose 'stated digest = HashedId8 of the attached issuer'
            cert = Certificate(certificate=cd, issuer=issuer)
            calls = []
            issued_path = issuer is not None and cd["issuer"][0] == "sha256AndDigest"
            answer = bool(vals["_v_issued"] if issued_path else vals["_v_self"])

            class B:
                def verify_with_pk(self, data, signature, pk):
                    calls.append((data, signature, pk))
                    return answer
            try:
                got = cert.verify(B())
            except Exception as e:
                return True, f"Certificate.verify raised {type(e).__name__}: {e} for certificate {summary(cd)}"
            exp = py_verify(cd, tb if issuer is not None else None, issuer.as_hashedid8() if issuer is not None else None, calls, answer)
        return got != exp, f"Certificate.verify = {got}, acceptance conditions = {exp} (signature predicate {answer}) for certificate {summary(cd)} / attached issuer {summary(tb) if issuer else None}"
    return f


def summary(cd):
    t = cd["toBeSigned"]
    return {"issuer": cd["issuer"][0], "type": cd["type"], "sig": cd["signature"][0], "vki": t["verifyKeyIndicator"][0],
            "app": [p["psid"] for p in t.get("appPermissions", [])],
            "issue": [(g["subjectPermissions"][0], [p["psid"] for p in (g["subjectPermissions"][1] or [])], g["minChainLength"]) for g in t.get("certIssuePermissions", [])]}


def build_cert(vals, tag):
    g = lambda k: vals[f"{tag}_{k}"]
    ik = ISSUER_KINDS[g("issuer_kind")]
    digest = vals[f"{tag}_issuer_digest"].to_bytes(8, "big")
    key = (KEY_KINDS[g("key_kind")], ("x-only", g("key_value").to_bytes(32, "big")))
    tbs = {"id": ("none", None) if g("id_is_none") else ("name", "ca"), "cracaId": b"\x00\x00\x00", "crlSeries": 0,
           "validityPeriod": {"start": g("validity_start"), "duration": ("hours", g("validity_hours"))},
           "verifyKeyIndicator": ("verificationKey", key) if g("vki_is_verification_key") else ("reconstructionValue", ("x-only", g("key_value").to_bytes(32, "big")))}
    if g("has_app_permissions"):
        tbs["appPermissions"] = [{"psid": g(f"app_psid{j}")} for j in range(2) if vals.get(f"{tag}_has_app_psid{j}")]
    if g("has_cert_issue_permissions"):
        gl = []
        for n in range(2):
            if not vals.get(f"{tag}_has_group{n}"):
                continue
            sp = ("all", None) if g(f"group{n}_is_all") else ("explicit", [{"psid": g(f"group{n}_psid{j}")} for j in range(2) if vals.get(f"{tag}_group{n}_has_psid{j}")])
            gl.append({"subjectPermissions": sp, "minChainLength": g(f"group{n}_min_chain_length"), "chainLengthRange": 0, "eeType": (b"\x00", 1)})
        tbs["certIssuePermissions"] = gl
    if g("has_encryption_key"):
        tbs["encryptionKey"] = "enc"
    return {"version": 3, "type": "explicit" if g("type_is_explicit") else "implicit",
            "issuer": ("self", "sha256") if ik == "self" else (ik, digest), "toBeSigned": tbs,
            "signature": (SIG_KINDS[g("signature_kind")], {"rSig": ("x-only", g("signature_value").to_bytes(32, "big")), "sSig": b"\x00" * 32})}


def py_verify(cd, issuer_cd, issuer_hid, calls, sig_ok):
    """the acceptance conditions on concrete dictionaries (independent of the repository's code)"""
    t = cd["toBeSigned"]
    vki = t["verifyKeyIndicator"]
    if cd["type"] == "explicit" and vki[0] != "verificationKey":
        return False
    if cd["type"] == "implicit" and vki[0] != "reconstructionValue":
        return False
    nist = cd["signature"][0] == "ecdsaNistP256Signature" and vki[0] == "verificationKey" and vki[1][0] == "ecdsaNistP256"

    def needed(c):
        out = [p["psid"] for p in c["toBeSigned"].get("appPermissions", [])]
        for g in c["toBeSigned"].get("certIssuePermissions", []):
            if g["subjectPermissions"][0] == "explicit":
                out += [p["psid"] for p in g["subjectPermissions"][1]]
        return out
    if issuer_cd is not None and cd["issuer"][0] == "sha256AndDigest":
        it = issuer_cd["toBeSigned"]
        groups = it.get("certIssuePermissions", [])
        allp = any(g["subjectPermissions"][0] == "all" for g in groups)
        allowed = [p["psid"] for g in groups if g["subjectPermissions"][0] == "explicit" for p in g["subjectPermissions"][1]]
        asked = bool(calls) and calls[-1][2] == it["verifyKeyIndicator"][1] and calls[-1][1] == cd["signature"]
        return cd["issuer"][1] == issuer_hid and (allp or all(p in allowed for p in needed(cd))) and nist and asked and sig_ok
    if cd["issuer"][0] == "self":
        asked = bool(calls) and calls[-1][2] == vki[1] and calls[-1][1] == cd["signature"]
        return nist and asked and sig_ok
    return False


class Scenario:
    """concrete world for replays: the model's certificates rebuilt as dictionaries, stated issuer digests made equal to the
    real HashedId8 of exactly those certificates the model made them equal to, and a scripted backend answering the model's
    value of the signature predicate for every (certificate, key owner) pair"""

    def __init__(self, M, certs):
        self.M, self.certs = M, certs          # certs: {tag: SymCert}
        K, I = M.K, M.I
        self.extra = {}
        for t, sc in certs.items():
            self.extra[f"_hid_{t}"] = M.hid_of(sc.d).term
            self.extra[f"_low3_hid_{t}"] = K.low3(M.hid_of(sc.d).term)
            self.extra[f"_low3_digest_{t}"] = K.low3(sc.issuer_digest.term)
        for t, sc in certs.items():
            data = K.inj("EncTbsCert", sc.tbs)
            sigt = K.inj("SigVal", I.container_get(sc.d, "signature", TRUE))
            for t2, sk in certs.items():
                key = I.container_get(I.container_get(sk.tbs, "verifyKeyIndicator", TRUE), 1, TRUE)
                self.extra[f"_V_{t}_{t2}"] = K.V(data, sigt, K.inj("KeyVal", key))

    def build(self, vals):
        """-> (dicts, scripted backend, hid function).  HashedId8 in the replay is a synthetic injective identifier that has exactly
        the equalities (full 8 octets and last 3 octets) of the model: real SHA-256 would need 2^24 work for a 3-octet collision."""
        from unittest import mock
        dicts = {t: build_cert(vals, t) for t in self.certs}
        synth = lambda full, low: int(full).to_bytes(5, "big") + int(low).to_bytes(3, "big")
        ids = {t: synth(vals[f"_hid_{t}"], vals[f"_low3_hid_{t}"]) for t in dicts}
        for t, d in dicts.items():
            if d["issuer"][0] != "self":
                d["issuer"] = (d["issuer"][0], synth(vals[f"{t}_issuer_digest"], vals[f"_low3_digest_{t}"]))
        table = {repr(d): ids[t] for t, d in dicts.items()}

        def hid(d):
            import hashlib
            return table.get(repr(d)) or hashlib.sha256(repr(d).encode()).digest()[-8:]
        self._patch = mock.patch.object(Certificate, "as_hashedid8", lambda self_: hid(self_.certificate))
        self._patch.start()

        class B:
            def __init__(self):
                self.calls = []

            def verify_with_pk(self, data, signature, pk):
                who = [t for t, d in dicts.items() if data == ("encode_ToBeSignedCertificate" + repr(d["toBeSigned"])).encode() and signature == d["signature"]]
                whose = [t for t, d in dicts.items() if pk == d["toBeSigned"]["verifyKeyIndicator"][1]]
                self.calls.append((who, whose))
                return any(bool(vals[f"_V_{a}_{b}"]) for a in who for b in whose)
        return dicts, B(), hid

    def done(self):
        p = getattr(self, "_patch", None)
        if p is not None:
            p.stop()
            self._patch = None


def chain_ok_concrete(d, trusted, hid, vals, tag, tags):
    """the admission condition on concrete dictionaries: some trusted issuer has the stated digest, contains the permissions, and the model's predicate holds"""
    if d["issuer"][0] != "sha256AndDigest":
        return False
    for t2, d2 in trusted.items():
        if d["issuer"][1] != hid(d2):
            continue
        groups = d2["toBeSigned"].get("certIssuePermissions", [])
        allp = any(g["subjectPermissions"][0] == "all" for g in groups)
        allowed = [p["psid"] for g in groups if g["subjectPermissions"][0] == "explicit" for p in g["subjectPermissions"][1]]
        need = [p["psid"] for p in d["toBeSigned"].get("appPermissions", [])] + \
               [p["psid"] for g in d["toBeSigned"].get("certIssuePermissions", []) if g["subjectPermissions"][0] == "explicit" for p in g["subjectPermissions"][1]]
        if (allp or all(p in allowed for p in need)) and bool(vals[f"_V_{tag}_{t2}"]):
            return True
    return False


def real_library(vals, dicts, backend, with_at=True):
    lib = CertificateLibrary.__new__(CertificateLibrary)
    lib.own_certificates, lib.known_authorization_tickets, lib.known_authorization_authorities, lib.known_root_certificates = {}, {}, {}, {}
    lib.ecdsa_backend = backend
    root = Certificate(certificate=dicts["root"])
    aa = Certificate(certificate=dicts["aa"], issuer=root)
    if vals["root_trusted"]:
        lib.known_root_certificates[root.as_hashedid8()] = root
    if vals["aa_trusted"]:
        lib.known_authorization_authorities[aa.as_hashedid8()] = aa
    if vals["at_known"]:
        at = Certificate(certificate=dicts["known_at"], issuer=aa)
        lib.known_authorization_tickets[at.as_hashedid8()] = at
    return lib


# ---------------------------------------------------------------------------------------------- K1 library admission
class LibModel(Model):
    """a CertificateLibrary whose trust store holds one root and one AA (each optional) with symbolic content"""

    def __init__(self):
        super().__init__()
        K = self.K
        self.root, self.aa, self.at = SymCert(K, "root"), SymCert(K, "aa"), SymCert(K, "known_at")
        self.has_root, self.has_aa, self.has_at = z3.Bool("root_trusted"), z3.Bool("aa_trusted"), z3.Bool("at_known")
        self.root_obj = self.cert_obj(self.root)
        self.aa_obj = self.cert_obj(self.aa, self.root_obj)
        self.at_obj = self.cert_obj(self.at, self.aa_obj)
        self.roots = SDict([(self.has_root, self.hid_of(self.root.d), self.root_obj, False)])
        self.aas = SDict([(self.has_aa, self.hid_of(self.aa.d), self.aa_obj, False)])
        self.ats = SDict([(self.has_at, self.hid_of(self.at.d), self.at_obj, False)])
        self.own = SDict()
        self.lib = Obj(CertificateLibrary, dict(own_certificates=self.own, known_authorization_tickets=self.ats, known_authorization_authorities=self.aas,
                                                known_root_certificates=self.roots, ecdsa_backend=self.K.backend))
        self.n0 = {k: len(d.log) for k, d in (("roots", self.roots), ("aas", self.aas), ("ats", self.ats), ("own", self.own))}

    def trusted_issuers(self):
        """[(condition trusted before the call, SymCert)] of the CA certificates in the store"""
        return [(self.has_root, self.root), (self.has_aa, self.aa)]

    def vars(self):
        v = {"root_trusted": self.has_root, "aa_trusted": self.has_aa, "at_known": self.has_at}
        for sc in (self.root, self.aa, self.at):
            v.update(sc.vars())
        return v

    def added(self, store, hid):
        """condition: an entry with this HashedId8 is in the store now and was not before"""
        d = getattr(self, store)
        f1, _ = self.I.sdict_lookup(d, hid)
        f0, _ = self.I.sdict_lookup(SDict(d.log[:self.n0[store]]), hid)
        return z3.And(self.I._lb(f1), z3.Not(self.I._lb(f0)))

    def closure_ok(self, cand, attached_sc, has_attached):
        """the admission condition of the property: the certificate's signature verifies under an ALREADY TRUSTED issuer whose
        issuing permissions contain the certificate's permissions"""
        K = self.K
        data = K.inj("EncTbsCert", cand.tbs)
        sigt = K.inj("SigVal", self.I.container_get(cand.d, "signature", TRUE))
        alts = []
        for trusted, t in self.trusted_issuers():
            tkey = self.I.container_get(self.I.container_get(t.tbs, "verifyKeyIndicator", TRUE), 1, TRUE)
            alts.append(z3.And(trusted, bytes_eq(cand.issuer_digest, self.hid_of(t.d)), cand.v["issuer_kind"] == 1, cand.contained_in(t),
                               K.V(data, sigt, K.inj("KeyVal", tkey))))
        return z3.Or(*alts)


@vc("C09", "K1-library-admission")
def admission(ctx):
    """add_authorization_authority / add_authorization_ticket / add_own_certificate / add_root_certificate with an arbitrary offered certificate
    (with an arbitrary attached issuer object): whatever enters the store verifies under an issuer that was already trusted"""
    for method, store in (("add_authorization_authority", "aas"), ("add_authorization_ticket", "ats"), ("add_own_certificate", "own")):
        M = LibModel()
        I, K = M.I, M.K
        cand, att = SymCert(K, "offered"), SymCert(K, "attached_issuer")
        has_att = z3.Bool("issuer_attached")
        cand_obj = M.cert_obj(cand, Guarded([(has_att, M.cert_obj(att)), (z3.Not(has_att), None)]), cls=OwnCertificate if store == "own" else Certificate,
                              **({"key_id": 1} if store == "own" else {}))
        I.call_function(getattr(CertificateLibrary, method), [M.lib, cand_obj])
        exc = cond_or(c for c, _ in I.raises)
        vars_ = M.vars()
        vars_.update(cand.vars())
        vars_.update(att.vars())
        vars_["issuer_attached"] = has_att
        was_added = M.added(store, M.hid_of(cand.d))
        sc = Scenario(M, {"root": M.root, "aa": M.aa, "known_at": M.at, "offered": cand, "attached_issuer": att})
        vars_.update(sc.extra)
        sha384 = z3.Or(cand.v["issuer_kind"] == 2)

        def nope(vals, sc=sc, method=method, store=store):
            try:
                return _nope(vals, sc, method, store)
            finally:
                sc.done()

        def _nope(vals, sc, method, store):
            with fake_coder():
                dicts, backend, hid = sc.build(vals)
                lib = real_library(vals, dicts, backend)
                attached = Certificate(certificate=dicts["attached_issuer"]) if vals["issuer_attached"] else None
                offered = (OwnCertificate(certificate=dicts["offered"], issuer=attached, key_id=1) if store == "own" else Certificate(certificate=dicts["offered"], issuer=attached))
                stores = {"aas": lib.known_authorization_authorities, "ats": lib.known_authorization_tickets, "own": lib.own_certificates}
                before = {k: dict(v) for k, v in stores.items()}
                roots_before = dict(lib.known_root_certificates)
                trusted = {}
                if vals["root_trusted"]:
                    trusted["root"] = dicts["root"]
                if vals["aa_trusted"]:
                    trusted["aa"] = dicts["aa"]
                try:
                    getattr(lib, method)(offered)
                except Exception as e:
                    return dicts["offered"]["issuer"][0] != "sha384AndDigest", f"{method} raised {type(e).__name__}: {e}"
                new_entries = [k for k in stores[store] if k not in before[store]]
                ok = chain_ok_concrete(dicts["offered"], trusted, hid, vals, "offered", None)
                bad = (bool(new_entries) and not ok) or any(stores[k] != before[k] for k in stores if k != store) or lib.known_root_certificates != roots_before
                return bad, f"{method}: offered {summary(dicts['offered'])}, trusted issuers {list(trusted)}: admitted={bool(new_entries)}, verifies under a trusted issuer={ok}"
        # the attached issuer object has the same HashedId8 as a trusted certificate => it IS that certificate (collision freedom, from the injectivity axioms)
        ctx.witness(f"{method}-reach-admitted", I, z3.And(was_added, z3.Not(exc)), vars=vars_)
        ctx.prove(f"{method}-no-exception", I, z3.And(exc, z3.Not(sha384)), vars=vars_, replay=nope,
                  desc="no exception (a stated issuer of kind sha384AndDigest raises ValueError: the certificate is not admitted; outside C09)")
        ctx.prove(f"{method}-admits-only-certificates-verifying-under-a-trusted-issuer", I, z3.And(was_added, z3.Not(M.closure_ok(cand, att, has_att))), vars=vars_, replay=nope,
                  desc="an entry appears in the store only if its stated issuer digest is the HashedId8 of a root / AA trusted before the call, its permissions are contained in that "
                       "issuer's issuing permissions and the signature predicate holds on (encode(toBeSigned), signature, that issuer's key)")
        others = [s for s in ("roots", "aas", "ats", "own") if s != store]
        changed = [z3.BoolVal(len(getattr(M, s).log) != M.n0[s]) for s in others]
        ctx.prove(f"{method}-other-stores-untouched", I, z3.Or(*changed), vars=vars_, replay=nope)
    # root certificates: only self-signed ones that verify under their own key
    M = LibModel()
    I, K = M.I, M.K
    cand = SymCert(K, "offered")
    cand_obj = M.cert_obj(cand)
    I.call_function(CertificateLibrary.add_root_certificate, [M.lib, cand_obj])
    vars_ = M.vars()
    vars_.update(cand.vars())
    was_added = M.added("roots", M.hid_of(cand.d))
    own_key = I.container_get(I.container_get(cand.tbs, "verifyKeyIndicator", TRUE), 1, TRUE)
    selfok = z3.And(cand.v["issuer_kind"] == 0, K.V(K.inj("EncTbsCert", cand.tbs), K.inj("SigVal", I.container_get(cand.d, "signature", TRUE)), K.inj("KeyVal", own_key)))
    sc_root = Scenario(M, {"root": M.root, "aa": M.aa, "known_at": M.at, "offered": cand})
    vars_.update(sc_root.extra)

    def replay_root(vals):
        try:
            with fake_coder():
                dicts, backend, hid = sc_root.build(vals)
                lib = real_library(vals, dicts, backend)
                before = dict(lib.known_root_certificates)
                others = (dict(lib.known_authorization_authorities), dict(lib.known_authorization_tickets), dict(lib.own_certificates))
                try:
                    lib.add_root_certificate(Certificate(certificate=dicts["offered"]))
                except Exception as e:          # noqa
                    return dicts["offered"]["issuer"][0] != "sha384AndDigest", f"add_root_certificate raised {type(e).__name__}: {e}"
                new = [k for k in lib.known_root_certificates if k not in before]
                ok = dicts["offered"]["issuer"][0] == "self" and bool(vals["_V_offered_offered"])
                untouched = others == (lib.known_authorization_authorities, lib.known_authorization_tickets, lib.own_certificates)
                return (bool(new) and not ok) or not untouched, f"add_root_certificate: offered {summary(dicts['offered'])}: admitted={bool(new)}, self-signed and verifying under its own key={ok}"
        finally:
            sc_root.done()
    ctx.witness("add_root_certificate-reach", I, was_added, vars=vars_)
    ctx.prove("add_root_certificate-only-properly-self-signed", I, z3.And(was_added, z3.Not(selfok)), vars=vars_, replay=replay_root,
              desc="a configured root enters the store only if it is self-signed and the signature predicate holds under its own key")
    ctx.bound("trust store with one root, one AA, one known AT (each present or not, content symbolic); offered certificate and its attached issuer object arbitrary")
    ctx.stub("as K2")


# ---------------------------------------------------------------------------------------------- K1b chains arriving in messages
@vc("C09", "K1-chain-verification")
def chains(ctx):
    """verify_sequence_of_certificates for chains of length 1 and 2 (AT, then its AA): the returned ticket and everything learnt on the way
    verify under issuers trusted before the call"""
    _chains(ctx, False)


def _chains(ctx, learning_only):
    """learning_only: only the obligation of C05 'a ticket that arrived in a message and was accepted is known afterwards'"""
    for n in (1, 2):
        M = LibModel()
        I, K = M.I, M.K
        at = SymCert(K, "msg_at")
        aa = SymCert(K, "msg_aa")
        seq = SList([(TRUE, at.d)] + ([(TRUE, aa.d)] if n == 2 else []))
        res = I.call_function(CertificateLibrary.verify_sequence_of_certificates, [M.lib, seq, K.backend])
        exc = cond_or(c for c, _ in I.raises)
        vars_ = M.vars()
        vars_.update(at.vars())
        if n == 2:
            vars_.update(aa.vars())
        got = z3.Not(_is_none(I, res))
        certs = {"root": M.root, "aa": M.aa, "known_at": M.at, "msg_at": at}
        if n == 2:
            certs["msg_aa"] = aa
        sc = Scenario(M, certs)
        vars_.update(sc.extra)

        def nope(vals, sc=sc, n=n):
            try:
                return _nope(vals, sc, n)
            finally:
                sc.done()

        def _nope(vals, sc, n):
            with fake_coder():
                dicts, backend, hid = sc.build(vals)
                lib = real_library(vals, dicts, backend)
                trusted = {}
                if vals["root_trusted"]:
                    trusted["root"] = dicts["root"]
                if vals["aa_trusted"]:
                    trusted["aa"] = dicts["aa"]
                before_at, before_aa, before_root = dict(lib.known_authorization_tickets), dict(lib.known_authorization_authorities), dict(lib.known_root_certificates)
                seq = [dicts["msg_at"]] + ([dicts["msg_aa"]] if n == 2 else [])
                try:
                    r_ = lib.verify_sequence_of_certificates(seq, backend)
                except Exception as e:
                    kinds = [d["issuer"][0] for d in seq]
                    return "sha384AndDigest" not in kinds and "self" not in kinds[1:], f"verify_sequence_of_certificates raised {type(e).__name__}: {e}"
                known = hid(dicts["msg_at"]) in before_at
                if n == 1:
                    ok = known or chain_ok_concrete(dicts["msg_at"], trusted, hid, vals, "msg_at", None)
                else:
                    roots = {"root": dicts["root"]} if vals["root_trusted"] else {}
                    aa_ok = chain_ok_concrete(dicts["msg_aa"], roots, hid, vals, "msg_aa", None)
                    ok = aa_ok and chain_ok_concrete(dicts["msg_at"], {"msg_aa": dicts["msg_aa"]}, hid, vals, "msg_at", None)
                    learnt_aa = [k for k in lib.known_authorization_authorities if k not in before_aa]
                    if learnt_aa and not aa_ok:
                        return True, f"chain of 2: AA {summary(dicts['msg_aa'])} learnt although it does not verify under the trusted root"
                learnt = [k for k in lib.known_authorization_tickets if k not in before_at]
                returned = r_ is not None and dicts["msg_at"]["issuer"][0] != "self"
                bad = ((returned or learnt) and not ok) or lib.known_root_certificates != before_root
                return bad, f"chain of {n}: ticket {summary(dicts['msg_at'])} returned={r_ is not None}, learnt={bool(learnt)}, every link verifies under a trusted issuer={ok}"
        if learning_only:
            def learnt_replay(vals, sc=sc, n=n):
                try:
                    with fake_coder():
                        dicts, backend, hid = sc.build(vals)
                        lib = real_library(vals, dicts, backend)
                        seq = [dicts["msg_at"]] + ([dicts["msg_aa"]] if n == 2 else [])
                        try:
                            r_ = lib.verify_sequence_of_certificates(seq, backend)
                        except Exception as e:          # noqa
                            return False, f"raised {e!r}"
                        accepted = r_ is not None and dicts["msg_at"]["issuer"][0] != "self"
                        known = hid(dicts["msg_at"]) in lib.known_authorization_tickets
                        return accepted and not known, f"chain of {n}: ticket {summary(dicts['msg_at'])} accepted={accepted}, known to the library afterwards={known} " \
                            "(a later message of the same sender signed with the digest only could not be resolved)"
                finally:
                    sc.done()
            f_after, _ = I.sdict_lookup(M.ats, M.hid_of(at.d))
            ctx.witness(f"chain{n}-reach-accepted", I, z3.And(got, z3.Not(exc)), vars=vars_)
            ctx.prove(f"chain{n}-accepted-ticket-is-known-afterwards", I, z3.And(got, at.v["issuer_kind"] != 0, z3.Not(exc), z3.Not(I._lb(f_after))), vars=vars_, replay=learnt_replay,
                      desc="a ticket that arrived with a message and was accepted by the chain check is stored, so that the sender's following digest-signed messages are accepted at once")
            continue
        known_already = z3.And(M.has_at, bytes_eq(M.hid_of(at.d), M.hid_of(M.at.d)))
        at_ok = M.closure_ok(at, None, FALSE)
        if n == 2:
            # the AA of the message must itself verify under the trusted root; then the AT under that AA
            aa_ok = z3.And(M.has_root, bytes_eq(aa.issuer_digest, M.hid_of(M.root.d)), aa.v["issuer_kind"] == 1, aa.contained_in(M.root),
                           K.V(K.inj("EncTbsCert", aa.tbs), K.inj("SigVal", I.container_get(aa.d, "signature", TRUE)),
                               K.inj("KeyVal", I.container_get(I.container_get(M.root.tbs, "verifyKeyIndicator", TRUE), 1, TRUE))))
            at_under_aa = z3.And(bytes_eq(at.issuer_digest, M.hid_of(aa.d)), at.v["issuer_kind"] == 1, at.contained_in(aa),
                                 K.V(K.inj("EncTbsCert", at.tbs), K.inj("SigVal", I.container_get(at.d, "signature", TRUE)),
                                     K.inj("KeyVal", I.container_get(I.container_get(aa.tbs, "verifyKeyIndicator", TRUE), 1, TRUE))))
            ok = z3.Or(z3.And(aa_ok, at_under_aa))
            ctx.prove(f"chain{n}-learnt-aa-verifies-under-trusted-root", I, z3.And(M.added("aas", M.hid_of(aa.d)), z3.Not(aa_ok)), vars=vars_, replay=nope)
        else:
            ok = z3.Or(known_already, at_ok)
        ctx.witness(f"chain{n}-reach-accepted", I, z3.And(got, z3.Not(exc)), vars=vars_)
        odd = z3.Or(at.v["issuer_kind"] == 2, *( [aa.v["issuer_kind"] != 1] if n == 2 else []))
        ctx.prove(f"chain{n}-no-exception", I, z3.And(exc, z3.Not(odd)), vars=vars_, replay=nope,
                  desc="no exception (certificates stating a sha384AndDigest issuer, or a self-signed certificate in the AA position, raise ValueError and are not accepted; outside C09)")
        # a self-signed certificate in the ticket position is returned by the chain check but can never be accepted: VerifyService demands
        # is_authorization_ticket() (issuer must be a digest), which is part of C03 S1; it is not stored either (next obligation)
        ctx.prove(f"chain{n}-returned-ticket-verifies-up-to-a-trusted-issuer", I, z3.And(got, at.v["issuer_kind"] != 0, z3.Not(ok)), vars=vars_, replay=nope,
                  desc="a ticket is returned only if it is already known or every link verifies (digest, permission containment, signature predicate) under an issuer trusted before the call")
        ctx.prove(f"chain{n}-learnt-ticket-verifies", I, z3.And(M.added("ats", M.hid_of(at.d)), z3.Not(ok)), vars=vars_, replay=nope)
        ctx.prove(f"chain{n}-roots-untouched", I, z3.BoolVal(len(M.roots.log) != M.n0["roots"]), vars=vars_, replay=nope)
    ctx.bound("chains of one and two certificates with symbolic content against a store with one root / AA / known AT")
    if learning_only:
        ctx.stub("ideal-crypto model of C09 (injective coder, signature predicate); real replay with the fake injective coder and scripted backend")


def _is_none(I, v):
    if isinstance(v, Guarded):
        return z3.Or(*[z3.And(c, _is_none(I, x)) for c, x in v.alts if not isinstance(x, Undefined)])
    return z3.BoolVal(v is None)


# ---------------------------------------------------------------------------------------------- K4 issuing API
@vc("C09", "K4-issuing-respects-permissions-and-chain-length")
def issuing(ctx):
    """OwnCertificate.issue_certificate: a subject is signed only if its permissions are contained in the issuer's issuing permissions
    and every issuing group of the issuer still has chain length left"""
    M = Model()
    I, K = M.I, M.K
    iss, sub = SymCert(K, "issuer"), SymCert(K, "subject")
    I.assumptions.append(sub.v["issuer_kind"] != 0)          # not a self-signed subject (that path re-signs the subject with its own key by design)
    I.assumptions.append(iss.v["has_cert_issue_permissions"])
    issuer = M.cert_obj(iss, None, cls=OwnCertificate, key_id=7)
    subject = M.cert_obj(sub, None)
    out = I.call_function(OwnCertificate.issue_certificate, [issuer, K.backend, subject])
    exc = cond_or(c for c, _ in I.raises)
    signed = cond_or(c for c, *_ in K.sign_calls)
    budget = z3.And(*[z3.Implies(h, m >= 1) for h, a, ps, m in iss.groups])
    vars_ = dict(iss.vars())
    vars_.update(sub.vars())

    def replay(vals):
        cd, icd = build_cert(vals, "subject"), build_cert(vals, "issuer")
        signed_ = []

        class B:
            def sign(self, data, key):
                signed_.append(data)
                return ("ecdsaNistP256Signature", {"rSig": ("x-only", b"\x01" * 32), "sSig": b"\x02" * 32})
        from unittest import mock
        with mock.patch.object(CM.SECURITY_CODER, "encode_ToBeSignedCertificate", lambda d: repr(d).encode()), \
                mock.patch.object(CM.SECURITY_CODER, "encode_etsi_ts_103097_certificate", lambda d: repr(d).encode()):
            try:
                OwnCertificate(certificate=icd, issuer=None, key_id=7).issue_certificate(B(), Certificate(certificate=cd))
            except Exception as e:
                return True, f"issue_certificate raised {type(e).__name__}: {e}"
        groups = icd["toBeSigned"].get("certIssuePermissions", [])
        ok_budget = all(g["minChainLength"] >= 1 for g in groups)
        allp = any(g["subjectPermissions"][0] == "all" for g in groups)
        allowed = [p["psid"] for g in groups if g["subjectPermissions"][0] == "explicit" for p in g["subjectPermissions"][1]]
        need = [p["psid"] for p in cd["toBeSigned"].get("appPermissions", [])] + \
               [p["psid"] for g in cd["toBeSigned"].get("certIssuePermissions", []) if g["subjectPermissions"][0] == "explicit" for p in g["subjectPermissions"][1]]
        may = ok_budget and (allp or all(p in allowed for p in need))
        return bool(signed_) != may, f"issuer {summary(icd)['issue']} asked to issue {summary(cd)}: signed={bool(signed_)}, allowed by permissions and chain length={may}"
    ctx.witness("reach-issued", I, z3.And(signed, z3.Not(exc)), vars=vars_, validate=lambda v: not replay(v)[0], good=z3.Implies(signed, z3.And(sub.contained_in(iss), budget)))
    ctx.prove("no-exception", I, exc, vars=vars_, replay=replay)
    ctx.prove("signs-only-contained-permissions", I, z3.And(signed, z3.Not(sub.contained_in(iss))), vars=vars_, replay=replay,
              desc="the issuing API signs a subject only if every PSID it needs is among the issuer's issuing PSIDs (or the issuer may issue all)")
    ctx.prove("signs-only-with-chain-length-left", I, z3.And(signed, z3.Not(budget)), vars=vars_, replay=replay,
              desc="the issuing API signs only while every issuing group of the issuer has minChainLength >= 1")
    ctx.prove("issues-when-allowed", I, z3.And(sub.contained_in(iss), budget, z3.Not(signed)), vars=vars_, replay=replay)

    # the chain-length budget written into what is signed: every issuing group of the issued ticket has 1 <= minChainLength <= (largest
    # minChainLength of an issuing group of the issuer) - 1, i.e. each delegation step consumes budget
    from ..values import Guarded, SDict, SList
    present = [(z3.And(iss.v["has_cert_issue_permissions"], h), m) for h, a, ps, m in iss.groups]
    top = z3.IntVal(-10)
    for h, m in present:
        top = z3.If(z3.And(h, m > top), m, top)

    def walk(v, cond):
        """[(condition, concrete SDict / SList / term)] behind guarded alternatives"""
        if isinstance(v, Guarded):
            return [y for c, x in v.alts for y in walk(x, z3.And(cond, I._lb(c)))]
        return [(cond, v)]
    over = []
    for pc, _dt, _k, _sig, data in K.sign_calls:
        for c0, tbs in walk(data.src, I._lb(pc)):
            if not isinstance(tbs, SDict):
                continue
            f, gl = I.sdict_lookup(tbs, "certIssuePermissions")
            for c1, lst in walk(gl, z3.And(c0, I._lb(f))):
                if not isinstance(lst, SList):
                    continue
                for ci, g in lst.items:
                    for c2, gd in walk(g, z3.And(c1, I._lb(ci))):
                        fm, mv = I.sdict_lookup(gd, "minChainLength")
                        for c3, m in walk(mv, z3.And(c2, I._lb(fm))):
                            m = I.num(m) if hasattr(I, "num") else m
                            over.append(z3.And(c3, z3.Or(m < 1, m > top - 1)))

    def replay_budget(vals):
        cd, icd = build_cert(vals, "subject"), build_cert(vals, "issuer")

        signed_ = []

        class B:
            def sign(self, data, key):
                signed_.append(data)
                return ("ecdsaNistP256Signature", {"rSig": ("x-only", b"\x01" * 32), "sSig": b"\x02" * 32})
        from unittest import mock
        with mock.patch.object(CM.SECURITY_CODER, "encode_ToBeSignedCertificate", lambda d: repr(d).encode()), \
                mock.patch.object(CM.SECURITY_CODER, "encode_etsi_ts_103097_certificate", lambda d: repr(d).encode()):
            try:
                res = OwnCertificate(certificate=icd, issuer=None, key_id=7).issue_certificate(B(), Certificate(certificate=cd))
            except Exception as e:
                return True, f"issue_certificate raised {type(e).__name__}: {e}"
        if not signed_:
            return False, "not issued"
        top_ = max([g["minChainLength"] for g in icd["toBeSigned"].get("certIssuePermissions", [])] or [-10])
        got = [g["minChainLength"] for g in res.certificate["toBeSigned"].get("certIssuePermissions", [])]
        return any(m < 1 or m > top_ - 1 for m in got), \
            f"issuer {summary(icd)['issue']} issued a ticket whose issuing groups carry minChainLength {got}; the issuer's largest is {top_}"
    ctx.witness("reach-issued-with-issuing-groups", I, z3.And(signed, z3.Not(exc), z3.Or(*[z3.And(c, m >= 2) for c, m in present]),
                                                            sub.v["has_cert_issue_permissions"], sub.groups[0][0]), vars=vars_,
                validate=lambda v: not replay_budget(v)[0])
    ctx.prove("issued-ticket-has-less-chain-length-than-its-issuer", I, cond_or(over), vars=vars_, replay=replay_budget,
              desc="every issuing group written into an issued ticket has 1 <= minChainLength <= the issuer's largest minChainLength - 1 "
                   "(groups that would fall below 1 are dropped), under an \"all\" issuer as well as under explicit issuing groups")
    ctx.bound("issuer with <= 2 issuing groups (all / explicit, chain lengths -2..5), subject with <= 2 application PSIDs and <= 2 requested issuing groups")
    ctx.stub("as K2; backend.sign recorded")


# ---------------------------------------------------------------------------------------------- K3 authorisation at message acceptance
@vc("C09", "K3-message-authorisation")
def authorisation(ctx):
    """VerifyService.verify: SUCCESS only if the message's ITS-AID is among the signing ticket's application permissions and its
    generation time lies within the ticket's validity period"""
    from .c03 import VerifyHarness, report_is, success_conditions, authorised, _replay_verify_service
    from flexstack.security.sn_sap import ReportVerify
    h = VerifyHarness()
    I = h.I
    m = h.msgs[0]
    conf = h.verify()
    res = h.results[0]
    ok = report_is(I, conf, ReportVerify.SUCCESS)
    exc = cond_or(c for c, _ in I.raises)
    vars_ = h.vars()
    psid = z3.If(z3.And(m.has_header, m.has_psid), m.psid, 0)
    in_perm = z3.Or(*[z3.And(c, p == psid) for c, p in h.at.app_psids()])
    start_us = h.at.start * 1000000
    in_time = z3.And(m.gen_time >= start_us, m.gen_time < start_us + h.at.duration_h * 3600 * 1000000)
    success_conditions(h, m, res)
    vars_.update(h.extra)
    vars_["psid_in_ticket_permissions"] = in_perm
    vars_["generation_time_within_validity"] = in_time
    vars_["_want"] = success_conditions(h, m, res)

    def replay(vals):
        base = _replay_verify_service(h, m, res)(dict(vals, _want=True))      # runs the real service; a deviation from the other conditions is C03's business
        from unittest import mock
        # re-run for the report only
        return _replay_report(h, m, res, vals)

    def _replay_report(h, m, res, vals):
        rep = {}

        def grab(vals2):
            return None
        f = _replay_verify_service(h, m, res)
        bad, detail = f(dict(vals, _want=bool(vals["_want"])))
        # SUCCESS on the real service is signalled by the detail of the C03 replay: it reports only deviations; so decide authorisation here
        got_success = bool(vals["_want"]) and not bad
        psid_ok, time_ok = bool(vals["psid_in_ticket_permissions"]), bool(vals["generation_time_within_validity"])
        t = m.tag
        return got_success and not (psid_ok and time_ok), (
            f"message with ITS-AID {vals[f'{t}_psid'] if vals[f'{t}_has_psid'] else 0} and generation time {vals[f'{t}_generation_time_us']} us accepted (SUCCESS) under a ticket with "
            f"application permissions {[vals[f'ticket_app_psid{j}'] for j in range(2) if vals[f'ticket_has_app_psid{j}']]} valid from {vals['ticket_validity_start']} s for "
            f"{vals['ticket_validity_hours']} h: ITS-AID covered={psid_ok}, generation time within validity={time_ok}")
    ctx.witness("reach-success", I, z3.And(ok, z3.Not(exc), in_perm, in_time), vars=vars_)
    ctx.prove("success-only-if-its-aid-in-ticket-permissions", I, z3.And(ok, z3.Not(in_perm)), vars=vars_, replay=replay,
              desc="a message is accepted only if its ITS-AID (psid) is among the appPermissions of the ticket that signed it")
    ctx.prove("success-only-if-generated-within-ticket-validity", I, z3.And(ok, z3.Not(in_time)), vars=vars_, replay=replay,
              desc="a message is accepted only if its generationTime lies within the validityPeriod of the ticket that signed it")
    ctx.bound("as C03 S1; validity period = start (s since 2004) + duration in hours; generation time in microseconds since 2004")
