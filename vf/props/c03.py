"""C03 - secured packets are delivered only if authentic and untampered (logic level; ideal coder / signatures, vf/secm.py).

S1: VerifyService.verify on an arbitrary decoded EtsiTs103097Data-Signed structure: SUCCESS only if the signature predicate
holds on exactly (encode(tbsData of THIS message), THIS message's signature, the key of the resolved authorization ticket),
the ticket verified under its issuer, and the payload delivered is the one inside that tbsData.
S2: the router hands nothing to the upper layers unless verification succeeded, and then only the verified plain message.
S3 (chain / trust store) is C09 K1/K2, shared."""
import ast
import z3
from ..calls import make
from ..values import Obj, Opaque, SBytes, SDict, SList, Guarded, Undefined
from ..interp import TRUE, FALSE
from ..runner import vc
from ..facil import cond_or, num_eq, val_eq, path_get, logger
from ..secm import Crypto, SymCert
from .c09 import Model, LibModel, bytes_eq, verify_oracle, _is_none, fake_coder, build_cert, Scenario, summary

import flexstack.security.verify_service as VS
from flexstack.security.verify_service import VerifyService
from flexstack.security.certificate import Certificate, SECURITY_CODER
from flexstack.security.certificate_library import CertificateLibrary
from flexstack.security.sn_sap import ReportVerify, SNVERIFYRequest, SNVERIFYConfirm

OPTIONAL_HEADER = ["generationTime", "generationLocation", "expiryTime", "encryptionKey", "inlineP2pcdRequest", "requestedCertificate",
                   "p2pcdLearningRequest", "missingCrlIdentifier"]


class SignedMessage:
    """decoded EtsiTs103097Data-Signed with symbolic content (shape of the OER decoder: CHOICE = (name, value))"""

    def __init__(self, K, tag, signer_certs=1):
        I = K.I
        self.K, self.tag = K, tag
        self.payload = K.blob(I.int_var(f"{tag}_payload", 0, 2 ** 40), "payload")
        self.psid = I.int_var(f"{tag}_psid", 0, 1000)
        self.gen_time = I.int_var(f"{tag}_generation_time_us", 0, 2 ** 62)
        self.has = {k: z3.Bool(f"{tag}_has_{k}") for k in OPTIONAL_HEADER}
        self.has_psid = z3.Bool(f"{tag}_has_psid")
        self.requested_cert = SymCert(K, f"{tag}_requested_ca", groups=1, psids=1)
        self.p2pcd = [K.blob(I.int_var(f"{tag}_p2pcd_request{j}", 0, 2 ** 24 - 1), "hashedid3", length=3) for j in range(1)]
        hi = SDict([(self.has_psid, "psid", self.psid, False), (self.has["generationTime"], "generationTime", self.gen_time, False),
                    (self.has["generationLocation"], "generationLocation", SDict([(TRUE, "latitude", 0, False), (TRUE, "longitude", 0, False), (TRUE, "elevation", 0, False)]), False),
                    (self.has["expiryTime"], "expiryTime", 5, False), (self.has["encryptionKey"], "encryptionKey", "k", False),
                    (self.has["inlineP2pcdRequest"], "inlineP2pcdRequest", SList([(TRUE, b) for b in self.p2pcd]), False),
                    (self.has["requestedCertificate"], "requestedCertificate", self.requested_cert.d, False),
                    (self.has["p2pcdLearningRequest"], "p2pcdLearningRequest", "x", False), (self.has["missingCrlIdentifier"], "missingCrlIdentifier", "y", False)])
        self.has_header = z3.Bool(f"{tag}_has_header_info")
        self.tbs = SDict([(TRUE, "payload", SDict([(TRUE, "data", SDict([(TRUE, "protocolVersion", 3, False), (TRUE, "content", ("unsecuredData", self.payload), False)]), False)]), False),
                          (self.has_header, "headerInfo", hi, False)])
        self.header = hi
        self.signer_is_digest = z3.Bool(f"{tag}_signer_is_digest")
        self.signer_digest = K.blob(I.int_var(f"{tag}_signer_digest", 0, 2 ** 40 - 1), "hashedid8", length=8)
        self.certs = [SymCert(K, f"{tag}_signer_cert{j}") for j in range(signer_certs)]
        signer = Guarded([(self.signer_is_digest, ("digest", self.signer_digest)),
                          (z3.Not(self.signer_is_digest), ("certificate", SList([(TRUE, c.d) for c in self.certs])))])
        self.sig_r = K.blob(I.int_var(f"{tag}_signature_value", 0, 2 ** 40), "r", length=32)
        self.sig_s = K.blob(I.int_var(f"{tag}_signature_s", 0, 2 ** 40), "s", length=32)
        self.sig = ("ecdsaNistP256Signature", SDict([(TRUE, "rSig", ("x-only", self.sig_r), False), (TRUE, "sSig", self.sig_s, False)]))
        self.signed = SDict([(TRUE, "hashId", "sha256", False), (TRUE, "tbsData", self.tbs, False), (TRUE, "signer", signer, False), (TRUE, "signature", self.sig, False)])
        self.d = SDict([(TRUE, "protocolVersion", 3, False), (TRUE, "content", ("signedData", self.signed), False)])
        self.wire = K.blob(I.int_var(f"{tag}_wire", 0, 2 ** 40), "secured-message-bytes")

    def vars(self):
        v = {t.decl().name(): t for t in [self.payload.term, self.psid, self.gen_time, self.has_psid, self.has_header, self.signer_is_digest, self.signer_digest.term,
                                          self.sig_r.term, self.sig_s.term, self.wire.term] + list(self.has.values()) + [b.term for b in self.p2pcd]}
        for c in self.certs:
            v.update(c.vars())
        v.update(self.requested_cert.vars())
        return v


class VerifyHarness:
    """VerifyService with a library stub (contract: returns the candidate ticket or nothing) and a recording sign service"""

    def __init__(self, nmsgs=1, signer_certs=1):
        self.M = M = Model()
        I, K = M.I, M.K
        I.prune = True
        self.I, self.K = I, K
        self.msgs = [SignedMessage(K, f"msg{j + 1}", signer_certs) for j in range(nmsgs)]
        self.by_wire = {}
        K.install_coder(SECURITY_CODER, decode_signed=self._decode)
        # the ticket the library may resolve, with its issuer attached
        self.at, self.aa = SymCert(K, "ticket"), SymCert(K, "ticket_issuer")
        self.aa_obj = M.cert_obj(self.aa)
        self.at_obj = M.cert_obj(self.at, Guarded([(z3.Bool("ticket_has_issuer"), self.aa_obj), (z3.Not(z3.Bool("ticket_has_issuer")), None)]))
        self.lib_calls = []
        lib = Opaque("certificate_library")
        I.stubs[id(lib)] = self._lib
        # the receiver's own tickets: the signer's ticket may be one of them (a frame that names the receiver's own, public, ticket as its signer)
        self.signer_is_own = z3.Bool("signer_ticket_is_one_of_the_receivers_own")
        lib.attrs = {"own_certificates": SDict([(self.signer_is_own, M.hid_of(self.at.d), self.at_obj, False)]) if hasattr(self, "at_obj") else SDict()}
        self._lib_obj = lib
        self.notes = []
        ss = Opaque("sign_service")
        I.stubs[id(ss)] = lambda it, name, a, k, pc: self.notes.append((pc, name, a))
        from unittest import mock
        real = VerifyService(mock.Mock(), mock.Mock(), None)
        f = dict(vars(real))
        f.update(backend=K.backend, certificate_library=lib, sign_service=ss)
        self.o = Obj(VerifyService, f)
        self.results = []

    def _decode(self, x, pc):
        for m in self.msgs:
            if x is m.wire:
                return m.d
        raise AssertionError("unknown wire object")

    def _lib(self, it, name, a, k, pc):
        found = z3.Bool(it.fresh("library_resolves_ticket"))
        self.lib_calls.append((pc, name, a, found))
        if name in ("verify_sequence_of_certificates", "get_authorization_ticket_by_hashedid8"):
            return Guarded([(found, self.at_obj), (z3.Not(found), None)])
        return None

    def verify(self, j=0):
        req = Obj(SNVERIFYRequest, dict(sec_header_length=0, sec_header=b"", message_length=10, message=self.msgs[j].wire))
        n0v, n0l, n0n = len(self.K.verify_calls), len(self.lib_calls), len(self.notes)
        r = self.I.call_function(VerifyService.verify, [self.o, req])
        self.results.append(dict(confirm=r, vcalls=self.K.verify_calls[n0v:], lib=self.lib_calls[n0l:], notes=self.notes[n0n:]))
        return r

    def vars(self):
        v = {"ticket_has_issuer": z3.Bool("ticket_has_issuer"), "signer_ticket_is_one_of_the_receivers_own": self.signer_is_own}
        for m in self.msgs:
            v.update(m.vars())
        v.update(self.at.vars())
        v.update(self.aa.vars())
        for res in self.results:
            for pc, name, a, found in res["lib"]:
                v[found.decl().name()] = found
        return v


def report_is(I, confirm, member):
    r = confirm.fields["report"] if isinstance(confirm, Obj) else Guarded([(c, x.fields["report"]) for c, x in confirm.alts if isinstance(x, Obj)])

    def rec(v):
        from ..values import EnumSym
        if isinstance(v, Guarded):
            return z3.Or(*[z3.And(c, rec(x)) for c, x in v.alts if not isinstance(x, Undefined)])
        if isinstance(v, EnumSym):
            return I.num(v.val) == member.value
        return z3.BoolVal(v is member)
    return rec(r)


def field_of(confirm, name):
    if isinstance(confirm, Obj):
        return confirm.fields[name]
    return Guarded([(c, x.fields[name]) for c, x in confirm.alts if isinstance(x, Obj)])


def blob_is(I, v, blob):
    if isinstance(v, Guarded):
        return z3.Or(*[z3.And(c, blob_is(I, x, blob)) for c, x in v.alts if not isinstance(x, Undefined)])
    if isinstance(v, Opaque) and getattr(v, "term", None) is not None:
        return v.term == blob.term
    return FALSE


def success_conditions(h, m, res, with_authorisation=False):
    """independent statement of when a signed message may be accepted (TS 103 097 5.2 / 7.1, IEEE 1609.2)"""
    I, K, M = h.I, h.K, h.M
    resolved = z3.Or(*[z3.And(pc, found) for pc, name, a, found in res["lib"]]) if res["lib"] else FALSE
    at_ok = verify_oracle(M, h.at, h.aa, z3.Bool("ticket_has_issuer"))
    is_at = z3.And(h.at.v["issuer_kind"] != 0, h.at.v["id_is_none"], z3.Not(h.at.v["has_cert_issue_permissions"]), h.at.v["has_app_permissions"])
    hdr = m.has_header
    gen = z3.And(hdr, m.has["generationTime"])
    forbidden = z3.And(hdr, z3.Or(m.has["p2pcdLearningRequest"], m.has["missingCrlIdentifier"]))
    psid = z3.If(z3.And(hdr, m.has_psid), m.psid, 0)
    denm = psid == 37
    denm_ok = z3.Implies(denm, z3.And(z3.Not(m.signer_is_digest), hdr, m.has["generationLocation"],
                                      z3.Not(z3.Or(m.has["expiryTime"], m.has["encryptionKey"], m.has["inlineP2pcdRequest"], m.has["requestedCertificate"]))))
    key = I.container_get(I.container_get(h.at.tbs, "verifyKeyIndicator", TRUE), 1, TRUE)
    sig_ok = K.V(K.inj("EncTbsData", m.tbs), K.inj("SigVal", m.sig), K.inj("KeyVal", key))
    cond = z3.And(resolved, at_ok, is_at, h.at.v["vki_is_verification_key"], gen, z3.Not(forbidden), denm_ok, sig_ok)
    if with_authorisation:
        cond = z3.And(cond, authorised(h, m))
    akey = I.container_get(I.container_get(h.aa.tbs, "verifyKeyIndicator", TRUE), 1, TRUE)
    h.extra = getattr(h, "extra", {})
    h.extra.update({f"_V_{m.tag}": sig_ok, "_hid_ticket_issuer": M.hid_of(h.aa.d).term,
                    "_V_ticket": K.V(K.inj("EncTbsCert", h.at.tbs), K.inj("SigVal", I.container_get(h.at.d, "signature", TRUE)), K.inj("KeyVal", akey))})
    return cond


def authorised(h, m):
    psid = z3.If(z3.And(m.has_header, m.has_psid), m.psid, 0)
    in_perm = z3.Or(*[z3.And(c, p == psid) for c, p in h.at.app_psids()])
    # validity: start (seconds since 2004) <= generationTime (microseconds since 2004) < start + duration (hours)
    start_us = h.at.start * 1000000
    end_us = start_us + h.at.duration_h * 3600 * 1000000
    return z3.And(in_perm, m.gen_time >= start_us, m.gen_time < end_us)


@vc("C03", "S1-verify-success-only-if-authentic")
def verify_logic(ctx):
    """one call of VerifyService.verify on an arbitrary decoded message; signer digest or one certificate"""
    h = VerifyHarness()
    I, K = h.I, h.K
    m = h.msgs[0]
    conf = h.verify()
    res = h.results[0]
    exc = cond_or(c for c, _ in I.raises)
    ok = report_is(I, conf, ReportVerify.SUCCESS)
    vars_ = h.vars()
    replay = _replay_verify_service(h, m, res)
    want = success_conditions(h, m, res)
    vars_.update(h.extra)
    vars_["_want"] = want
    ctx.witness("reach-success-digest", I, z3.And(ok, m.signer_is_digest, z3.Not(exc)), vars=vars_)
    ctx.witness("reach-success-certificate", I, z3.And(ok, z3.Not(m.signer_is_digest), z3.Not(exc)), vars=vars_)
    unknown_signer = FALSE
    ctx.prove("no-exception", I, z3.And(exc, m.has_header), vars=vars_, replay=replay,
              desc="verification of any decodable message terminates with a report (a message without headerInfo is outside: the ASN.1 makes headerInfo mandatory)")
    ctx.prove("success-only-if-authentic", I, z3.And(ok, z3.Not(want)), vars=vars_, replay=replay,
              desc="SUCCESS => a ticket was resolved by the library, it verifies under its attached issuer, has the AT profile and a verification key, generationTime is present, "
                   "no forbidden header field, DENM profile constraints, and the signature predicate holds on (encode(tbsData of this message), this message's signature, the ticket's key)")
    ctx.prove("authentic-message-is-accepted", I, z3.And(want, z3.Not(ok), z3.Not(exc)), vars=vars_, replay=replay,
              desc="completeness (used by C05): a message meeting all conditions is reported SUCCESS")
    ctx.prove("delivered-payload-is-the-signed-one", I, z3.And(ok, z3.Not(blob_is(I, field_of(conf, "plain_message"), m.payload))), vars=vars_, replay=replay,
              desc="the plain message handed on is the payload inside the tbsData the signature was checked over")
    # the library is asked about THIS message's signer
    bad = []
    for pc, name, a, found in res["lib"]:
        if name == "get_authorization_ticket_by_hashedid8":
            bad.append(z3.And(pc, z3.Not(blob_is(I, a[0], m.signer_digest))))
        elif name == "verify_sequence_of_certificates":
            def same_list(lst):
                if isinstance(lst, Guarded):
                    return z3.Or(*[z3.And(c, same_list(x)) for c, x in lst.alts if not isinstance(x, Undefined)])
                return z3.BoolVal(isinstance(lst, SList) and len(lst.items) == len(m.certs) and all(x is c.d for (_, x), c in zip(lst.items, m.certs)))
            bad.append(z3.And(pc, z3.Not(same_list(a[0]))))
    ctx.prove("signer-resolved-from-this-message", I, z3.Or(*bad) if bad else FALSE, vars=vars_, replay=replay,
              desc="the ticket is looked up by this message's signer digest / certificate list")
    ctx.prove("unsigned-or-failed-never-carry-a-payload", I, z3.And(z3.Not(ok), z3.Not(exc), blob_is(I, field_of(conf, "plain_message"), m.payload)), vars=vars_, replay=replay)
    ctx.bound("decoded message: signer digest or a list of one certificate, every headerInfo member optional, psid 0..1000 (36, 37, 638 included), payload / signature / digests ideal "
              "byte strings; resolved ticket and its attached issuer with fully symbolic content (as C09 K2)")
    ctx.stub("certificate library: returns the candidate ticket or nothing (its own VCs: C09 K1); OER coder injective; signature check an uninterpreted predicate recorded with its arguments")


@vc("C03", "S1-unsigned-envelope-is-never-accepted")
def verify_unsigned(ctx):
    """VerifyService.verify on a decodable envelope whose content is not SignedData (EtsiTs103097Data with unsecuredData): never SUCCESS"""
    h = VerifyHarness()
    I, K = h.I, h.K
    m = h.msgs[0]
    m.d = SDict([(TRUE, "protocolVersion", 3, False), (TRUE, "content", ("unsecuredData", m.payload), False)])
    conf = h.verify()
    exc = cond_or(c for c, _ in I.raises)
    ok = FALSE if not isinstance(conf, (Obj, Guarded)) else report_is(I, conf, ReportVerify.SUCCESS)
    vars_ = {"msg1_payload": m.payload.term}

    def replay(vals):
        from unittest import mock
        payload = b"P" + int(vals.get("msg1_payload", 0)).to_bytes(6, "big")
        vs = VerifyService(mock.Mock(), mock.Mock(), mock.Mock())
        with mock.patch.object(VS.SECURITY_CODER, "decode_etsi_ts_103097_data_signed", lambda b: {"protocolVersion": 3, "content": ("unsecuredData", payload)}):
            try:
                conf_ = vs.verify(SNVERIFYRequest(sec_header_length=0, sec_header=b"", message_length=4, message=b"wire"))
            except Exception as e:          # noqa
                return False, f"unsigned envelope: verify raised {type(e).__name__} (nothing is delivered)"
        return conf_.report == ReportVerify.SUCCESS, f"unsigned envelope with payload {payload.hex()} reported {conf_.report}"
    ctx.witness("unsigned-reach-verify", I, z3.Or(exc, z3.Not(ok)), vars=vars_, validate=lambda v: not replay(v)[0])
    ctx.prove("unsigned-envelope-never-reported-success", I, z3.And(ok, z3.Not(exc)), vars=vars_, replay=replay,
              desc="an envelope that carries unsecuredData instead of SignedData (no signer, no signature) ends in an exception or a non-SUCCESS report: "
                   "Router.process_security_header delivers only on SUCCESS")
    ctx.bound("one decoded envelope {protocolVersion 3, content (unsecuredData, arbitrary payload)}; other CHOICE alternatives (encryptedData, signedCertificateRequest) not enumerated")


@vc("C03", "S1-history-independence")
def verify_twice(ctx):
    """two consecutive verifications on one VerifyService: the verdict on the second message depends on the second message only"""
    h = VerifyHarness(nmsgs=2)
    I, K = h.I, h.K
    h.verify(0)
    conf2 = h.verify(1)
    res2 = h.results[1]
    m2 = h.msgs[1]
    exc = cond_or(c for c, _ in I.raises)
    ok2 = report_is(I, conf2, ReportVerify.SUCCESS)
    vars_ = h.vars()
    replay = _replay_verify_service(h, m2, res2, first=h.msgs[0])
    want2 = success_conditions(h, m2, res2)
    success_conditions(h, h.msgs[0], h.results[0])
    vars_.update(h.extra)
    vars_["_want"] = want2
    ctx.witness("reach-both-succeed", I, z3.And(ok2, report_is(I, h.results[0]["confirm"], ReportVerify.SUCCESS), z3.Not(exc)), vars=vars_)
    ctx.prove("second-success-only-if-second-message-authentic", I, z3.And(ok2, z3.Not(success_conditions(h, m2, res2))), vars=vars_, replay=replay,
              desc="whatever genuine or forged message was verified before, SUCCESS for the next one needs its own signature predicate on its own tbsData")
    ctx.prove("second-payload-is-its-own", I, z3.And(ok2, z3.Not(blob_is(I, field_of(conf2, "plain_message"), m2.payload))), vars=vars_, replay=replay)
    ctx.bound("two arbitrary messages (same or different signer, same or different signature values) verified one after the other on one service instance")


def _replay_verify_service(h, m, res, first=None, sign_service=None, out=None):
    """real VerifyService with a scripted library / backend that answer as the model decided, dictionaries rebuilt from the model"""
    export = out

    def f(vals):
        from unittest import mock
        with fake_coder():
            at_d, aa_d = build_cert(vals, "ticket"), build_cert(vals, "ticket_issuer")
            aa = Certificate(certificate=aa_d)
            if at_d["issuer"][0] != "self" and vals.get("ticket_issuer_digest") == vals.get("_hid_ticket_issuer"):
                at_d["issuer"] = (at_d["issuer"][0], aa.as_hashedid8())
            at = Certificate(certificate=at_d, issuer=aa if vals["ticket_has_issuer"] else None)
            lib = mock.Mock()
            lib.own_certificates = {at.as_hashedid8(): at} if vals.get("signer_ticket_is_one_of_the_receivers_own") else {}
            asked = []

            def build_msg(mm):
                t = mm.tag
                hi = {}
                if vals[f"{t}_has_psid"]:
                    hi["psid"] = vals[f"{t}_psid"]
                for k_ in OPTIONAL_HEADER:
                    if vals[f"{t}_has_{k_}"]:
                        hi[k_] = {"generationTime": vals[f"{t}_generation_time_us"], "generationLocation": {"latitude": 0, "longitude": 0, "elevation": 0},
                                  "inlineP2pcdRequest": [vals[f"{t}_p2pcd_request0"].to_bytes(3, "big")],
                                  "requestedCertificate": build_cert(vals, f"{t}_requested_ca")}.get(k_, 5)
                tbs = {"payload": {"data": {"protocolVersion": 3, "content": ("unsecuredData", b"P" + vals[f"{t}_payload"].to_bytes(6, "big"))}}}
                if vals[f"{t}_has_header_info"]:
                    tbs["headerInfo"] = hi
                signer = ("digest", vals[f"{t}_signer_digest"].to_bytes(8, "big")) if vals[f"{t}_signer_is_digest"] else ("certificate", [build_cert(vals, c.tag) for c in mm.certs])
                return {"protocolVersion": 3, "content": ("signedData", {"hashId": "sha256", "tbsData": tbs, "signer": signer,
                                                                          "signature": ("ecdsaNistP256Signature", {"rSig": ("x-only", vals[f"{t}_signature_value"].to_bytes(32, "big")), "sSig": vals[f"{t}_signature_s"].to_bytes(32, "big")})})}
            order = ([first] if first is not None else []) + [m]
            msgs = {mm.tag: build_msg(mm) for mm in order}
            founds = []
            for r_ in h.results:
                founds.append([bool(vals[found.decl().name()]) for pc, name, a, found in r_["lib"]])
            state = {"i": 0}

            def resolve(*a, **k):
                asked.append(a)
                fl = founds[state["i"]]
                return at if (fl and any(fl)) else None
            lib.verify_sequence_of_certificates.side_effect = resolve
            lib.get_authorization_ticket_by_hashedid8.side_effect = resolve
            vcalls = []

            class B:
                def verify_with_pk(self, data=None, signature=None, pk=None):
                    vcalls.append((data, signature, pk))
                    # signature predicate: the model's verdict for 'this message under the ticket key', false for anything else; certificate checks: model's verdict
                    cur = order[state["i"]]
                    sd = msgs[cur.tag]["content"][1]
                    if data == ("encode_to_be_signed_data" + repr(sd["tbsData"])).encode():
                        return bool(vals[f"_V_{cur.tag}"]) and signature == sd["signature"] and pk == at_d["toBeSigned"]["verifyKeyIndicator"][1]
                    return bool(vals["_V_ticket"])
            svc = VerifyService(B(), lib, sign_service)
            out = []
            with mock.patch.object(VS.SECURITY_CODER, "decode_etsi_ts_103097_data_signed", lambda b: msgs[b.decode()]):
                for i_, mm in enumerate(order):
                    state["i"] = i_
                    try:
                        out.append(svc.verify(SNVERIFYRequest(0, b"", 10, mm.tag.encode())))
                    except Exception as e:
                        return "headerInfo" in msgs[mm.tag]["content"][1]["tbsData"], f"verify raised {type(e).__name__}: {e}"
            conf = out[-1]
            sd = msgs[m.tag]["content"][1]
            if export is not None:
                export.update(confirm=conf, signed=sd)
            asked_this = any(c[0] == ("encode_to_be_signed_data" + repr(sd["tbsData"])).encode() and c[1] == sd["signature"] and c[2] == at_d["toBeSigned"]["verifyKeyIndicator"][1]
                             for c in vcalls[-3:])
            want = bool(vals["_want"])
            got = conf.report == ReportVerify.SUCCESS
            bad = []
            if got and not (want and asked_this):
                bad.append(f"SUCCESS although the acceptance conditions are {want} / signature predicate asked on this message's (tbsData, signature, ticket key) = {asked_this}")
            if want and not got:
                bad.append(f"report {conf.report} for a message meeting every acceptance condition")
            if got and conf.plain_message != sd["tbsData"]["payload"]["data"]["content"][1]:
                bad.append("delivered payload differs from the signed one")
        return bool(bad), "; ".join(bad) or f"report {conf.report}"
    return f


# ---------------------------------------------------------------------------------------------- S2 router gating
from ..gnharness import Harness, all_vars, build_real
from .. import symgn as G
from flexstack.geonet.router import Router
from flexstack.geonet.mib import GnSecurity
from flexstack.geonet.basic_header import BasicNH


def _router_case(ctx, tag, security, L, P, with_service=True):
    """frame of L octets (all symbolic) into gn_data_indicate; the verify service answers an arbitrary report and a plain message of P symbolic octets"""
    h = Harness(8 * max(L, P) + 256, itsGnSecurity=security, geom_zero=True)
    h.add_entry("e1")
    I = h.I
    frame = G.sym_bytes("f", L)
    plain = G.sym_bytes("plain", P)
    report = I.int_var("verify_report", 0, 11)
    from ..values import EnumSym
    calls = []

    def vs(it, name, a, k, pc):
        calls.append((pc, name, a[0]))
        return Obj(SNVERIFYConfirm, dict(report=EnumSym(ReportVerify, report), certificate_id=b"", its_aid_length=0, its_aid=b"", permissions=b"", plain_message=plain))
    if with_service:
        svc = Opaque("verify_service")
        I.stubs[id(svc)] = vs
        h.Ro.fields["verify_service"] = svc
    else:
        h.Ro.fields["verify_service"] = None
    h.call(Router.gn_data_indicate, frame)
    nh = z3.Extract(3, 0, frame.bs[0])
    table = [c for c, n, a in h.table_calls if n.startswith("new_")]
    effect = z3.Or(h.any_indication(), h.any_send(), *table)
    verified = z3.Or(*[c for c, n, a in calls]) if calls else FALSE
    vars_ = all_vars(h)
    vars_["frame"] = frame
    vars_["plain"] = plain
    vars_["verify_report"] = report

    def replay(vals):
        from unittest import mock
        R, ll, got, patches = build_real(h, vals)
        asked = []

        class VSvc:
            def verify(self, req):
                asked.append(req.message)
                return SNVERIFYConfirm(report=ReportVerify(vals["verify_report"]), certificate_id=b"", its_aid_length=0, its_aid=b"", permissions=b"",
                                       plain_message=vals["plain"])
        R.verify_service = VSvc() if with_service else None
        err = None
        with patches:
            try:
                R.gn_data_indicate(vals["frame"])
            except Exception as e:
                err = e
        f0 = vals["frame"][0] & 0x0F
        eff = bool(got or ll.sent or R.location_table.calls)
        bad = []
        ok = with_service and f0 == BasicNH.SECURED_PACKET.value and vals["verify_report"] == 0 and asked == [vals["frame"][4:]]
        if security == GnSecurity.ENABLED and eff and not ok:
            bad.append(f"security enabled: frame with NH={f0} had an effect (indications {len(got)}, sent {len(ll.sent)}, table {R.location_table.calls}) although verification = "
                       f"{'not asked' if not asked else ReportVerify(vals['verify_report']).name}")
        if f0 == BasicNH.SECURED_PACKET.value and eff and not ok:
            bad.append(f"secured packet had an effect without successful verification (report {ReportVerify(vals['verify_report']).name}, service present={with_service})")
        for g_ in got:
            if ok and bytes(g_.data) not in vals["plain"]:
                bad.append("delivered payload is not taken from the verified plain message")
        return bool(bad), f"{tag}: " + ("; ".join(bad) or f"effect={eff}, error={err!r}")
    ctx.witness(f"{tag}-reach-delivery", I, h.any_indication(), vars=vars_) if (with_service) else ctx.witness(f"{tag}-reach", I, TRUE, vars=vars_)
    ok = z3.And(nh == BasicNH.SECURED_PACKET.value, verified, report == 0)
    if security == GnSecurity.ENABLED:
        ctx.prove(f"{tag}-no-effect-unless-verified", I, z3.And(effect, z3.Not(ok)), vars=vars_, replay=replay,
                  desc="with itsGnSecurity ENABLED nothing is delivered, forwarded or learnt unless the packet is a secured packet whose verification reported SUCCESS (NH = common or any: dropped)")
    ctx.prove(f"{tag}-secured-packet-needs-success", I, z3.And(nh == BasicNH.SECURED_PACKET.value, effect, z3.Not(ok)), vars=vars_, replay=replay,
              desc="a secured packet has no effect unless a verify service is configured and reports SUCCESS")
    # what is verified is the rest of this frame; what is processed afterwards is the verified plain message
    asked_bad = [z3.And(c, z3.Not(I._lb(I.equal(a.fields["message"], SBytes(frame.bs[4:]))))) for c, n, a in calls]
    ctx.prove(f"{tag}-verifies-this-frame", I, z3.Or(*asked_bad) if asked_bad else FALSE, vars=vars_, replay=replay)
    data_bad = []
    for c, ind in h.indications:
        d = ind.fields["data"]
        if isinstance(d, SBytes):
            ids = {b.get_id() for b in plain.bs}
            data_bad.append(z3.And(c, ok, z3.BoolVal(not all(x.get_id() in ids for x in d.bs if isinstance(x, z3.ExprRef)))))
    ctx.prove(f"{tag}-delivers-the-verified-plain-message", I, z3.Or(*data_bad) if data_bad else FALSE, vars=vars_, replay=replay,
              desc="the payload handed to the upper layer consists of octets of the verified plain message, not of the received frame")


@vc("C03", "S2-router-delivers-only-verified-packets")
def router_gate(ctx):
    lens = [(60, 44)] if ctx.tier == "quick" else [(60, 44), (48, 40), (80, 64), (12, 36)]
    for L, P in lens:
        _router_case(ctx, f"enabled[{L},{P}]", GnSecurity.ENABLED, L, P)
        _router_case(ctx, f"disabled[{L},{P}]", GnSecurity.DISABLED, L, P)
    _router_case(ctx, "enabled-no-verify-service", GnSecurity.ENABLED, 60, 44, with_service=False)
    ctx.bound("received frame and verified plain message of the listed lengths, all octets symbolic (every next-header value incl. ANY, every header type); verify report any of the 12 codes; "
              "security enabled and disabled; with and without a verify service")
    ctx.stub("VerifyService.verify returns an arbitrary report and plain message (its own VC: S1); location table / geometry as in C04")


# ---------------------------------------------------------------------------------------------- S3 the real ECDSA backend's front end
SIG_KINDS = ["ecdsaNistP256Signature", "ecdsaBrainpoolP256r1Signature"]
R_KINDS = ["x-only", "compressed-y-0", "compressed-y-1", "uncompressedP256"]
PK_KINDS = ["ecdsaNistP256", "ecdsaBrainpoolP256r1"]
POINT_KINDS = ["uncompressedP256", "compressed-y-0", "x-only"]


@vc("C03", "S3-ecdsa-backend-accepts-only-the-canonical-encodings")
def backend_front_end(ctx):
    """PythonECDSABackend.verify_with_pk: everything in front of the elliptic-curve library - which encodings are accepted and what exactly is
    handed to the library.  'Altered in any bit' includes the CHOICE tags of the signature and of the key: only the one canonical form may verify."""
    import ecdsa
    import hashlib
    from flexstack.security.ecdsa_backend import PythonECDSABackend
    import itertools
    for sk, rk, pkk, ptk in itertools.product(SIG_KINDS, R_KINDS, PK_KINDS, POINT_KINDS):
        canonical = (sk, rk, pkk, ptk) == ("ecdsaNistP256Signature", "x-only", "ecdsaNistP256", "uncompressedP256")
        if ctx.tier == "quick" and not canonical and sum(a != b for a, b in zip((sk, rk, pkk, ptk), ("ecdsaNistP256Signature", "x-only", "ecdsaNistP256", "uncompressedP256"))) > 1:
            continue          # quick tier: the canonical form and every form that differs from it in one CHOICE
        I = make("int")
        rb, sb, xb, yb = (G.sym_bytes(n, 32) for n in ("r", "s", "x", "y"))
        data = G.sym_bytes("d", 4)
        rval = (rk, SDict([(TRUE, "x", rb, False), (TRUE, "y", G.sym_bytes("ry", 32), False)])) if rk == "uncompressedP256" else (rk, rb)
        sig = (sk, SDict([(TRUE, "rSig", rval, False), (TRUE, "sSig", sb, False)]))
        pk = (pkk, (ptk, SDict([(TRUE, "x", xb, False), (TRUE, "y", yb, False)]) if ptk == "uncompressedP256" else xb))
        calls = []
        verdict, badsig = z3.Bool("library_says_valid"), z3.Bool("library_raises_bad_signature")
        I.stubs[ecdsa.util.sigencode_string] = lambda it, a, k, pc: ("sigstring", a[0], a[1])
        I.stubs[ecdsa.ellipticcurve.Point] = lambda it, a, k, pc: ("point", a[1], a[2])
        vk = Opaque("verifying_key")

        def vk_method(it, name, a, k, pc, vk=vk):
            calls.append((pc, k.get("signature", a[0] if a else None), k.get("data", a[1] if len(a) > 1 else None), k.get("hashfunc"), vk.point))
            it.raises.append((z3.And(pc, badsig), ecdsa.keys.BadSignatureError))
            return verdict
        I.stubs[id(vk)] = vk_method

        def from_point(it, a, k, pc, vk=vk):
            vk.point = a[0] if a else k.get("point")
            return vk
        I.stubs[ecdsa.VerifyingKey.from_public_point] = from_point
        be = Obj(PythonECDSABackend, dict(keys={}))
        res = I.call_function(PythonECDSABackend.verify_with_pk, [be, data, sig, pk])
        tag = f"{sk}/{rk}/{pkk}/{ptk}"
        value_error = cond_or(c for c, k in I.raises if k is ValueError)
        other_exc = cond_or(c for c, k in I.raises if k is not ValueError)
        returned_true = I.to_bool(res) if not isinstance(res, (Undefined,)) else FALSE
        as_int = lambda bs: I.from_bytes([bs, "big"], {}, TRUE)

        def replay(vals, sk=sk, rk=rk, pkk=pkk, ptk=ptk, canonical=canonical):
            real = PythonECDSABackend()
            kid = real.create_key()
            msg = bytes(vals.get("d", b"data")) if isinstance(vals.get("d"), (bytes, bytearray)) else b"data"
            good = real.sign(msg, kid)
            pub = real.get_public_key(kid)
            r_bytes, s_bytes = good[1]["rSig"][1], good[1]["sSig"]
            rv = (rk, {"x": r_bytes, "y": bytes(32)}) if rk == "uncompressedP256" else (rk, r_bytes)
            sg = (sk, {"rSig": rv, "sSig": s_bytes})
            if ptk == "uncompressedP256":
                key = (pkk, (ptk, pub[1][1]))
            else:
                key = (pkk, (ptk, pub[1][1]["x"]))
            out = []
            for d_, expect in ((msg, True), (msg + b"!", False)):
                try:
                    out.append(real.verify_with_pk(d_, sg, key))
                except ValueError:
                    out.append("ValueError")
                except Exception as e:          # noqa
                    out.append(repr(e))
            if canonical:
                bad = out != [True, False]
            else:
                bad = True in out
            return bad, f"real backend, genuine signature re-labelled as {sk} / rSig {rk}, key {pkk} / {ptk}: verify(original) -> {out[0]}, verify(altered data) -> {out[1]}"
        vars_ = {"library_says_valid": verdict, "library_raises_bad_signature": badsig}
        if canonical:
            ctx.witness(f"{tag}-reach-valid", I, z3.And(returned_true, z3.Not(value_error)), vars=vars_, validate=lambda v, rp=replay: not rp(v)[0], good=TRUE)
            ctx.prove(f"{tag}-canonical-form-is-not-refused", I, z3.Or(value_error, other_exc), vars=vars_, replay=replay)
            ok_call = [z3.And(c, I._lb(I.equal(sg_[1], as_int(rb))), I._lb(I.equal(sg_[2], as_int(sb))), z3.BoolVal(d_ is data), z3.BoolVal(h_ is hashlib.sha256),
                              I._lb(I.equal(pt_[1], as_int(xb))), I._lb(I.equal(pt_[2], as_int(yb)))) for c, sg_, d_, h_, pt_ in calls
                       if isinstance(sg_, tuple) and isinstance(pt_, tuple)]
            ctx.prove(f"{tag}-library-asked-about-exactly-these-octets", I, z3.Not(z3.Or(*ok_call)) if ok_call else TRUE, vars=vars_, replay=replay,
                      desc="the curve library is asked once, with r, s, x, y = the big-endian integers of the given octets, the given data and SHA-256")
            ctx.prove(f"{tag}-result-is-the-librarys-verdict", I, returned_true != z3.And(verdict, z3.Not(badsig)), vars=vars_, replay=replay)
        else:
            ctx.prove(f"{tag}-never-verifies", I, returned_true, vars=vars_, replay=replay,
                      desc="a signature or key that is not in the canonical form (NIST P-256, r as x-only, uncompressed verification key) is never reported valid")
    ctx.bound("CHOICE menus: 2 signature kinds x 4 rSig forms x 2 key kinds x 3 point forms (quick: the canonical form and its 7 one-CHOICE neighbours); octets of r, s, x, y symbolic")
    ctx.stub("ecdsa.util.sigencode_string, ecdsa.ellipticcurve.Point, VerifyingKey.from_public_point / verify are recording stubs with a free verdict "
             "(the curve arithmetic itself is outside what SMT decides here); replay: the real backend with a real key and a genuine signature re-labelled")
