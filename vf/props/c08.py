"""C08 - location table reflects the newest valid information about each station."""
import ast
import z3
from ..calls import make
from ..values import Obj, EnumSym, SBytes, Guarded, SDict, SList, UNDEF
from ..interp import TRUE, FALSE
from ..runner import vc
from .. import symgn as G

from flexstack.geonet.position_vector import TST, LongPositionVector
from flexstack.geonet.location_table import LocationTable, LocationTableEntry
from flexstack.geonet.mib import MIB
from flexstack.geonet.gn_address import GNAddress, M, ST, MID
from flexstack.geonet.exceptions import DuplicatedPacketException
from flexstack.geonet.gbc_extended_header import GBCExtendedHeader
from flexstack.geonet.tsb_extended_header import TSBExtendedHeader
from flexstack.geonet.guc_extended_header import GUCExtendedHeader
from flexstack.geonet.ls_extended_header import LSRequestExtendedHeader, LSReplyExtendedHeader
from flexstack.utils.time_service import TimeService, ITS_EPOCH, ELAPSED_SECONDS

P32 = 2 ** 32
HALF = 2 ** 31


def newer(a, b):
    """oracle (RFC 1982 style serial arithmetic on 32 bits): a is newer than b iff 0 < (a-b) mod 2^32 < 2^31"""
    d = (a - b) % P32
    return z3.And(d > 0, d < HALF)


def py_newer(a, b):
    d = (a - b) % P32
    return 0 < d < HALF


@vc("C08", "T1-tst-order")
def tst_order(ctx):
    """wrap-around order on all pairs of 32-bit timestamps"""
    I = make("int")
    a, b, c = I.int_var("a", 0, P32 - 1), I.int_var("b", 0, P32 - 1), I.int_var("c", 0, P32 - 1)
    ta, tb, tc = Obj(TST, dict(msec=a)), Obj(TST, dict(msec=b)), Obj(TST, dict(msec=c))
    op = {n: I.to_bool(I.call_function(getattr(TST, n), [ta, tb])) for n in ("__gt__", "__ge__", "__lt__", "__le__", "__eq__", "__ne__")}
    gt_ba = I.to_bool(I.call_function(TST.__gt__, [tb, ta]))
    sub = I.call_function(TST.__sub__, [ta, tb])
    vars_ = {"a": a, "b": b}
    ctx.bound("all pairs of timestamps 0..2^32-1 (two symbolic integers)")

    def real(vals):
        x, y = TST(msec=vals["a"]), TST(msec=vals["b"])
        return dict(gt=x > y, ge=x >= y, lt=x < y, le=x <= y, eq=x == y, ne=x != y, gt_ba=y > x, sub=x - y)

    def rp(pred):
        return lambda vals: (pred(vals["a"], vals["b"], real(vals)), f"TST({vals['a']}) vs TST({vals['b']}): {real(vals)}")
    ctx.witness("reach-wrap", I, z3.And(op["__gt__"], a < b), vars=vars_,
                validate=lambda v: real(v)["gt"] and v["a"] < v["b"])
    ctx.prove("irreflexive", I, z3.And(a == b, op["__gt__"]), vars=vars_, replay=rp(lambda x, y, r: x == y and r["gt"]))
    ctx.prove("antisymmetric", I, z3.And(op["__gt__"], gt_ba), vars=vars_, replay=rp(lambda x, y, r: r["gt"] and r["gt_ba"]))
    d = (a - b) % P32
    ctx.prove("total-on-distinct", I, z3.And(a != b, d != HALF, z3.Not(op["__gt__"]), z3.Not(gt_ba)), vars=vars_,
              replay=rp(lambda x, y, r: x != y and (x - y) % P32 != HALF and not r["gt"] and not r["gt_ba"]),
              desc="distinct timestamps not exactly 2^31 apart are ordered one way or the other")
    ctx.prove("agrees-with-real-time", I, z3.And(d != HALF, op["__gt__"] != newer(a, b)), vars=vars_,
              replay=rp(lambda x, y, r: (x - y) % P32 != HALF and r["gt"] != py_newer(x, y)),
              desc="a > b iff a is ahead of b by less than 2^31 ms modulo 2^32")
    ctx.prove("ge-lt-le-eq-ne-consistent", I, z3.Or(op["__ge__"] != z3.Or(op["__gt__"], a == b), op["__lt__"] != z3.Not(z3.Or(op["__gt__"], a == b)),
                                                     op["__le__"] != z3.Not(op["__gt__"]), op["__eq__"] != (a == b), op["__ne__"] != (a != b)), vars=vars_,
              replay=rp(lambda x, y, r: r["ge"] != (r["gt"] or x == y) or r["lt"] != (not (r["gt"] or x == y)) or r["le"] != (not r["gt"]) or r["eq"] != (x == y) or r["ne"] != (x != y)))
    ctx.prove("difference-mod-2^32", I, I.num(sub) != d, vars=vars_, replay=rp(lambda x, y, r: r["sub"] != (x - y) % P32),
              desc="a - b is the age modulo 2^32")
    # transitivity inside a half-window
    gt_bc = I.to_bool(I.call_function(TST.__gt__, [tb, tc]))
    gt_ac = I.to_bool(I.call_function(TST.__gt__, [ta, tc]))
    ctx.prove("transitive-within-window", I, z3.And(op["__gt__"], gt_bc, (a - c) % P32 < HALF, (a - c) % P32 > 0, z3.Not(gt_ac)),
              vars={"a": a, "b": b, "c": c},
              replay=lambda v: (TST(msec=v["a"]) > TST(msec=v["b"]) and TST(msec=v["b"]) > TST(msec=v["c"]) and 0 < (v["a"] - v["c"]) % P32 < HALF and not TST(msec=v["a"]) > TST(msec=v["c"]), str(v)))


def sym_entry(I, name, mib):
    """arbitrary LocationTableEntry state"""
    e = Obj(LocationTableEntry, dict(
        mib=mib, version=1, position_vector_lock=None, tst_lock=None, pdr_lock=None, dpl_lock=None,
        position_vector=G.sym_lpv(I, name + "_pv"), ls_pending=z3.Bool(name + "_lsp"), is_neighbour=z3.Bool(name + "_nb"),
        tst=Obj(TST, dict(msec=I.int_var(name + "_etst", 0, P32 - 1))), pdr=z3.Real(name + "_pdr"),
        dpl_set=SDict(is_set=True), dpl_deque=SList(maxlen=mib.itsGnDPLLength)))
    I.assumptions.append(e.fields["pdr"] >= 0)
    return e


def conc_entry(e, vals, mib):
    r = LocationTableEntry(mib)
    r.position_vector = G.concretize(e.fields["position_vector"], vals)
    r.is_neighbour = bool(G.concretize(e.fields["is_neighbour"], vals))
    r.ls_pending = bool(G.concretize(e.fields["ls_pending"], vals))
    r.tst = G.concretize(e.fields["tst"], vals)
    r.pdr = float(G.concretize(e.fields["pdr"], vals))
    return r


def _lpv_eq(I, a, b):
    return I._lb(I.equal(a, b))


def _same_pv(I, a, b):
    """field-wise identity of two symbolic LPVs (stronger than LongPositionVector.__eq__ on the address)"""
    if isinstance(a, Guarded):
        return z3.Or(*[z3.And(c, _same_pv(I, x, b)) for c, x in a.alts if isinstance(x, (Obj, LongPositionVector))])
    if isinstance(b, Guarded):
        return z3.Or(*[z3.And(c, _same_pv(I, a, x)) for c, x in b.alts if isinstance(x, (Obj, LongPositionVector))])
    if not isinstance(a, Obj):
        a = I.lift_value(a)
    if not isinstance(b, Obj):
        b = I.lift_value(b)
    fs = ["latitude", "longitude", "pai", "s", "h"]
    cs = [I._lb(I.equal(a.fields[f], b.fields[f])) for f in fs]
    ta, tb = a.fields["tst"], b.fields["tst"]
    cs.append(I._lb(I.equal(ta.fields["msec"] if isinstance(ta, Obj) else ta.msec, tb.fields["msec"] if isinstance(tb, Obj) else tb.msec)))
    return z3.And(*cs)


def is_empty_pv(I, pv):
    """the default LongPositionVector() an entry holds before any PV of the station was received"""
    cs = [pv.fields["tst"].fields["msec"] == 0, pv.fields["latitude"] == 0, pv.fields["longitude"] == 0, pv.fields["s"] == 0,
          pv.fields["h"] == 0, z3.Not(I.to_bool(pv.fields["pai"]))]
    a = pv.fields["gn_addr"]
    mid = a.fields["mid"].fields["mid"] if isinstance(a, Obj) else a.mid.mid
    cs.append(I._lb(I.equal(mid, b"\x00" * 6)))
    return z3.And(*cs)


def py_empty_pv(pv):
    return (pv.tst.msec, pv.latitude, pv.longitude, pv.s, pv.h, pv.pai, pv.gn_addr.mid.mid) == (0, 0, 0, 0, 0, False, b"\x00" * 6)


@vc("C08", "T2-update-position-vector")
def update_pv(ctx):
    """stored PV after update_position_vector = the newer one by timestamp"""
    I = make("int")
    mib = MIB()
    e = sym_entry(I, "e", mib)
    old = e.fields["position_vector"]
    new = G.sym_lpv(I, "n")
    I.call_function(LocationTableEntry.update_position_vector, [e, new])
    after = e.fields["position_vector"]
    o, n = old.fields["tst"].fields["msec"], new.fields["tst"].fields["msec"]
    vars_ = G.vars_of(I, old, new)
    dontcare = (n - o) % P32 == HALF
    ctx.bound("arbitrary stored and incoming position vectors (all fields symbolic, timestamps 0..2^32-1); a difference of exactly 2^31 ms is outside the claim; "
              "a stored PV equal to the all-zero default LongPositionVector() counts as 'nothing received yet'")

    def run(vals):
        ent = LocationTableEntry(mib)
        ent.position_vector = G.concretize(old, vals)
        npv = G.concretize(new, vals)
        ent.update_position_vector(npv)
        return ent.position_vector, G.concretize(old, vals), npv

    def replay(vals):
        got, opv, npv = run(vals)
        want = npv if (py_newer(npv.tst.msec, opv.tst.msec) or py_empty_pv(opv)) else opv
        bad = (got.tst.msec, got.latitude, got.longitude, got.s, got.h, got.pai) != (want.tst.msec, want.latitude, want.longitude, want.s, want.h, want.pai)
        return bad, f"stored tst={opv.tst.msec}, incoming tst={npv.tst.msec} -> kept tst={got.tst.msec} lat={got.latitude}; the newer one is tst={want.tst.msec} lat={want.latitude}"
    ctx.witness("reach-replace", I, z3.And(newer(n, o), _same_pv(I, after, new)), vars=vars_, validate=lambda v: not replay(v)[0])
    ctx.prove("newer-replaces", I, z3.And(z3.Not(dontcare), newer(n, o), z3.Not(_same_pv(I, after, new))), vars=vars_, replay=replay,
              desc="an incoming PV with a newer timestamp becomes the stored PV")
    ctx.prove("first-pv-fills-empty-entry", I, z3.And(is_empty_pv(I, old), z3.Not(_same_pv(I, after, new))), vars=vars_, replay=replay,
              desc="an entry still holding the default (empty) PV takes the first received PV")
    ctx.prove("older-or-equal-never-replaces", I, z3.And(z3.Not(dontcare), z3.Not(is_empty_pv(I, old)), z3.Not(newer(n, o)), z3.Not(_same_pv(I, after, old))), vars=vars_, replay=replay,
              desc="an incoming PV whose timestamp is equal or older leaves the stored PV untouched")


def time_stub(I, name="now"):
    now = I.float_var(name, ITS_EPOCH + 1, ITS_EPOCH + 40 * 365 * 86400)
    I.stubs[TimeService.time] = lambda it, a, k, pc: now
    return now


def clock_ms(now_int):
    return ((now_int - ITS_EPOCH + ELAPSED_SECONDS) * 1000) % P32


@vc("C08", "T3-expiry")
def expiry(ctx):
    """refresh_table keeps an entry iff its PV timestamp is at most itsGnLifetimeLocTE old, including
    timestamps slightly ahead of the receiver's (second-truncated) clock"""
    I = make("int")
    mib = MIB()
    now = time_stub(I)
    tbl = LocationTable(mib)
    T = I.lift(tbl)
    e1, e2 = sym_entry(I, "e1", mib), sym_entry(I, "e2", mib)
    a1, a2 = e1.fields["position_vector"].fields["gn_addr"], e2.fields["position_vector"].fields["gn_addr"]
    I.assumptions.append(z3.Not(I._lb(I.equal(a1, a2))))
    T.fields["loc_t"] = SDict([(TRUE, a1, e1, False), (TRUE, a2, e2, False)])
    I.call_function(LocationTable.refresh_table, [T])
    after = T.fields["loc_t"]
    kept1 = I._lb(I.sdict_lookup(after, a1)[0])
    kept2 = I._lb(I.sdict_lookup(after, a2)[0])
    nowi = z3.ToInt(now)
    cur = clock_ms(nowi)
    t1 = e1.fields["position_vector"].fields["tst"].fields["msec"]
    age = (cur - t1) % P32
    life = mib.itsGnLifetimeLocTE * 1000
    skew = 5000           # "slightly ahead": up to a few seconds
    ahead = (t1 - cur) % P32
    vars_ = G.vars_of(I, e1, e2)
    vars_["now"] = now
    ctx.bound(f"table of two arbitrary entries, arbitrary clock 2004..2044, lifetime {life} ms; 'slightly ahead' = up to {skew} ms")
    ctx.stub("TimeService.time returns an arbitrary real instant")

    def run(vals):
        from unittest import mock
        t = LocationTable(mib)
        r1, r2 = conc_entry(e1, vals, mib), conc_entry(e2, vals, mib)
        t.loc_t = {r1.position_vector.gn_addr: r1, r2.position_vector.gn_addr: r2}
        with mock.patch.object(TimeService, "time", staticmethod(lambda: vals["now"])):
            t.refresh_table()
        return r1.position_vector.gn_addr in t.loc_t, r1

    def replay(vals):
        kept, r1 = run(vals)
        c = ((int(vals["now"]) - ITS_EPOCH + ELAPSED_SECONDS) * 1000) % P32
        ag, ah = (c - r1.position_vector.tst.msec) % P32, (r1.position_vector.tst.msec - c) % P32
        should = ag <= life or ah <= skew
        must_go = life < ag < HALF
        return (should and not kept) or (must_go and kept), f"clock={c} ms (now={vals['now']}), entry PV tst={r1.position_vector.tst.msec}: age={ag} ms, ahead={ah} ms -> kept={kept}"
    ctx.witness("reach-kept", I, z3.And(kept1, age > 0, age < life), vars=vars_, validate=lambda v: run(v)[0])
    ctx.witness("reach-expired", I, z3.And(z3.Not(kept1), age > life, age < HALF), vars=vars_, validate=lambda v: not run(v)[0])
    ctx.prove("fresh-entry-kept", I, z3.And(age <= life, z3.Not(kept1)), vars=vars_, replay=replay,
              desc="an entry whose PV timestamp is at most the lifetime old survives refresh_table")
    ctx.prove("entry-ahead-of-clock-kept", I, z3.And(ahead <= skew, z3.Not(kept1)), vars=vars_, replay=replay,
              desc="an entry stamped up to a few seconds ahead of the receiver's truncated clock survives")
    ctx.prove("stale-entry-removed", I, z3.And(age > life, age < HALF, kept1), vars=vars_, replay=replay,
              desc="an entry older than the lifetime is removed")


KINDS = {
    "shb": ("new_shb_packet", None),
    "tsb": ("new_tsb_packet", G.sym_tsb),
    "gbc": ("new_gbc_packet", G.sym_gbc),
    "gac": ("new_gac_packet", G.sym_gbc),
    "guc": ("new_guc_packet", G.sym_guc),
    "lsreq": ("new_ls_request_packet", G.sym_lsreq),
    "lsrep": ("new_ls_reply_packet", lambda I, n: G.sym_guc(I, n, cls=LSReplyExtendedHeader)),
}


def _packet_vc(ctx, kind):
    """one processed packet of `kind` from source S against a table that may or may not know S"""
    meth_name, mk = KINDS[kind]
    I = make("int")
    mib = MIB()
    now = time_stub(I)
    tbl = LocationTable(mib)
    T = I.lift(tbl)
    known = z3.Bool("S_known")
    e = sym_entry(I, "e", mib)
    if mk is None:
        pv = G.sym_lpv(I, "p")
        args = [pv, G.sym_bytes("pl", 3)]
    else:
        hdr = mk(I, "hd")
        pv = hdr.fields["so_pv"]
        args = [hdr, G.sym_bytes("pl", 3)]
    # the entry of S, when present, is stored under S's address
    e.fields["position_vector"].fields["gn_addr"] = pv.fields["gn_addr"]
    other = sym_entry(I, "o", mib)
    I.assumptions.append(z3.Not(I._lb(I.equal(other.fields["position_vector"].fields["gn_addr"], pv.fields["gn_addr"]))))
    T.fields["loc_t"] = SDict([(known, pv.fields["gn_addr"], e, False), (TRUE, other.fields["position_vector"].fields["gn_addr"], other, False)])
    old_nb = e.fields["is_neighbour"]
    old_pv = e.fields["position_vector"]
    o_nb0, o_pv0 = other.fields["is_neighbour"], other.fields["position_vector"]
    e_init, other_init = Obj(e.cls, dict(e.fields)), Obj(other.cls, dict(other.fields))     # pre-state snapshots
    # the packet is fresh enough and S's stored PV too, so that expiry does not interfere with this VC
    cur = clock_ms(z3.ToInt(now))
    life = mib.itsGnLifetimeLocTE * 1000
    n = pv.fields["tst"].fields["msec"]
    o = old_pv.fields["tst"].fields["msec"]
    fresh = z3.And((cur - n) % P32 <= life, z3.Or(z3.Not(known), (cur - o) % P32 <= life),
                   (cur - other.fields["position_vector"].fields["tst"].fields["msec"]) % P32 <= life)
    n0 = len(I.raises)
    I.call_function(getattr(LocationTable, meth_name), [T] + args)
    dup = z3.Or(*[c for c, k in I.raises[n0:] if k is DuplicatedPacketException]) if [1 for c, k in I.raises[n0:] if k is DuplicatedPacketException] else FALSE
    other_exc = z3.Or(*[c for c, k in I.raises[n0:] if k is not DuplicatedPacketException]) if [1 for c, k in I.raises[n0:] if k is not DuplicatedPacketException] else FALSE
    after = T.fields["loc_t"]
    found, ent = I.sdict_lookup(after, pv.fields["gn_addr"])
    found = I._lb(found)
    vars_ = G.vars_of(I, e_init, other_init, *args)
    vars_.update({"S_known": known, "now": now})
    ctx.bound(f"{kind}: arbitrary packet header/PV from S, S known or unknown with arbitrary entry state, one other arbitrary entry, arbitrary clock; "
              "packet and stored timestamps within the entry lifetime (expiry is T3)")
    ctx.stub("TimeService.time returns an arbitrary real instant; duplicate-packet list starts empty")

    def pick(fn):
        """apply fn to the entry object(s) found for S after the call -> z3 Bool"""
        if isinstance(ent, Guarded):
            return z3.Or(*[z3.And(c, fn(x)) for c, x in ent.alts if isinstance(x, Obj)])
        return fn(ent)

    def run(vals):
        from unittest import mock
        t = LocationTable(mib)
        ro = conc_entry(other_init, vals, mib)
        t.loc_t = {ro.position_vector.gn_addr: ro}
        r = None
        if vals["S_known"]:
            r = conc_entry(e_init, vals, mib)
            t.loc_t[r.position_vector.gn_addr] = r
        cargs = [G.concretize(a, vals) for a in args]
        with mock.patch.object(TimeService, "time", staticmethod(lambda: vals["now"])):
            try:
                getattr(t, meth_name)(*cargs)
                err = None
            except Exception as ex:
                err = ex
        spv = cargs[0] if mk is None else cargs[0].so_pv
        return t, r, ro, spv, err

    def replay(vals):
        t, r, ro, spv, err = run(vals)
        ent_after = t.loc_t.get(spv.gn_addr)
        known_v = vals["S_known"]
        msgs = []
        if err is not None and not isinstance(err, DuplicatedPacketException):
            msgs.append(f"raised {err!r}")
        if ent_after is None:
            msgs.append("S is not in the table after its packet was processed")
        else:
            old_t = G.concretize(old_pv, vals) if known_v else None
            want = spv if (not known_v or py_newer(spv.tst.msec, old_t.tst.msec) or py_empty_pv(old_t)) else old_t
            if (ent_after.position_vector.tst.msec, ent_after.position_vector.latitude) != (want.tst.msec, want.latitude) and \
                    (not known_v or (spv.tst.msec - old_t.tst.msec) % P32 != HALF):
                msgs.append(f"stored PV tst={ent_after.position_vector.tst.msec} but the newest received is tst={want.tst.msec}")
            nb_old = bool(G.concretize(old_nb, vals)) if known_v else False
            want_nb = True if kind == "shb" else nb_old
            if ent_after.is_neighbour != want_nb:
                msgs.append(f"neighbour flag {ent_after.is_neighbour}, expected {want_nb} (was {nb_old if known_v else 'no entry'}, packet kind {kind})")
        ro_after = t.loc_t.get(ro.position_vector.gn_addr)
        if ro_after is None or ro_after.is_neighbour != bool(G.concretize(o_nb0, vals)):
            msgs.append("the entry of another station changed")
        return bool(msgs), f"{kind} packet from S (known={known_v}): " + "; ".join(msgs)
    ok = z3.And(fresh, z3.Not(dup))
    ctx.witness(f"{kind}-reach", I, z3.And(ok, found, known), vars=vars_, validate=lambda v: not replay(v)[0])
    ctx.prove(f"{kind}-no-unexpected-exception", I, z3.And(fresh, other_exc), vars=vars_, replay=replay)
    ctx.prove(f"{kind}-source-present-afterwards", I, z3.And(ok, z3.Not(found)), vars=vars_, replay=replay,
              desc="after processing a valid packet from S, S is in the location table")
    newest = z3.If(z3.Or(z3.Not(known), newer(n, o)), TRUE, FALSE)
    dontcare = z3.And(known, (n - o) % P32 == HALF)
    ctx.prove(f"{kind}-newest-pv-stored", I, z3.And(ok, found, z3.Not(dontcare),
                                                   z3.Not(pick(lambda x: z3.If(z3.Or(z3.Not(known), newer(n, o), is_empty_pv(I, old_pv)), _same_pv(I, x.fields["position_vector"], pv),
                                                                               _same_pv(I, x.fields["position_vector"], old_pv))))),
              vars=vars_, replay=replay, desc="the stored PV is the most recent one by timestamp (older/equal never replaces newer)")
    if kind == "shb":
        want_nb = lambda x: I.to_bool(x.fields["is_neighbour"])
    else:
        want_nb = lambda x: I.to_bool(x.fields["is_neighbour"]) == z3.And(known, I.to_bool(old_nb))
    ctx.prove(f"{kind}-neighbour-flag", I, z3.And(ok, found, z3.Not(pick(want_nb))), vars=vars_, replay=replay,
              desc="beacon/SHB sets the neighbour flag; a multi-hop packet leaves it unchanged on a known entry and false on a new one")
    f2, ent2 = I.sdict_lookup(after, other.fields["position_vector"].fields["gn_addr"])
    same_other = z3.And(I._lb(f2), other.fields["is_neighbour"] == o_nb0, _same_pv(I, other.fields["position_vector"], o_pv0))
    ctx.prove(f"{kind}-other-entries-untouched", I, z3.And(ok, z3.Not(same_other)), vars=vars_, replay=replay)


def _mk_packet_vc(kind):
    @vc("C08", f"T4-packet-{kind}")
    def f(ctx):
        _packet_vc(ctx, kind)
    return f


for _k in KINDS:
    _mk_packet_vc(_k)


@vc("C08", "T5-own-address-never-entered")
def own_address(ctx):
    """Router.gn_data_indicate on a fully symbolic frame whose source address is the station's own: no handler reaches a location-table update"""
    from .c04 import _trace_vc
    for L in ((60,) if ctx.tier == "quick" else (40, 48, 60, 68)):
        _trace_vc(ctx, L, own_table_only=True)
    ctx.stub("as C04 R3: symbolic location table that records its calls, free geometry, recorded timers")


@vc("C08", "T6-get-neighbours")
def neighbours(ctx):
    I = make("int")
    mib = MIB()
    tbl = LocationTable(mib)
    T = I.lift(tbl)
    es = [sym_entry(I, f"e{i}", mib) for i in range(3)]
    pres = [z3.Bool(f"present{i}") for i in range(3)]
    for i in range(3):
        for j in range(i):
            I.assumptions.append(z3.Not(I._lb(I.equal(es[i].fields["position_vector"].fields["gn_addr"], es[j].fields["position_vector"].fields["gn_addr"]))))
    T.fields["loc_t"] = SDict([(p, e.fields["position_vector"].fields["gn_addr"], e, False) for p, e in zip(pres, es)])
    res = I.call_function(LocationTable.get_neighbours, [T])
    vars_ = G.vars_of(I, *es)
    vars_.update({p.decl().name(): p for p in pres})
    bad = []
    for p, e in zip(pres, es):
        inres = z3.Or(*[z3.And(c, x is e) for c, x in res.items]) if res.items else FALSE
        bad.append(inres != z3.And(p, I.to_bool(e.fields["is_neighbour"])))

    def replay(vals):
        t = LocationTable(mib)
        rs = []
        for p, e in zip(pres, es):
            if vals[p.decl().name()]:
                r = conc_entry(e, vals, mib)
                t.loc_t[r.position_vector.gn_addr] = r
                rs.append(r)
        got = t.get_neighbours()
        want = [r for r in rs if r.is_neighbour]
        return sorted(map(id, got)) != sorted(map(id, want)), f"get_neighbours returned {len(got)} entries, {len(want)} carry the flag"
    ctx.witness("reach", I, z3.And(pres[0], es[0].fields["is_neighbour"], z3.Not(es[1].fields["is_neighbour"]), pres[1]), vars=vars_,
                validate=lambda v: not replay(v)[0])
    ctx.prove("neighbours-are-exactly-flagged-entries", I, z3.Or(*bad), vars=vars_, replay=replay)
    ctx.bound("table of up to three arbitrary entries with symbolic presence")
