"""C19 - DCC algorithms respect TS 102 687 state, rate and duty-cycle limits."""
import fractions
import z3
from ..calls import make
from ..values import Obj, EnumSym, Guarded, UNDEF
from ..interp import TRUE, FALSE
from ..runner import vc

from flexstack.management.dcc_reactive import DccReactive, DccState, DccReactiveOutput
from flexstack.management.dcc_adaptive import DccAdaptive, DccAdaptiveParameters, GateKeeper


def R(x):
    fr = fractions.Fraction(x)
    return z3.RealVal(f"{fr.numerator}/{fr.denominator}")


# TS 102 687 V1.2.1 Annex A (typed in from the standard): upper CBR bound of each state, packet rate (Hz), T_off (ms)
ANNEX_A = {
    "A1": [(0.30, 10.0, 100.0), (0.40, 5.0, 200.0), (0.50, 2.5, 400.0), (0.60, 2.0, 500.0), (None, 1.0, 1000.0)],
    "A2": [(0.30, 20.0, 50.0), (0.40, 10.0, 100.0), (0.50, 5.0, 200.0), (0.65, 4.0, 250.0), (None, 1.0, 1000.0)],
}


def band(cbr, table):
    """index of the state whose CBR band contains cbr (z3 Int)"""
    res = z3.IntVal(4)
    for i in range(3, -1, -1):
        res = z3.If(cbr < R(ANNEX_A[table][i][0]), i, res)
    return res


def py_band(cbr, table):
    for i in range(4):
        if cbr < ANNEX_A[table][i][0]:
            return i
    return 4


def _reactive(ctx, table, t_on):
    I = make("int")
    real = DccReactive(t_on_max_us=t_on)
    s0 = I.int_var("state", 0, 4)
    cbr = I.float_var("cbr")
    o = I.lift(real)
    o.fields["state"] = EnumSym(DccState, s0)
    outs, states = [], []
    n0 = len(I.raises)
    for k in range(4):
        out = I.call_function(DccReactive.update, [o, cbr])
        outs.append(out)
        states.append(o.fields["state"].val if isinstance(o.fields["state"], EnumSym) else z3.IntVal(o.fields["state"].value))
    inr = z3.And(cbr >= 0, cbr <= 1)
    exc = z3.Or(*[c for c, k in I.raises[n0:]]) if I.raises[n0:] else FALSE
    verr = z3.Or(*[c for c, k in I.raises[n0:] if k is ValueError]) if [1 for c, k in I.raises[n0:] if k is ValueError] else FALSE
    tgt = band(cbr, table)
    vars_ = {"state": s0, "cbr": cbr}
    tag = f"{table}"
    ctx.bound(f"reactive DCC, table {table} (t_on_max_us={t_on}): arbitrary current state 0..4 and arbitrary real CBR; four consecutive evaluations with a constant CBR; "
              "float literals of the code taken as exact rationals (claim about the real-valued algorithm)")

    def run(vals):
        r = DccReactive(t_on_max_us=t_on)
        r.state = DccState(vals["state"])
        res = []
        for _ in range(4):
            try:
                o_ = r.update(vals["cbr"])
                res.append((o_.state.value, o_.packet_rate_hz, o_.t_off_ms, r.state.value))
            except ValueError:
                res.append("ValueError")
        return res

    def replay(vals):
        res = run(vals)
        c = vals["cbr"]
        msgs = []
        if not (0 <= c <= 1):
            if any(x != "ValueError" for x in res):
                msgs.append(f"CBR {c} outside [0,1] accepted")
            return bool(msgs), f"{tag}: " + "; ".join(msgs)
        if "ValueError" in res:
            return True, f"{tag}: CBR {c} in [0,1] rejected"
        t = py_band(c, table)
        prev = vals["state"]
        for i, (st, rate, toff, stored) in enumerate(res):
            want = prev + (1 if t > prev else -1 if t < prev else 0)
            if st != want or stored != st:
                msgs.append(f"evaluation {i + 1}: state {prev}->{st} (band of CBR {c} is {t}, expected {want})")
            if (rate, toff) != ANNEX_A[table][st][1:]:
                msgs.append(f"evaluation {i + 1}: state {st} outputs rate {rate} Hz, T_off {toff} ms; Annex A says {ANNEX_A[table][st][1:]}")
            prev = st
        if res[-1][0] != t:
            msgs.append(f"after four evaluations at CBR {c} the state is {res[-1][0]}, band state is {t}")
        return bool(msgs), f"{tag}: start state {vals['state']}: " + "; ".join(msgs)
    ctx.witness(f"{tag}-reach-move", I, z3.And(inr, states[0] != s0), vars=vars_, validate=lambda v: not replay(v)[0])
    ctx.prove(f"{tag}-cbr-outside-[0,1]-rejected", I, z3.And(z3.Not(inr), z3.Not(verr)), vars=vars_, replay=replay)
    ctx.prove(f"{tag}-no-exception-inside-[0,1]", I, z3.And(inr, exc), vars=vars_, replay=replay)
    prev = s0
    for k in range(4):
        st = states[k]
        step = z3.If(tgt > prev, prev + 1, z3.If(tgt < prev, prev - 1, prev))
        ctx.prove(f"{tag}-eval{k + 1}-one-step-towards-band", I, z3.And(inr, st != step), vars=vars_, replay=replay,
                  desc="the state index changes by at most one per evaluation, towards the state whose band holds the CBR")
        out = outs[k]
        rows = z3.Or(*[z3.And(st == i, z3.Or(I.to_float(out.fields["packet_rate_hz"]) != R(ANNEX_A[table][i][1]),
                                            I.to_float(out.fields["t_off_ms"]) != R(ANNEX_A[table][i][2]),
                                            out.fields["state"].val != i)) for i in range(5)])
        ctx.prove(f"{tag}-eval{k + 1}-outputs-annex-A-row", I, z3.And(inr, rows), vars=vars_, replay=replay,
                  desc="packet rate and T_off are those of the (new) state in Annex A")
        prev = st
    ctx.prove(f"{tag}-band-state-reached-within-four", I, z3.And(inr, states[3] != tgt), vars=vars_, replay=replay,
              desc="a constant CBR brings the machine into the band's state within four evaluations")


@vc("C19", "B1-reactive-table-A1")
def reactive_a1(ctx):
    _reactive(ctx, "A1", 1000)


@vc("C19", "B1-reactive-table-A2")
def reactive_a2(ctx):
    _reactive(ctx, "A2", 500)


def _adaptive(ctx, use_global, sym_params):
    I = make("int")
    if sym_params:
        pv = dict(alpha=I.float_var("alpha", 0.0, 1.0), beta=I.float_var("beta", 0.0, 1.0), cbr_target=I.float_var("cbr_target", 0.0, 1.0),
                  delta_max=I.float_var("delta_max", 0.0, 1.0), delta_min=I.float_var("delta_min", 0.0, 1.0),
                  delta_up_max=I.float_var("delta_up_max", 0.0, 1.0), delta_down_max=I.float_var("delta_down_max", -1.0, 0.0))
        I.assumptions.append(pv["delta_min"] <= pv["delta_max"])
        conc = None
    else:
        conc = DccAdaptiveParameters()
        pv = {k: R(getattr(conc, k)) for k in ("alpha", "beta", "cbr_target", "delta_max", "delta_min", "delta_up_max", "delta_down_max")}
    params = Obj(DccAdaptiveParameters, dict(pv))
    its0 = I.float_var("cbr_its_s", 0.0, 1.0)
    d0 = I.float_var("delta", -1.0, 2.0)
    o = Obj(DccAdaptive, dict(parameters=params, cbr_its_s=its0, delta=d0))
    l0, l1 = I.float_var("cbr_local"), I.float_var("cbr_local_prev")
    g0, g1 = I.float_var("cbr_global", 0.0, 1.0), I.float_var("cbr_global_prev", 0.0, 1.0)
    args = [l0, l1] + ([g0, g1] if use_global == "both" else [g0, None] if use_global == "one" else [None, None])
    n0 = len(I.raises)
    ret = I.call_function(DccAdaptive.update, [o] + args)
    verr = z3.Or(*[c for c, k in I.raises[n0:] if k is ValueError]) if [1 for c, k in I.raises[n0:] if k is ValueError] else FALSE
    exc = z3.Or(*[c for c, k in I.raises[n0:]]) if I.raises[n0:] else FALSE
    inr = z3.And(l0 >= 0, l0 <= 1, l1 >= 0, l1 <= 1)
    # clause 5.4 (typed in from TS 102 687 V1.2.1), steps 1-5
    avg = (g0 + g1) / 2 if use_global == "both" else (l0 + l1) / 2
    its = R(0.5) * its0 + R(0.5) * avg
    diff = pv["cbr_target"] - its
    up = pv["beta"] * diff
    off = z3.If(diff > 0, z3.If(up < pv["delta_up_max"], up, pv["delta_up_max"]), z3.If(up > pv["delta_down_max"], up, pv["delta_down_max"]))
    dn = (1 - pv["alpha"]) * d0 + off
    dn = z3.If(dn > pv["delta_max"], pv["delta_max"], dn)
    dn = z3.If(dn < pv["delta_min"], pv["delta_min"], dn)
    vars_ = {"cbr_its_s": its0, "delta": d0, "cbr_local": l0, "cbr_local_prev": l1, "cbr_global": g0, "cbr_global_prev": g1}
    if sym_params:
        vars_.update(pv)
    tag = f"adaptive[global={use_global},{'symbolic' if sym_params else 'default'}-params]"
    ctx.bound(f"{tag}: arbitrary stored CBR_ITS-S in [0,1], arbitrary stored delta, arbitrary real CBR inputs; "
              + ("all seven parameters symbolic with delta_min <= delta_max" if sym_params else "default parameter set") + "; real arithmetic")

    def mk(vals):
        p = DccAdaptiveParameters(**{k: vals[k] for k in pv}) if sym_params else DccAdaptiveParameters()
        a = DccAdaptive(parameters=p)
        a.cbr_its_s, a.delta = vals["cbr_its_s"], vals["delta"]
        cargs = [vals["cbr_local"], vals["cbr_local_prev"]] + ([vals["cbr_global"], vals["cbr_global_prev"]] if use_global == "both" else [vals["cbr_global"], None] if use_global == "one" else [None, None])
        return a, p, cargs

    def ref(vals, p):
        avg_ = (vals["cbr_global"] + vals["cbr_global_prev"]) / 2 if use_global == "both" else (vals["cbr_local"] + vals["cbr_local_prev"]) / 2
        its_ = 0.5 * vals["cbr_its_s"] + 0.5 * avg_
        df = p.cbr_target - its_
        of = min(p.beta * df, p.delta_up_max) if df > 0 else max(p.beta * df, p.delta_down_max)
        d = (1 - p.alpha) * vals["delta"] + of
        d = p.delta_max if d > p.delta_max else d
        d = p.delta_min if d < p.delta_min else d
        return d, its_

    def replay(vals):
        a, p, cargs = mk(vals)
        ok_in = 0 <= vals["cbr_local"] <= 1 and 0 <= vals["cbr_local_prev"] <= 1
        try:
            r = a.update(*cargs)
        except ValueError:
            return ok_in, f"{tag}: ValueError for local CBR {cargs[:2]}"
        if not ok_in:
            return True, f"{tag}: local CBR {cargs[:2]} outside [0,1] accepted"
        want, its_ = ref(vals, p)
        tol = 1e-12
        msgs = []
        if abs(r - want) > tol:
            msgs.append(f"returned delta {r}, clause 5.4 gives {want}")
        if abs(a.delta - r) > tol:
            msgs.append(f"stored delta {a.delta} differs from the returned {r}")
        if abs(a.cbr_its_s - its_) > tol:
            msgs.append(f"stored CBR_ITS-S {a.cbr_its_s}, clause 5.4 step 1 gives {its_}")
        if p.delta_min <= p.delta_max and not (p.delta_min - tol <= a.delta <= p.delta_max + tol):
            msgs.append(f"stored delta {a.delta} outside [{p.delta_min},{p.delta_max}]")
        return bool(msgs), f"{tag}: " + "; ".join(msgs)
    ok = z3.And(inr, z3.Not(exc))
    ctx.witness(f"{tag}-reach", I, z3.And(ok, ret > pv["delta_min"], ret < pv["delta_max"]), vars=vars_, validate=lambda v: not replay(v)[0])
    ctx.prove(f"{tag}-local-cbr-outside-[0,1]-rejected", I, z3.And(z3.Not(inr), z3.Not(verr)), vars=vars_, replay=replay)
    ctx.prove(f"{tag}-no-exception-inside", I, z3.And(inr, exc), vars=vars_, replay=replay)
    ctx.prove(f"{tag}-delta-is-clause-5.4", I, z3.And(ok, I.to_float(ret) != dn), vars=vars_, replay=replay,
              desc="returned delta equals steps 1-5 of clause 5.4")
    ctx.prove(f"{tag}-stored-state", I, z3.And(ok, z3.Or(I.to_float(o.fields["delta"]) != I.to_float(ret), I.to_float(o.fields["cbr_its_s"]) != its)), vars=vars_, replay=replay,
              desc="the stored delta is the returned (clamped) one and CBR_ITS-S is the step-1 average")
    ctx.prove(f"{tag}-delta-within-[min,max]", I, z3.And(ok, z3.Or(I.to_float(o.fields["delta"]) < pv["delta_min"], I.to_float(o.fields["delta"]) > pv["delta_max"])),
              vars=vars_, replay=replay)


@vc("C19", "B2-adaptive")
def adaptive(ctx):
    for ug in ("none", "both", "one"):
        _adaptive(ctx, ug, False)
    if ctx.tier == "thorough":
        for ug in ("none", "both"):
            _adaptive(ctx, ug, True)


# ------------------------------------------------------------------------------------------------ gate keeper
MIN_I, MAX_I = 0.025, 1.0


def fne(I, v, expected):
    """stored float field v differs from the expected real term (Guarded/None aware)"""
    if isinstance(v, Guarded):
        return z3.Not(z3.Or(*[z3.And(c, z3.Not(fne(I, x, expected))) for c, x in v.alts]))
    if v is None or v is UNDEF:
        return TRUE
    return I.to_float(v) != expected


def fcmp(I, v, fn):
    """fn(real term) holds for the stored float field (false for None)"""
    if isinstance(v, Guarded):
        return z3.Or(*[z3.And(c, fcmp(I, x, fn)) for c, x in v.alts])
    if v is None or v is UNDEF:
        return FALSE
    return fn(I.to_float(v))


def _gk(I, fresh):
    delta = I.float_var("delta")
    I.assumptions.append(delta > 0)
    if fresh:
        g = Obj(GateKeeper, dict(_delta=delta, _t_pg=None, _t_go=None))
        return g, delta, None, None
    tpg, tgo = I.float_var("t_pg"), I.float_var("t_go")
    I.assumptions.append(z3.And(tgo - tpg >= R(MIN_I), tgo - tpg <= R(MAX_I)))      # invariant of a scheduled gate
    return Obj(GateKeeper, dict(_delta=delta, _t_pg=tpg, _t_go=tgo)), delta, tpg, tgo


def _mk_gk(vals, fresh):
    g = GateKeeper(vals["delta"])
    if not fresh:
        g._t_pg, g._t_go = vals["t_pg"], vals["t_go"]
    return g


@vc("C19", "B3-gate-keeper")
def gate(ctx):
    eps = GateKeeper._T_EPSILON
    for fresh in (True, False):
        tag = "fresh" if fresh else "scheduled"
        # ---- admit_packet (B.1)
        I = make("int")
        g, delta, tpg, tgo = _gk(I, fresh)
        t, ton = I.float_var("t"), I.float_var("t_on")
        n0 = len(I.raises)
        r = I.call_function(GateKeeper.admit_packet, [g, t, ton])
        verr = z3.Or(*[c for c, k in I.raises[n0:] if k is ValueError]) if I.raises[n0:] else FALSE
        open_ = TRUE if fresh else t >= tgo - R(eps)
        raw = ton / delta
        interval = z3.If(raw < R(MIN_I), R(MIN_I), z3.If(raw > R(MAX_I), R(MAX_I), raw))
        vars_ = {"delta": delta, "t": t, "t_on": ton}
        if not fresh:
            vars_.update(t_pg=tpg, t_go=tgo)

        def replay(vals, fresh=fresh):
            gk = _mk_gk(vals, fresh)
            before = (gk._t_pg, gk._t_go)
            try:
                res = gk.admit_packet(vals["t"], vals["t_on"])
            except ValueError:
                return vals["t_on"] > 0, "ValueError for positive t_on"
            if vals["t_on"] <= 0:
                return True, f"t_on={vals['t_on']} accepted"
            was_open = fresh or vals["t"] >= vals["t_go"] - eps
            msgs = []
            if res != was_open:
                msgs.append(f"gate open={was_open} but admit returned {res}")
            if res:
                want = vals["t"] + min(max(vals["t_on"] / vals["delta"], MIN_I), MAX_I)
                if abs(gk._t_go - want) > 1e-9 or gk._t_pg != vals["t"]:
                    msgs.append(f"t_go={gk._t_go}, eq. B.1 gives {want}")
            elif (gk._t_pg, gk._t_go) != before:
                msgs.append("refused packet changed the schedule")
            return bool(msgs), f"admit_packet(t={vals['t']}, t_on={vals['t_on']}) on {tag} gate: " + "; ".join(msgs)
        okc = z3.And(ton > 0, z3.Not(verr))
        ctx.witness(f"{tag}-admit-reach", I, z3.And(okc, I.to_bool(r)), vars=vars_, validate=lambda v, rp=replay: not rp(v)[0])
        ctx.prove(f"{tag}-admit-rejects-nonpositive-t_on", I, z3.And(ton <= 0, z3.Not(verr)), vars=vars_, replay=replay)
        ctx.prove(f"{tag}-admit-iff-open", I, z3.And(okc, I.to_bool(r) != open_), vars=vars_, replay=replay,
                  desc="a packet is admitted exactly when the gate is open (one packet per opening)")
        ctx.prove(f"{tag}-admit-schedules-B1", I, z3.And(okc, I.to_bool(r), z3.Or(fne(I, g.fields["_t_go"], t + interval), fne(I, g.fields["_t_pg"], t))),
                  vars=vars_, replay=replay, desc="t_go = t_pg + min(max(T_on/delta, 25 ms), 1 s) (eq. B.1)")
        if not fresh:
            ctx.prove(f"{tag}-refusal-leaves-schedule", I, z3.And(okc, z3.Not(I.to_bool(r)), z3.Or(fne(I, g.fields["_t_go"], tgo), fne(I, g.fields["_t_pg"], tpg))),
                      vars=vars_, replay=replay)
        # consequences: second admission less than 25 ms - eps later is refused; gate open again 1 s later
        t2 = I.float_var("t2")
        r2 = I.call_function(GateKeeper.is_open, [g, t2])
        ctx.prove(f"{tag}-closed-for-25ms-after-admission", I, z3.And(okc, I.to_bool(r), t2 >= t, t2 < t + R(MIN_I) - R(eps), I.to_bool(r2)),
                  vars={**vars_, "t2": t2}, replay=lambda vals, fresh=fresh: _two(vals, fresh, eps),
                  desc="two admissions are never less than 25 ms (minus the 1 ns tolerance) apart")
        ctx.prove(f"{tag}-open-again-within-1s", I, z3.And(okc, I.to_bool(r), t2 >= t + R(MAX_I), z3.Not(I.to_bool(r2))),
                  vars={**vars_, "t2": t2}, replay=lambda vals, fresh=fresh: _two(vals, fresh, eps),
                  desc="the gate never stays closed longer than 1 s after an admission")
        def replay_eps(v):
            import importlib
            import flexstack.management.dcc_adaptive as mod
            real = importlib.reload(mod).GateKeeper._T_EPSILON          # re-read from the source file
            return real > 1e-6, f"GateKeeper._T_EPSILON = {real} s"
        ctx.prove("epsilon-at-most-1us", None, z3.BoolVal(eps > 1e-6), replay=replay_eps)

        # ---- update_delta (B.2)
        I = make("int")
        g, delta, tpg, tgo = _gk(I, fresh)
        t, dn = I.float_var("t"), I.float_var("delta_new")
        n0 = len(I.raises)
        I.call_function(GateKeeper.update_delta, [g, t, dn])
        verr = z3.Or(*[c for c, k in I.raises[n0:] if k is ValueError]) if I.raises[n0:] else FALSE
        vars_ = {"delta": delta, "t": t, "delta_new": dn}
        if not fresh:
            vars_.update(t_pg=tpg, t_go=tgo)
            closed = z3.Not(t >= tgo - R(eps))
            newi = (delta / dn) * (tgo - tpg)
            resc = tpg + z3.If(newi < R(MIN_I), R(MIN_I), z3.If(newi > R(MAX_I), R(MAX_I), newi))
            want_go = z3.If(closed, resc, tgo)

        def replay_u(vals, fresh=fresh):
            gk = _mk_gk(vals, fresh)
            try:
                gk.update_delta(vals["t"], vals["delta_new"])
            except ValueError:
                return vals["delta_new"] > 0, "ValueError for positive delta"
            if vals["delta_new"] <= 0:
                return True, "non-positive delta accepted"
            msgs = []
            if gk._delta != vals["delta_new"]:
                msgs.append(f"delta stored {gk._delta}, new value {vals['delta_new']}")
            if not fresh:
                closed_ = not (vals["t"] >= vals["t_go"] - eps)
                want = vals["t_pg"] + min(max((vals["delta"] / vals["delta_new"]) * (vals["t_go"] - vals["t_pg"]), MIN_I), MAX_I) if closed_ else vals["t_go"]
                if abs(gk._t_go - want) > 1e-9:
                    msgs.append(f"t_go={gk._t_go}, eq. B.2 gives {want}")
            elif gk._t_go is not None:
                msgs.append("schedule created without an admission")
            return bool(msgs), f"update_delta(t={vals['t']}, {vals['delta_new']}) on {tag} gate: " + "; ".join(msgs)
        okc = z3.And(dn > 0, z3.Not(verr))
        ctx.witness(f"{tag}-update-reach", I, okc, vars=vars_, validate=lambda v, rp=replay_u: not rp(v)[0])
        ctx.prove(f"{tag}-update-rejects-nonpositive-delta", I, z3.And(dn <= 0, z3.Not(verr)), vars=vars_, replay=replay_u)
        ctx.prove(f"{tag}-update-stores-delta", I, z3.And(okc, fne(I, g.fields["_delta"], dn)), vars=vars_, replay=replay_u,
                  desc="the new delta is always taken over (also before the first admission)")
        if not fresh:
            ctx.prove(f"{tag}-update-rescales-B2", I, z3.And(okc, z3.Or(fne(I, g.fields["_t_go"], want_go), fne(I, g.fields["_t_pg"], tpg))),
                      vars=vars_, replay=replay_u, desc="closed gate: t_go = t_pg + min(max(delta_old/delta_new*(t_go - t_pg), 25 ms), 1 s) (eq. B.2); open gate: unchanged")
            ctx.prove(f"{tag}-update-keeps-invariant", I, z3.And(okc, z3.Not(fcmp(I, g.fields["_t_go"], lambda x: z3.And(x - tpg >= R(MIN_I), x - tpg <= R(MAX_I))))),
                      vars=vars_, replay=replay_u, desc="the closed interval stays within [25 ms, 1 s]: induction invariant for histories of any length")
        else:
            ctx.prove(f"{tag}-update-creates-no-schedule", I, z3.And(okc, z3.Not(I._lb(I.identical(g.fields["_t_go"], None)))), vars=vars_, replay=replay_u)
    ctx.bound("gate keeper: one step (admit_packet / update_delta / is_open) from an arbitrary state satisfying the stated invariant (fresh, or scheduled with "
              "t_go - t_pg in [25 ms, 1 s]); all times, T_on and deltas arbitrary reals; real arithmetic (double rounding outside the claim)")


def _two(vals, fresh, eps):
    gk = _mk_gk(vals, fresh)
    try:
        ok = gk.admit_packet(vals["t"], vals["t_on"])
    except ValueError:
        return False, "not admitted"
    if not ok:
        return False, "not admitted"
    o2 = gk.is_open(vals["t2"])
    d = vals["t2"] - vals["t"]
    bad = (0 <= d < MIN_I - eps and o2) or (d >= MAX_I and not o2)
    return bad, f"admitted at t={vals['t']}; gate open at t+{d} s: {o2}"
